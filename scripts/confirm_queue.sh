#!/bin/bash
# usage: confirm_queue.sh <m-a> <m-b> <PROP>...   confirms both mutations of each property, then removes the worktree
ma=$1; mb=$2; shift 2
for P in "$@"; do
  for m in $ma $mb; do
    timeout 1500 bash /verif/scripts/confirm_seed.sh $P $m 2>&1 | tail -1
  done
  if [ -f /verif/seeded/$P-$ma/meta.json ] && [ -f /verif/seeded/$P-$mb/meta.json ]; then
    git -C /repo worktree remove --force /tmp/wt-$P && echo "removed wt-$P"
  fi
done
