#!/bin/bash
# usage: try_patch.sh [-R] <patch-file> <prop>...   applies patch to /repo, runs quick checks for props, reverts.
rev=""
if [ "$1" = "-R" ]; then rev="-R"; shift; fi
patch=$1; shift
exec 9>/tmp/repo.lock; flock 9
cd /repo || exit 2
if ! git diff --quiet; then echo "/repo dirty"; exit 2; fi
git apply $rev "$patch" || { echo "patch does not apply"; exit 2; }
for p in "$@"; do
  out=$(/verif/scripts/run_check.sh $p ${TIER:-quick} 2>&1); rc=$?
  echo "== $p rc=$rc"; echo "$out" | grep -E "VIOLATION|violated|undecided|KNOWN|obligations" | head -${LINES_MAX:-12}
done
git -C /repo checkout -- . 
