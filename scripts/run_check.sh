#!/bin/bash
# usage: run_check.sh <prop> <tier>
. /verif/scripts/goenv.sh
cd /verif
if [ ! -x /verif/bin/bifrost-verify ]; then bash /verif/scripts/setup.sh >/dev/null || exit 2; fi
exec /verif/bin/bifrost-verify -prop "$1" -tier "${2:-quick}"
