#!/bin/bash
# usage: run_check.sh <prop> <tier>
# Static check of one property: loads /repo's current working tree, builds SSA, decides every obligation, writes
# /verif/evidence/<prop>.json. The checker binary is rebuilt when missing or older than any of its sources
# (dev-time queues that must not see half-edited sources set VERIF_NO_REBUILD=1).
. /verif/scripts/goenv.sh
cd /verif
if [ -z "${VERIF_NO_REBUILD:-}" ] && { [ ! -x /verif/bin/bifrost-verify ] || [ -n "$(find /verif/checker -name '*.go' -newer /verif/bin/bifrost-verify -print -quit 2>/dev/null)" ]; }; then
  bash /verif/scripts/setup.sh >/dev/null || exit 2
fi
exec /verif/bin/bifrost-verify -prop "$1" -tier "${2:-quick}"
