#!/bin/bash
# usage: collect_benign.sh <PROP>...  copies an agent's BENIGN/r1..r3 into selftest/benign_seeds/<PROP>-rK and removes the worktree
for P in "$@"; do
  for r in r1 r2 r3; do
    src=/tmp/wt-$P/BENIGN/$r
    [ -f $src/patch.diff ] || { echo "$P $r: missing"; continue; }
    dst=/verif/selftest/benign_seeds/$P-$r; mkdir -p $dst
    cp $src/patch.diff $dst/patch.diff; cp $src/README.md $dst/README.md 2>/dev/null
  done
  git -C /repo worktree remove --force /tmp/wt-$P && echo "collected $P"
done
