#!/usr/bin/env python3
"""Regenerates /verif/MANIFEST.json from the checker's own property table (bifrost-verify -describe)."""
import json, subprocess
props = [json.loads(l) for l in open('/verif/properties.jsonl')]
defs = {d['id']: d for d in json.loads(subprocess.check_output(['/verif/bin/bifrost-verify', '-describe']))}
checks, na = [], []
DEFAULT_TECH = "static analysis: SSA path exploration with nil/bool/order facts (must-pass gates, error propagation), provenance, who-may-access and sibling-agreement rules over the type-checked program"
for p in props:
    d = defs.get(p['id'])
    if d is None:
        na.append({"property_id": p['id'], "reason": "structural rule designed (DESIGN §4) but not implemented yet"})
        continue
    if d.get('na'):
        na.append({"property_id": p['id'], "reason": d['na']})
        continue
    checks.append({
        "property_id": p['id'],
        "quick_cmd": f"bash /verif/scripts/run_check.sh {p['id']} quick",
        "thorough_cmd": f"bash /verif/scripts/run_check.sh {p['id']} thorough",
        "evidence_file": f"/verif/evidence/{p['id']}.json",
        "replay_cmd_template": f"bash /verif/scripts/run_check.sh {p['id']} quick  # replay file {{path}} names the obligation; the property is re-evaluated on the current tree",
        "engine": "bifrost-verify",
        "level_claimed": {"category": "other", "text": "Sound decision of structural necessary conditions of the property on the type-checked SSA program (every path / every access / every sibling at once), not of the behavioural statement itself. " + d['explain'], "design_ref": "DESIGN.md §4 " + p['id']},
        "level_note": "NOT DECIDED: " + (d.get('not_covered') or '-') + " ASSUMES: " + "; ".join(d.get('assumptions') or []),
        "technique": d.get('technique') or DEFAULT_TECH,
    })
m = {"version": 1,
     "setup_cmd": "bash /verif/scripts/setup.sh",
     "hooks": {"guard": "verif", "enable": "none: static analysis needs no instrumentation; checks load /repo's working tree with go/packages on every run", "baseline_off_cmd": "cd /repo && . /verif/scripts/goenv.sh && go test -vet=off -count=1 -timeout 25m ./...", "source_commits": [], "add_only": True},
     "engines": [{"name": "bifrost-verify", "path": "/verif/checker", "serves_properties": [c['property_id'] for c in checks], "kind_free_text": "custom Go static analyser (go/packages + go/types + go/ssa, x/tools v0.50.0): path explorer with phi resolution and nil/bool/order facts, GATE / ERRPROP / NILRET / WHO / LOCKSET / EQUIV / SIBLING / PANIC rules; per-property obligation tables"}],
     "checks": checks,
     "notes": "All checks are static: nothing in /repo is executed. Every run loads /repo's working tree, builds SSA and re-decides every obligation. Violations print 'VIOLATION property=<id> replay=<path>' and exit 1; load/type errors, unresolved anchors and undecided obligations count as violations.",
     "not_applicable": na}
json.dump(m, open('/verif/MANIFEST.json', 'w'), indent=1)
print(len(checks), "claimed;", len(na), "n/a")
