#!/bin/bash
# Re-runs the current checks against every kept seed, 8 at a time, each in a private worktree of /repo's HEAD
# (dev-time only; /repo is not touched). usage: recheck_seeds_par.sh [name-glob]
. /verif/scripts/goenv.sh
pat=${1:-C*}
ls -d /verif/seeded/$pat/ | xargs -n1 basename | awk '{print $0, (NR%8)+1}' | sort -k2,2n -s > /tmp/recheck-plan.txt
for s in 1 2 3 4 5 6 7 8; do
  ( awk -v s=$s '$2==s{print $1}' /tmp/recheck-plan.txt | while read n; do bash /verif/scripts/recheck_one.sh $n $s; done ) &
done
wait
for s in 1 2 3 4 5 6 7 8; do git -C /repo worktree remove --force /tmp/wt-rc$s 2>/dev/null; rm -rf /tmp/verif-rc$s; done
