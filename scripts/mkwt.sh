#!/bin/bash
# usage: mkwt.sh <name>  -> creates /tmp/wt-<name> as detached worktree of /repo HEAD, writes property text
set -e
id=$1
d=/tmp/wt-$id
git -C /repo worktree add -q --detach $d HEAD
echo $d
