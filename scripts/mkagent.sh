#!/bin/bash
# usage: mkagent.sh <property id> <prompt file>  -> worktree /tmp/wt-<id> with PROPERTY.json and TASK.md (nothing from /verif beyond the property text)
set -e
id=$1; prompt=$2
bash /verif/scripts/mkwt.sh $id >/dev/null
grep "\"id\": *\"$id\"" /verif/properties.jsonl | head -1 | jq . > /tmp/wt-$id/PROPERTY.json
[ -s /tmp/wt-$id/PROPERTY.json ] || jq -c "select(.id==\"$id\")" /verif/properties.jsonl | jq . > /tmp/wt-$id/PROPERTY.json
sed "s/@ID@/$id/g" $prompt > /tmp/wt-$id/TASK.md
echo /tmp/wt-$id
