#!/bin/bash
# usage: confirm_seed.sh <PROP> <m1|m2> [related props...]
# Confirms an agent-produced mutation in its scratch worktree (/tmp/wt-<PROP>): demo passes without the patch, fails with
# it; the repo builds and the affected packages' existing tests pass with it. Then runs the /verif checks against
# /repo with the patch applied (and reverts). Writes /verif/seeded/<PROP>-<m>/.
set -u
. /verif/scripts/goenv.sh
P=$1; M=$2; shift 2; REL="$*"
WT=/tmp/wt-$P; MD=$WT/MUTATION/$M
OUT=/verif/seeded/$P-$M
[ -d "$MD" ] || { echo "no $MD"; exit 2; }
mkdir -p $OUT
cp $MD/patch.diff $OUT/patch.diff
cp $MD/README.md $OUT/agent-README.md 2>/dev/null
cd $WT && git checkout -q -- . 
demos=$(ls $MD/*_test.go 2>/dev/null)
placed=()
pkgs=()
for d in $demos; do
  dest=$(head -1 $d | sed -n 's#^// *place at: *##p' | tr -d ' \r')
  [ -z "$dest" ] && { echo "no place-at in $d"; continue; }
  case "$dest" in */) dest="$dest$(basename $d)";; esac
  case "$dest" in *_test.go) ;; *) dest="$dest/$(basename $d)";; esac
  mkdir -p $(dirname $WT/$dest); cp $d $WT/$dest; placed+=("$WT/$dest"); pkgs+=("./$(dirname $dest)"); cp $d $OUT/$(basename $d)
done
upkgs=$(printf "%s\n" "${pkgs[@]}" | sort -u | tr '\n' ' ')
tests=$(grep -ho "^func Test[A-Za-z0-9_]*" ${placed[@]} | sed 's/func //' | sort -u | paste -sd'|')
log=$OUT/confirm.log; : > $log
echo "## demo on unmodified tree ($upkgs -run '$tests')" >> $log
go test -vet=off -count=1 -run "^($tests)\$" $upkgs >> $log 2>&1; rc_clean=$?
git apply $MD/patch.diff || { echo "patch does not apply"; exit 2; }
changed=$(git diff --name-only | xargs -n1 dirname | sort -u | sed 's#^#./#' | tr '\n' ' ')
echo "## go build ./... with patch" >> $log
go build ./... >> $log 2>&1; rc_build=$?
echo "## demo with patch" >> $log
go test -vet=off -count=1 -run "^($tests)\$" $upkgs >> $log 2>&1; rc_mut=$?
# existing tests: remove demo, run full suite (minus MUTATION dir)
rm -f "${placed[@]}"
echo "## existing test suite with patch (all packages)" >> $log
# transport/websocket binds a fixed port (127.0.0.1:19384) and hangs when several worktrees test at once: run it only if
# the patch touches it, serialised by a lock; everything else runs normally.
skip=/transport/websocket
case "$changed" in *transport/websocket*) skip=/NONE;; esac
go test -vet=off -count=1 -timeout 10m $(go list ./... | grep -v /MUTATION | grep -v $skip | grep -v transport/webrtc) 2>&1 | grep -v "no test files" >> $log; rc_suite=${PIPESTATUS[0]}
# transport/webrtc TestTransport hangs intermittently on the unmodified tree as well (measured 1/12 with and without fixes):
# run it separately with a short timeout and up to 3 attempts.
rc_w=1
for attempt in 1 2 3; do
  if go test -vet=off -count=1 -timeout 90s ./transport/webrtc/ >> $log 2>&1; then rc_w=0; break; fi
  echo "## transport/webrtc attempt $attempt did not pass (known intermittent hang), retrying" >> $log
done
[ $rc_w -ne 0 ] && rc_suite=1
echo "## (transport/websocket excluded unless touched: fixed listen port collides between concurrent worktrees; it does not import the changed packages: $(go list -deps ./transport/websocket | grep -c -F -f <(for d in $changed; do echo "github.com/aperturerobotics/bifrost/${d#./}"; done)) matching deps)" >> $log
git checkout -q -- .
# now our checks against /repo (serialised with other scripts that patch /repo)
exec 9>/tmp/repo.lock; flock 9
cd /repo; git diff --quiet || { echo "/repo dirty"; exit 2; }
git apply $OUT/patch.diff || { echo "patch does not apply to /repo"; exit 2; }
det=""
for pr in $P $REL; do
  o=$(/verif/scripts/run_check.sh $pr quick 2>&1); rc=$?
  echo "## check $pr rc=$rc" >> $log; echo "$o" | grep -E "VIOLATION|violated|undecided" >> $log
  [ $rc -ne 0 ] && det="$det $pr"
done
git checkout -q -- .
flock -u 9
python3 - "$P" "$M" "$rc_clean" "$rc_mut" "$rc_build" "$rc_suite" "$det" "$changed" <<'PY'
import json,sys
P,M,rc_clean,rc_mut,rc_build,rc_suite,det,changed=sys.argv[1:9]
out=f"/verif/seeded/{P}-{M}"
meta={"property":P,"mutation":M,"source":"independent sub-agent given only the property text and a scratch worktree",
 "changed_dirs":changed.split(),
 "confirmed":{"demo_passes_without_patch":rc_clean=="0","demo_fails_with_patch":rc_mut!="0","builds_with_patch":rc_build=="0","existing_suite_passes_with_patch":rc_suite=="0"},
 "detected_by_checks":list(dict.fromkeys(det.split())),"ran":"scripts/confirm_seed.sh (see confirm.log)"}
json.dump(meta,open(out+"/meta.json","w"),indent=1)
print(json.dumps(meta))
PY
