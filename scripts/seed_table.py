#!/usr/bin/env python3
"""Writes /verif/seeded/SUMMARY.md from the meta.json of every kept seed."""
import json, glob, os
rows = []
for d in sorted(glob.glob('/verif/seeded/*/')):
    mp = d + 'meta.json'
    if not os.path.exists(mp):
        continue
    m = json.load(open(mp))
    name = os.path.basename(d.rstrip('/'))
    c = m.get('confirmed', {})
    conf = all(c.get(k) for k in ('demo_passes_without_patch', 'demo_fails_with_patch', 'builds_with_patch', 'existing_suite_passes_with_patch'))
    rows.append((name, m.get('property'), m.get('what', ''), m.get('needs', ''), 'yes' if conf else 'partly: ' + ','.join(k for k, v in c.items() if not v),
                 ' '.join(m.get('detected_by_checks', [])) or 'NOT DETECTED', m.get('rule', '')))
out = ["# Seeded changes (independently produced; each breaks one property while the repo builds and the suite passes)", "",
       "| seed | property | change | needs to manifest | confirmed | detected by | rule that fires |", "|---|---|---|---|---|---|---|"]
for r in rows:
    out.append("| " + " | ".join(str(x).replace('|', '/') for x in r) + " |")
out.append("")
out.append(f"{len(rows)} seeds; {sum(1 for r in rows if r[5] != 'NOT DETECTED')} detected by the property's check on the current checker.")
open('/verif/seeded/SUMMARY.md', 'w').write("\n".join(out) + "\n")
print(out[-1])
