#!/bin/bash
# usage: dev_try.sh <patch.diff> <PROP>...   dev-time: applies a patch to a private worktree (/tmp/${DEVWT:-wt-dev}, HEAD of /repo)
# and runs the dev build of the checker (/verif/bin/bv-dev) against it; /repo itself is not touched.
patch=$1; shift
[ -d /tmp/${DEVWT:-wt-dev} ] || git -C /repo worktree add -q --detach /tmp/${DEVWT:-wt-dev} HEAD
mkdir -p /tmp/verif-${DEVWT:-wt-dev}/evidence; ln -sfn /verif/checker /tmp/verif-${DEVWT:-wt-dev}/checker; cp /verif/known-findings.json /tmp/verif-${DEVWT:-wt-dev}/
cd /tmp/${DEVWT:-wt-dev} && git checkout -q --detach $(git -C /repo rev-parse HEAD) && git checkout -q -- . && git clean -fdq
[ "$patch" != "-" ] && { git apply $patch || { echo "patch does not apply"; exit 2; }; }
for p in "$@"; do /verif/bin/${BVDEV:-bv-dev} -repo /tmp/${DEVWT:-wt-dev} -verif /tmp/verif-${DEVWT:-wt-dev} -prop $p -tier quick 2>&1 | grep -E "violated|undecided|VIOLATION| quick:" | cut -c1-420; done
git checkout -q -- .
