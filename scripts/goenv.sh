# Go environment for every command that touches /repo or the checker (see DESIGN §2).
export PATH=/opt/veriftools/go1.26.8/bin:$PATH
export GOFLAGS=-mod=mod GOPROXY=off GOSUMDB=off GOTOOLCHAIN=local
unset GOWORK
