#!/usr/bin/env python3
"""usage: mut.py <file> <old> <new> -- <prop>...   : replace first occurrence in /repo/<file>, build, run checks, revert."""
import sys, subprocess, fcntl
lk = open("/tmp/repo.lock", "w"); fcntl.flock(lk, fcntl.LOCK_EX)
args = sys.argv[1:]
i = args.index('--')
f, old, new = args[0], args[1], args[2]
props = args[i+1:]
p = '/repo/' + f
s = open(p).read()
if old not in s:
    print("OLD NOT FOUND"); sys.exit(2)
open(p, 'w').write(s.replace(old, new, 1))
try:
    env = "export PATH=/opt/veriftools/go1.26.8/bin:$PATH GOFLAGS=-mod=mod GOPROXY=off GOSUMDB=off GOTOOLCHAIN=local; unset GOWORK; "
    r = subprocess.run(env + "cd /repo && go build ./... 2>&1 | head -5", shell=True, capture_output=True, text=True)
    if r.stdout.strip():
        print("BUILD FAILS:", r.stdout)
    for pr in props:
        r = subprocess.run(f"/verif/scripts/run_check.sh {pr} quick", shell=True, capture_output=True, text=True)
        lines = [l for l in r.stdout.splitlines() if ('violated' in l or 'undecided' in l or 'obligations' in l)]
        print(f"== {pr} rc={r.returncode}")
        for l in lines[:6]: print("  ", l[:300])
finally:
    open(p, 'w').write(s)
