#!/usr/bin/env python3
import json, os
ann = json.load(open('/verif/seeded/annotations.json'))
for k, a in ann.items():
    p = f'/verif/seeded/{k}/meta.json'
    if not os.path.exists(p):
        continue
    m = json.load(open(p)); m.update(a); json.dump(m, open(p, 'w'), indent=1)
print("annotated", len(ann))
