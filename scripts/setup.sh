#!/bin/bash
set -e
. /verif/scripts/goenv.sh
cd /verif/checker
mkdir -p /verif/bin /verif/evidence
go build -o /verif/bin/bifrost-verify ./cmd/bifrost-verify
