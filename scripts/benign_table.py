#!/usr/bin/env python3
# usage: benign_table.py <run log of selftest/run_benign_seeds.sh>  -> selftest/benign_seeds/README.md
import re,collections,sys
log=open(sys.argv[1]).read()
ok=re.findall(r'^(C\d\d-r\d): verdict unchanged',log,re.M)
bad=collections.OrderedDict()
cur=None
for line in log.splitlines():
    m=re.match(r'FALSE ALARM\? (C\d\d-r\d):',line)
    if m: cur=m.group(1); bad[cur]=[]; continue
    m=re.match(r'\s+(violated|undecided) \[([A-Z]+)\] (.*)',line)
    if m and cur: bad[cur].append((m.group(1),m.group(2),re.split(r' — ',m.group(3))[0][:120]))
rows=[]
for n in sorted(set(ok)|set(bad)):
    if n in bad:
        kinds=sorted(set(f"{a} {b}" for a,b,_ in bad[n]))
        first=bad[n][0][2] if bad[n] else ""
        rows.append(f"| {n} | alarm | {', '.join(kinds)} | {first} |")
    else:
        rows.append(f"| {n} | unchanged | | |")
out=["# Independently produced behaviour-preserving refactorings","",
"Sub-agents, given only a property's text and a scratch worktree, produced three clean-up refactorings each of the code the",
"property rests on (helper extraction, guard clauses <-> nesting, switch <-> if chains, stdlib idioms, renamed locals, ...);",
"the existing suite passes with each. `selftest/run_benign_seeds.sh` applies every `patch.diff` to a private worktree and",
"runs the property's check: the verdict should be unchanged. The table is the result on the checker as committed.",
"An `alarm` on one of these is a false alarm by construction (unless the refactoring is itself wrong); the rule kinds say",
"which obligations tripped. See DESIGN.md section 9.6 for what this measures and what was done about it.","",
f"{len(ok)} of {len(set(ok)|set(bad))} unchanged.","",
"| refactoring | verdict | undischarged rule kinds | first obligation |","|---|---|---|---|"]+rows
open('/verif/selftest/benign_seeds/README.md','w').write("\n".join(out)+"\n")
print(len(ok),len(bad))
