#!/bin/bash
# Re-runs the current checks against every kept seed (seeded/*/patch.diff applied to /repo, then reverted) and
# rewrites the "detected_by_checks" field of its meta.json; prints a table. Dev-time only.
exec 9>/tmp/repo.lock; flock 9
cd /repo || exit 2
git diff --quiet || { echo "/repo dirty"; exit 2; }
for d in /verif/seeded/*/; do
  [ -f $d/meta.json ] || continue
  name=$(basename $d); prop=${name%%-*}
  extra=$(python3 -c "import json;m=json.load(open('$d/meta.json'));print(' '.join(sorted(set(m.get('also_check',[])))))")
  if ! git apply --check $d/patch.diff 2>/dev/null; then echo "$name: patch no longer applies to the repaired tree"; python3 - "$d" <<'PY'
import json,sys
p=sys.argv[1]+'/meta.json'; m=json.load(open(p)); m['applies_to_current_tree']=False; json.dump(m,open(p,'w'),indent=1)
PY
    continue; fi
  git apply $d/patch.diff
  det=""
  rep=""
  for p in $prop $extra; do /verif/scripts/run_check.sh $p quick >/tmp/recheck.out 2>&1 || { det="$det $p"; [ "$p" = "$prop" ] && rep=$(grep -m1 -E "^ *(violated|undecided) " /tmp/recheck.out | sed -E 's/^ *//; s/ — .*//' | cut -c1-300); }; done
  git checkout -q -- .
  echo "$name: detected by [$det ]"
  python3 - "$d" "$det" "$rep" <<'PY'
import json,sys
p=sys.argv[1]+'/meta.json'; m=json.load(open(p)); now=sys.argv[2].split(); prop=m['property']
if sys.argv[3]: m['reported_as']=sys.argv[3]
old=[x for x in m.get('detected_by_checks',[]) if x!=prop and x not in now]
m['detected_by_own_check']=prop in now
m['detected_by_checks']=([prop] if prop in now else [])+[x for x in now if x!=prop]+old
m['applies_to_current_tree']=True; json.dump(m,open(p,'w'),indent=1)
PY
done
