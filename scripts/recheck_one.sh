#!/bin/bash
# usage: recheck_one.sh <seed dir name> <slot>   re-runs the current checker against one kept seed in a private worktree
# (/tmp/wt-rc<slot>, HEAD of /repo) — /repo itself is not touched — and updates the seed's meta.json.
name=$1; slot=$2
d=/verif/seeded/$name; prop=${name%%-*}
wt=/tmp/wt-rc$slot; vd=/tmp/verif-rc$slot
[ -f $d/meta.json ] || exit 0
[ -d $wt ] || git -C /repo worktree add -q --detach $wt HEAD
mkdir -p $vd/evidence; ln -sfn /verif/checker $vd/checker; cp /verif/known-findings.json $vd/
cd $wt && git checkout -q --detach $(git -C /repo rev-parse HEAD) 2>/dev/null; git checkout -q -- . && git clean -fdq
extra=$(python3 -c "import json;m=json.load(open('$d/meta.json'));print(' '.join(sorted(set(m.get('also_check',[])))))")
if ! git apply --check $d/patch.diff 2>/dev/null; then
  echo "$name: patch no longer applies to the repaired tree"
  python3 - "$d" <<'PY'
import json,sys
p=sys.argv[1]+'/meta.json'; m=json.load(open(p)); m['applies_to_current_tree']=False; json.dump(m,open(p,'w'),indent=1)
PY
  exit 0
fi
git apply $d/patch.diff
det=""; rep=""
for p in $prop $extra; do
  /verif/bin/bifrost-verify -repo $wt -verif $vd -prop $p -tier quick > $vd/out.txt 2>&1 || { det="$det $p"; [ "$p" = "$prop" ] && rep=$(grep -m1 -E "^ *(violated|undecided) " $vd/out.txt | sed -E 's/^ *//; s/ — .*//' | cut -c1-300); }
done
git checkout -q -- .
echo "$name: detected by [$det ]"
python3 - "$d" "$det" "$rep" <<'PY'
import json,sys
p=sys.argv[1]+'/meta.json'; m=json.load(open(p)); now=sys.argv[2].split(); prop=m['property']
if sys.argv[3]: m['reported_as']=sys.argv[3]
old=[x for x in m.get('detected_by_checks',[]) if x!=prop and x not in now]
m['detected_by_own_check']=prop in now
m['detected_by_checks']=([prop] if prop in now else [])+[x for x in now if x!=prop]+old
m['applies_to_current_tree']=True; json.dump(m,open(p,'w'),indent=1)
PY
