#!/bin/bash
# usage: benign_one.sh <name (e.g. C01-r1)> <slot> [extra props...]
# Applies one kept behaviour-preserving refactoring (selftest/benign_seeds/<name>/patch.diff) to a private worktree of
# /repo's HEAD, builds it, and runs the property's check (tier quick) against it: the verdict must be unchanged (exit 0).
. /verif/scripts/goenv.sh
name=$1; slot=$2; shift 2; extra="$*"
d=/verif/selftest/benign_seeds/$name; prop=${name%%-*}
wt=/tmp/wt-bn$slot; vd=/tmp/verif-bn$slot
[ -f $d/patch.diff ] || { echo "$name: no patch"; exit 2; }
[ -d $wt ] || git -C /repo worktree add -q --detach $wt HEAD
mkdir -p $vd/evidence; ln -sfn /verif/checker $vd/checker; cp /verif/known-findings.json $vd/
cd $wt && git checkout -q --detach $(git -C /repo rev-parse HEAD) 2>/dev/null; git checkout -q -- . && git clean -fdq
if ! git apply $d/patch.diff 2>/dev/null; then echo "$name: patch does not apply to the current tree (skipped)"; exit 0; fi
# (no separate build step: the checker type-checks the whole tree itself and fails on any compile error)
rc=0
for p in $prop $extra; do
  if ! /verif/bin/bifrost-verify -repo $wt -verif $vd -prop $p -tier quick > $vd/out.txt 2>&1; then
    rc=1; echo "FALSE ALARM? $name: check $p fails on a behaviour-preserving refactoring:"; grep -E "^ *(violated|undecided) " $vd/out.txt | cut -c1-420
  fi
done
git checkout -q -- .
[ $rc -eq 0 ] && echo "$name: verdict unchanged"
exit $rc
