#!/bin/bash
# Dev-time: repository-wide syntactic rewrites that cannot change behaviour (inverted if/else, guard clauses turned
# into if/else nests, nil on the left of comparisons) must leave all 40 verdicts unchanged.
# usage: run_astmut.sh [mode…]   (default: invert nest yoda)
exec 9>/tmp/repo.lock; flock 9
. /verif/scripts/goenv.sh
cd /verif/checker && go build -o /verif/bin/astmut ./cmd/astmut || exit 2
cd /repo || exit 2
git diff --quiet || { echo "/repo dirty"; exit 2; }
modes=${@:-invert nest yoda}
rc=0
for m in $modes; do
  /verif/bin/astmut -mode $m /repo
  go build ./... || { echo "rewrite $m does not build"; rc=1; git checkout -- .; continue; }
  for i in $(seq -w 1 40); do echo C$i; done | xargs -P 6 -I{} sh -c '/verif/scripts/run_check.sh {} quick > /tmp/astmut-{}.out 2>&1 || echo "FALSE ALARM under rewrite '$m': {}"' | tee /tmp/astmut-$m.fails
  [ -s /tmp/astmut-$m.fails ] && rc=1
  for f in $(sed -n 's/.*: \(C[0-9]*\)$/\1/p' /tmp/astmut-$m.fails); do grep -E "violated|undecided" /tmp/astmut-$f.out | cut -c1-400 | sed "s/^/  [$m $f] /"; done
  git checkout -- .
done
rm -f /tmp/astmut-C*.out
[ $rc -eq 0 ] && echo "syntactic rewrites: all verdicts unchanged"
exit $rc
