#!/bin/bash
# Dev-time: repository-wide rewrites that cannot change behaviour must leave all 40 verdicts unchanged.
#   syntactic (checker/cmd/astmut):  invert (if/else swapped), nest (guard clauses -> if/else nests), yoda (nil == x)
#   typed (checker/cmd/astmut2):     index (range -> index loops), emptylen / emptystr (s == "" <-> len(s) == 0),
#                                    mergeif / splitand (nested ifs <-> a && b)
# Each rewrite is applied to a private worktree of /repo's HEAD (/repo itself is not touched) and all checks run on it.
# usage: run_astmut.sh [mode...]
. /verif/scripts/goenv.sh
cd /verif/checker && go build -o /verif/bin/astmut ./cmd/astmut && go build -o /verif/bin/astmut2 ./cmd/astmut2 || exit 2
[ -x /verif/bin/bifrost-verify ] || bash /verif/scripts/setup.sh >/dev/null
wt=/tmp/wt-am; vd=/tmp/verif-am
[ -d $wt ] || git -C /repo worktree add -q --detach $wt HEAD
mkdir -p $vd/evidence; ln -sfn /verif/checker $vd/checker; cp /verif/known-findings.json $vd/
cd $wt && git checkout -q --detach $(git -C /repo rev-parse HEAD) && git checkout -q -- . && git clean -fdq
modes=${@:-invert nest yoda index emptylen emptystr mergeif splitand}
rc=0
for m in $modes; do
  git checkout -q -- .
  case $m in invert|nest|yoda) /verif/bin/astmut -mode $m $wt;; *) /verif/bin/astmut2 -mode $m $wt;; esac
  for i in $(seq -w 1 40); do echo C$i; done | xargs -P 8 -I{} sh -c '/verif/bin/bifrost-verify -repo '$wt' -verif '$vd' -prop {} -tier quick > /tmp/am-{}.out 2>&1 || { echo "FALSE ALARM under rewrite '$m': {}"; grep -E "^ *(violated|undecided) " /tmp/am-{}.out | cut -c1-300; }' > /tmp/am-$m.fails
  cat /tmp/am-$m.fails; [ -s /tmp/am-$m.fails ] && rc=1
done
git checkout -q -- .; cd /; git -C /repo worktree remove --force $wt; rm -rf $vd /tmp/am-C*.out
[ $rc -eq 0 ] && echo "repository-wide rewrites: all verdicts unchanged"
exit $rc
