#!/bin/bash
# Dev-time: every kept independently-produced behaviour-preserving refactoring must leave its property's verdict
# unchanged. 8 at a time, each in a private worktree (/repo is not touched). usage: run_benign_seeds.sh [glob]
pat=${1:-C*}
ls -d /verif/selftest/benign_seeds/$pat/ 2>/dev/null | xargs -n1 basename | awk '{print $0, (NR%8)+1}' > /tmp/bn-plan.txt
for s in 1 2 3 4 5 6 7 8; do
  ( awk -v s=$s '$2==s{print $1}' /tmp/bn-plan.txt | while read n; do bash /verif/selftest/benign_one.sh $n $s; done ) &
done
wait
for s in 1 2 3 4 5 6 7 8; do git -C /repo worktree remove --force /tmp/wt-bn$s 2>/dev/null; rm -rf /tmp/verif-bn$s; done
