#!/bin/bash
# Dev-time: behaviour-preserving refactors of /repo must leave every verdict unchanged (no false alarms).
# Each patcher rewrites functions in /repo (switch instead of if-chains, renamed locals, reordered independent
# guards, %w wrapping, a guard extracted into a helper, loop+flag replaced by slices.Contains, early returns);
# the affected checks are run and /repo is restored.
exec 9>/tmp/repo.lock; flock 9
cd /repo || exit 2
git diff --quiet || { echo "/repo dirty"; exit 2; }
rc=0
run() { patcher=$1; shift; python3 $patcher || { echo "patcher failed"; rc=1; git -C /repo checkout -- . ; return; }
  . /verif/scripts/goenv.sh; go build ./... || { echo "refactor does not build"; rc=1; }
  for p in "$@"; do out=$(/verif/scripts/run_check.sh $p quick 2>&1) || { echo "FALSE ALARM on benign refactor: $p"; echo "$out" | grep -E "violated|undecided"; rc=1; }; done
  git -C /repo checkout -- . ; }
run /verif/selftest/benign/b1_extract_and_verify_refactor.py C01 C19 C20 C27
run /verif/selftest/benign/b2_srpc_packet_keyfile_refactor.py C34 C08 C39 C40
run /verif/selftest/benign/b3_signaling_server_floodsub_refactor.py C22 C23 C24 C25 C27 C28 C29
run /verif/selftest/benign/b4_transport_handler_refactor.py C03 C04 C05 C06
run /verif/selftest/benign/b5_decrypt_refactor.py C12 C40 C26 C18
run /verif/selftest/benign/b6_round3_alternatives.py C06 C08 C11 C13 C14 C22 C23 C25 C27 C28 C29 C30 C32
run /verif/selftest/benign/b7_shared_helpers.py C01 C02 C03 C04 C05 C19 C20 C27 C28
[ $rc -eq 0 ] && echo "benign refactors: all verdicts unchanged"
exit $rc
