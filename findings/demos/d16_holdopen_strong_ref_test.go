package link_holdopen_controller

import (
	"sync/atomic"
	"testing"
	"time"

	"github.com/aperturerobotics/bifrost/link"
	"github.com/aperturerobotics/bifrost/peer"
	"github.com/aperturerobotics/controllerbus/directive"
	"github.com/sirupsen/logrus"
)

type fakeRef struct{ di *fakeDI }

func (r *fakeRef) Release() { r.di.rels.Add(1) }

type fakeDI struct {
	directive.Instance
	adds, rels atomic.Int32
}

func (d *fakeDI) AddReference(cb directive.ReferenceHandler, weak bool) directive.Reference {
	d.adds.Add(1)
	return &fakeRef{di: d}
}

type fakeVal struct{ directive.AttachedValue; v link.MountedLink }

func (f *fakeVal) GetValue() directive.Value { return f.v }

type fakeML struct{ link.MountedLink }

func (f *fakeML) GetLinkUUID() uint64 { return 1 }
func (f *fakeML) GetLocalPeer() peer.ID { return "local" }

// Two links added back to back, then both removed: every strong reference that was taken must be released.
func TestProbeD16DoubleAdd(t *testing.T) {
	leaks := 0
	for i := 0; i < 200; i++ {
		di := &fakeDI{}
		h := newEstablishLinkHandler(&Controller{}, quietLE(), di, "peer")
		v := &fakeVal{v: &fakeML{}}
		h.HandleValueAdded(di, v)
		h.HandleValueAdded(di, v)
		time.Sleep(2 * time.Millisecond)
		h.HandleValueRemoved(di, v)
		h.HandleValueRemoved(di, v)
		time.Sleep(2 * time.Millisecond)
		if di.adds.Load() != di.rels.Load() {
			leaks++
		}
	}
	if leaks != 0 {
		t.Fatalf("%d/200 runs leaked a strong reference (taken more often than released)", leaks)
	}
}

// A link added and removed before the asynchronous acquisition runs: no strong reference may remain.
func TestProbeD16AddRemove(t *testing.T) {
	leaks := 0
	for i := 0; i < 200; i++ {
		di := &fakeDI{}
		h := newEstablishLinkHandler(&Controller{}, quietLE(), di, "peer")
		v := &fakeVal{v: &fakeML{}}
		h.HandleValueAdded(di, v)
		h.HandleValueRemoved(di, v)
		time.Sleep(2 * time.Millisecond)
		if di.adds.Load() != di.rels.Load() {
			leaks++
		}
	}
	if leaks != 0 {
		t.Fatalf("%d/200 runs hold a strong reference although no link exists", leaks)
	}
}

func quietLE() *logrus.Entry { l := logrus.New(); l.SetLevel(logrus.PanicLevel); return logrus.NewEntry(l) }
