// place at: transport/controller/d20_lost_link_still_reported_test.go
//
// D20 (C06): HandleLinkLost removed the link from the controller's tables but never woke the EstablishLinkWithPeer
// resolvers (the critical section received `broadcast` and did not call it), so a lost — and closed — link stayed among
// the directive's values until some unrelated link event happened. "A lost link is closed and never reported again" and
// "the reported set equals established-and-not-lost" did not hold at quiescence. Fails before
// "fix: transport controller wakes link resolvers when a link is lost", passes after.
// (harness adapted from the demonstration of seed C06-m4)
package transport_controller_test

import (
	"context"
	"errors"
	"sync"
	"sync/atomic"
	"testing"
	"time"

	"github.com/aperturerobotics/bifrost/crypto"
	"github.com/aperturerobotics/bifrost/link"
	"github.com/aperturerobotics/bifrost/peer"
	"github.com/aperturerobotics/bifrost/stream"
	"github.com/aperturerobotics/bifrost/testbed"
	"github.com/aperturerobotics/bifrost/transport"
	transport_controller "github.com/aperturerobotics/bifrost/transport/controller"
	"github.com/aperturerobotics/controllerbus/bus"
	"github.com/aperturerobotics/controllerbus/controller"
	"github.com/aperturerobotics/controllerbus/directive"
	"github.com/blang/semver/v4"
	"github.com/sirupsen/logrus"
)

// d20Link is a fake link.
type d20Link struct {
	name          string
	uuid          uint64
	local, remote peer.ID

	closeCount atomic.Int32
	openCount  atomic.Int32
	closeOnce  sync.Once
	closedCh   chan struct{}
}

func newD20Link(name string, uuid uint64, local, remote peer.ID) *d20Link {
	return &d20Link{name: name, uuid: uuid, local: local, remote: remote, closedCh: make(chan struct{})}
}

func (l *d20Link) GetUUID() uint64                { return l.uuid }
func (l *d20Link) GetTransportUUID() uint64       { return 42 }
func (l *d20Link) GetRemoteTransportUUID() uint64 { return 43 }
func (l *d20Link) GetRemotePeer() peer.ID         { return l.remote }
func (l *d20Link) GetLocalPeer() peer.ID          { return l.local }
func (l *d20Link) OpenStream(opts stream.OpenOpts) (stream.Stream, error) {
	l.openCount.Add(1)
	return nil, errors.New("d20Link: streams not supported")
}

func (l *d20Link) AcceptStream() (stream.Stream, stream.OpenOpts, error) {
	<-l.closedCh
	return nil, stream.OpenOpts{}, context.Canceled
}

func (l *d20Link) Close() error {
	l.closeCount.Add(1)
	l.closeOnce.Do(func() { close(l.closedCh) })
	return nil
}

// d20Transport is a fake transport which does nothing.
type d20Transport struct{ peerID peer.ID }

func (t *d20Transport) Execute(ctx context.Context) error { return nil }
func (t *d20Transport) GetUUID() uint64                   { return 42 }
func (t *d20Transport) GetPeerID() peer.ID                { return t.peerID }
func (t *d20Transport) Close() error                      { return nil }

// d20Values tracks the values of a EstablishLinkWithPeer directive.
type d20Values struct {
	mtx  sync.Mutex
	vals map[uint32]link.MountedLink
}

func (v *d20Values) snapshot() []link.MountedLink {
	v.mtx.Lock()
	defer v.mtx.Unlock()
	out := make([]link.MountedLink, 0, len(v.vals))
	for _, val := range v.vals {
		out = append(out, val)
	}
	return out
}

// d20Eventually polls cond until it returns true or the timeout elapses.
func d20Eventually(timeout time.Duration, cond func() bool) bool {
	deadline := time.Now().Add(timeout)
	for {
		if cond() {
			return true
		}
		if time.Now().After(deadline) {
			return false
		}
		time.Sleep(5 * time.Millisecond)
	}
}

// d20Consistently checks that cond holds for the whole duration.
func d20Consistently(dur time.Duration, cond func() bool) bool {
	deadline := time.Now().Add(dur)
	for time.Now().Before(deadline) {
		if !cond() {
			return false
		}
		time.Sleep(5 * time.Millisecond)
	}
	return cond()
}

// d20Setup starts a transport controller with a fake transport on a testbed bus.
func d20Setup(t *testing.T, ctx context.Context) (*testbed.Testbed, *transport_controller.Controller, transport.TransportHandler) {
	log := logrus.New()
	log.SetLevel(logrus.DebugLevel)
	le := logrus.NewEntry(log)

	tb, err := testbed.NewTestbed(ctx, le, testbed.TestbedOpts{NoEcho: true})
	if err != nil {
		t.Fatal(err.Error())
	}
	t.Cleanup(tb.Release)

	handlerCh := make(chan transport.TransportHandler, 1)
	ctrl := transport_controller.NewController(
		le,
		tb.Bus,
		controller.NewInfo("bifrost/test/c06-d20", semver.MustParse("0.0.1"), "c06 demo"),
		tb.PeerID,
		true,
		func(ctx context.Context, le *logrus.Entry, pkey crypto.PrivKey, handler transport.TransportHandler) (transport.Transport, error) {
			pid, err := peer.IDFromPrivateKey(pkey)
			if err != nil {
				return nil, err
			}
			select {
			case handlerCh <- handler:
			default:
			}
			return &d20Transport{peerID: pid}, nil
		},
	)
	rel, err := tb.Bus.AddController(ctx, ctrl, nil)
	if err != nil {
		t.Fatal(err.Error())
	}
	t.Cleanup(rel)

	if _, err := ctrl.GetTransport(ctx); err != nil {
		t.Fatal(err.Error())
	}
	var handler transport.TransportHandler
	select {
	case handler = <-handlerCh:
	case <-time.After(10 * time.Second):
		t.Fatal("transport was not constructed")
	}
	return tb, ctrl, handler
}

// d20PeerLinksAre checks that GetPeerLinks returns exactly the given links.
func d20PeerLinksAre(ctrl *transport_controller.Controller, remote peer.ID, want ...link.Link) bool {
	got := ctrl.GetPeerLinks(remote)
	if len(got) != len(want) {
		return false
	}
	for _, w := range want {
		var found bool
		for _, g := range got {
			if g == w {
				found = true
			}
		}
		if !found {
			return false
		}
	}
	return true
}

// d20BackedBy checks that the mounted links are backed by exactly the given links.
// A mounted link does not expose its link: OpenMountedStream calls OpenStream on it.
func d20BackedBy(ctx context.Context, mlnks []link.MountedLink, want ...*d20Link) bool {
	if len(mlnks) != len(want) {
		return false
	}
	before := make([]int32, len(want))
	for i, w := range want {
		before[i] = w.openCount.Load()
	}
	for _, ml := range mlnks {
		_, _ = ml.OpenMountedStream(ctx, "c06/demo", stream.OpenOpts{})
	}
	for i, w := range want {
		if w.openCount.Load() != before[i]+1 {
			return false
		}
	}
	return true
}


func TestD20LostLinkIsNoLongerReported(t *testing.T) {
	ctx, cancel := context.WithCancel(context.Background())
	defer cancel()

	tb, ctrl, handler := d20Setup(t, ctx)

	rpeer, err := peer.NewPeer(nil)
	if err != nil {
		t.Fatal(err.Error())
	}
	remote := rpeer.GetPeerID()

	vals := &d20Values{vals: make(map[uint32]link.MountedLink)}
	_, dirRef, err := tb.Bus.AddDirective(
		link.NewEstablishLinkWithPeer(tb.PeerID, remote),
		bus.NewCallbackHandler(
			func(av directive.AttachedValue) {
				ml, ok := av.GetValue().(link.MountedLink)
				if !ok {
					return
				}
				vals.mtx.Lock()
				vals.vals[av.GetValueID()] = ml
				vals.mtx.Unlock()
			},
			func(av directive.AttachedValue) {
				vals.mtx.Lock()
				delete(vals.vals, av.GetValueID())
				vals.mtx.Unlock()
			},
			nil,
		),
	)
	if err != nil {
		t.Fatal(err.Error())
	}
	defer dirRef.Release()

	lnkA := newD20Link("A", 1001, tb.PeerID, remote)
	lnkB := newD20Link("B", 1002, tb.PeerID, remote)
	handler.HandleLinkEstablished(lnkA)
	handler.HandleLinkEstablished(lnkB)
	if !d20Eventually(5*time.Second, func() bool { return d20BackedBy(ctx, vals.snapshot(), lnkA, lnkB) }) {
		t.Fatalf("EstablishLinkWithPeer does not report exactly {A, B}: %d values", len(vals.snapshot()))
	}

	// lose B; nothing else happens afterwards
	handler.HandleLinkLost(lnkB)
	if !d20Eventually(5*time.Second, func() bool { return d20PeerLinksAre(ctrl, remote, lnkA) }) {
		t.Fatalf("GetPeerLinks does not report {A} after B was lost: %v", ctrl.GetPeerLinks(remote))
	}
	if !d20Eventually(3*time.Second, func() bool { return d20BackedBy(ctx, vals.snapshot(), lnkA) }) {
		t.Fatalf("3s after B was lost (and closed: %v) EstablishLinkWithPeer still reports %d values, want exactly {A}", lnkB.closeCount.Load() != 0, len(vals.snapshot()))
	}
}
