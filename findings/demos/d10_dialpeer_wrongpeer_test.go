// place at: transport/udp/dialpeer_wrongpeer_test.go
package udp

import (
	"context"
	"crypto/rand"
	"sync"
	"testing"
	"time"

	"github.com/aperturerobotics/bifrost/crypto"
	"github.com/aperturerobotics/bifrost/link"
	"github.com/aperturerobotics/bifrost/peer"
	"github.com/sirupsen/logrus"
)

// recHandler is a recording transport.TransportHandler.
type recHandler struct {
	mtx         sync.Mutex
	established []link.Link
	lost        []link.Link
}

func (h *recHandler) HandleLinkEstablished(lnk link.Link) {
	h.mtx.Lock()
	h.established = append(h.established, lnk)
	h.mtx.Unlock()
}

func (h *recHandler) HandleLinkLost(lnk link.Link) {
	h.mtx.Lock()
	h.lost = append(h.lost, lnk)
	h.mtx.Unlock()
}

// testNode is a running udp transport on 127.0.0.1.
type testNode struct {
	tpt    *UDP
	id     peer.ID
	addr   string
	cancel context.CancelFunc
	done   chan struct{}
}

// stop cancels the transport and waits for Execute to return (socket closed).
func (n *testNode) stop() {
	n.cancel()
	<-n.done
}

func genKey(t *testing.T) (crypto.PrivKey, peer.ID) {
	t.Helper()
	priv, _, err := crypto.GenerateEd25519Key(rand.Reader)
	if err != nil {
		t.Fatal(err.Error())
	}
	id, err := peer.IDFromPrivateKey(priv)
	if err != nil {
		t.Fatal(err.Error())
	}
	return priv, id
}

func startNode(t *testing.T, ctx context.Context, le *logrus.Entry, name string, priv crypto.PrivKey, listen string) *testNode {
	t.Helper()
	id, err := peer.IDFromPrivateKey(priv)
	if err != nil {
		t.Fatal(err.Error())
	}
	nctx, ncancel := context.WithCancel(ctx)
	tpt, err := NewUDP(nctx, le.WithField("node", name), priv, &recHandler{}, nil, 0, listen, nil)
	if err != nil {
		ncancel()
		t.Fatal(err.Error())
	}
	n := &testNode{tpt: tpt, id: id, addr: tpt.LocalAddr().String(), cancel: ncancel, done: make(chan struct{})}
	go func() {
		defer close(n.done)
		_ = tpt.Execute(nctx)
	}()
	t.Cleanup(n.stop)
	return n
}

// TestDialPeerWrongRemotePeer checks the property:
//
// When asked to dial peer X at an address, the transport reports success only
// with a link whose authenticated remote peer is X. If a different peer (Y)
// answers at that address, the dial is not counted as a link to X, and a later
// request for a link to X can still be satisfied once X is reachable there.
func TestDialPeerWrongRemotePeer(t *testing.T) {
	ctx, cancel := context.WithTimeout(context.Background(), 60*time.Second)
	defer cancel()

	log := logrus.New()
	log.SetLevel(logrus.DebugLevel)
	le := logrus.NewEntry(log)

	privA, _ := genKey(t)
	privB, _ := genKey(t)
	privY, idY := genKey(t)
	privX, idX := genKey(t) // X: a third identity, initially not listening anywhere
	if idX == idY {
		t.Fatal("expected distinct peer ids")
	}

	a := startNode(t, ctx, le, "A", privA, "127.0.0.1:0")
	b := startNode(t, ctx, le, "B", privB, "127.0.0.1:0")
	y := startNode(t, ctx, le, "Y", privY, "127.0.0.1:0")
	addr := y.addr
	t.Logf("A=%s B=%s Y=%s@%s X=%s", a.id.String(), b.id.String(), idY.String(), addr, idX.String())

	// Honest case: B dials Y at Y's address: must succeed with remote == Y.
	dctx, dcancel := context.WithTimeout(ctx, 10*time.Second)
	lnk, fatal, err := b.tpt.DialPeer(dctx, idY, addr)
	dcancel()
	if err != nil {
		t.Fatalf("honest dial: DialPeer(Y, addrOfY) failed (fatal=%v): %v", fatal, err)
	}
	if lnk == nil {
		t.Fatal("honest dial: DialPeer(Y, addrOfY) returned nil link and nil error")
	}
	if rp := lnk.GetRemotePeer(); rp != idY {
		t.Fatalf("honest dial: remote peer %s != expected %s", rp.String(), idY.String())
	}

	// Wrong-peer case: A is asked for peer X at the address where Y answers.
	dctx, dcancel = context.WithTimeout(ctx, 10*time.Second)
	lnk, fatal, err = a.tpt.DialPeer(dctx, idX, addr)
	dcancel()
	if err == nil {
		got := "<nil link>"
		if lnk != nil {
			got = lnk.GetRemotePeer().String()
		}
		t.Fatalf(
			"DEFECT: DialPeer(X=%s, addrOfY=%s) reported success (fatal=%v) with a link whose remote peer is %s (Y=%s)",
			idX.String(), addr, fatal, got, idY.String(),
		)
	}
	if fatal {
		t.Fatalf("wrong-peer dial: expected a non-fatal (retryable) error, got fatal: %v", err)
	}
	if lnk != nil {
		t.Fatalf("wrong-peer dial: expected nil link with error, got link to %s", lnk.GetRemotePeer().String())
	}
	t.Logf("wrong-peer dial correctly rejected: %v", err)
	if _, ok := a.tpt.LookupLinkWithPeer(idX); ok {
		t.Fatal("wrong-peer dial: transport claims to have a link with X")
	}

	// Later: Y goes away, the stray A->Y link is lost, and X becomes reachable
	// at the very same address. A request for X must now be satisfied.
	if stray, ok := a.tpt.LookupLinkWithAddr(addr); ok {
		_ = stray.Close()
	}
	deadline := time.Now().Add(5 * time.Second)
	for {
		if _, ok := a.tpt.LookupLinkWithAddr(addr); !ok {
			break
		}
		if time.Now().After(deadline) {
			t.Fatal("stray link to Y was not released")
		}
		time.Sleep(10 * time.Millisecond)
	}
	y.stop()
	x := startNode(t, ctx, le, "X", privX, addr)
	if x.addr != addr {
		t.Fatalf("X listening on %s, expected %s", x.addr, addr)
	}

	dctx, dcancel = context.WithTimeout(ctx, 10*time.Second)
	lnk, fatal, err = a.tpt.DialPeer(dctx, idX, addr)
	dcancel()
	if err != nil {
		t.Fatalf("later dial: DialPeer(X, addr) failed once X is reachable (fatal=%v): %v", fatal, err)
	}
	if lnk == nil {
		t.Fatal("later dial: nil link and nil error")
	}
	if rp := lnk.GetRemotePeer(); rp != idX {
		t.Fatalf("later dial: remote peer %s != expected X %s", rp.String(), idX.String())
	}
}
