// place at: cli/util/d18_cli_util_nonkey_file_test.go
//
// D18 (C39): `bifrost util derive-pub / peer-id -f <file>` on an empty or non-key file. keypem.ParsePrivKeyPem returns
// (nil, nil) when the input holds no PEM block; readInputFilePrivKey handed that nil key to peer.NewPeer, which
// *generates a fresh random key* for a nil argument — so the command printed the identity of a key that is in no file
// and reported no error. Fails before "fix: cli util rejects key files without a private key", passes after.
package cliutil

import (
	"os"
	"path/filepath"
	"testing"
)

func TestD18NonKeyFileIsAnError(t *testing.T) {
	dir := t.TempDir()
	for name, content := range map[string]string{"empty.pem": "", "garbage.pem": "this is not a key\n"} {
		p := filepath.Join(dir, name)
		if err := os.WriteFile(p, []byte(content), 0o600); err != nil {
			t.Fatal(err)
		}
		a := &UtilArgs{FilePath: p}
		npeer, err := a.readInputFilePrivKey()
		if err == nil {
			id := "<nil>"
			if npeer != nil {
				id = npeer.GetPeerID().String()
			}
			t.Errorf("%s: no error; reported identity %s (a freshly generated key, not one in the file)", name, id)
		}
	}
}
