// place at: peer/d21_small_order_sender_key_test.go
//
// D21 (C01, C02): a sender id that embeds an Ed25519 public key of small order (e.g. the identity point 01 00…00) makes
// the fixed "signature" (R = identity, S = 0) verify for EVERY body, context and hash type: crypto/ed25519.Verify does
// not reject small-order keys. No private key produced such a signature, so "verification succeeds only if the
// signature was produced by the private key embedded in the claimed sender id" does not hold for these ids; anyone can
// publish messages "from" them. Reported by a seed agent on the unmodified tree; confirmed here.
package peer

import (
	"testing"

	"github.com/aperturerobotics/bifrost/crypto"
	"github.com/aperturerobotics/bifrost/hash"
)

func TestD21SmallOrderSenderKey(t *testing.T) {
	keyBytes := make([]byte, 32)
	keyBytes[0] = 1 // the identity point (y = 1)
	pub, err := crypto.UnmarshalEd25519PublicKey(keyBytes)
	if err != nil {
		t.Skipf("small-order key rejected at parse time: %v", err)
	}
	id, err := IDFromPublicKey(pub)
	if err != nil {
		t.Fatal(err)
	}
	sig := make([]byte, 64)
	sig[0] = 1 // R = identity, S = 0
	for _, body := range []string{"pay mallory", "anything else"} {
		for _, ctx := range []string{"ctx-a", "ctx-b"} {
			msg := &SignedMsg{
				FromPeerId: id.String(),
				Signature:  &Signature{HashType: hash.HashType_HashType_BLAKE3, SigData: sig},
				Data:       []byte(body),
			}
			if _, _, err := msg.ExtractAndVerify(ctx); err == nil {
				t.Errorf("forged message (body %q, context %q) from %s verified although no private key signed it", body, ctx, id.String())
			}
		}
	}
}
