package peer_test

import (
	"bytes"
	"crypto/rand"
	"testing"

	"github.com/aperturerobotics/bifrost/crypto"
	"github.com/aperturerobotics/bifrost/hash"
	"github.com/aperturerobotics/bifrost/peer"
)

// A signed message whose claimed sender id is re-encoded (same key, different id bytes) must not verify:
// "any change to the claimed sender makes verification report an error".
func TestD22NonCanonicalSenderID(t *testing.T) {
	priv, pub, err := crypto.GenerateEd25519Key(rand.Reader)
	if err != nil {
		t.Fatal(err)
	}
	id, err := peer.IDFromPublicKey(pub)
	if err != nil {
		t.Fatal(err)
	}
	raw := []byte(id) // 00 <len> <protobuf key>
	if raw[0] != 0 || int(raw[1]) != len(raw)-2 {
		t.Fatalf("unexpected id layout % x", raw)
	}
	digest := raw[2:]
	alts := map[string][]byte{
		// multihash code 0 written as the two-byte varint 80 00
		"non-minimal code varint": append([]byte{0x80, 0x00, raw[1]}, digest...),
		// digest length written with a redundant continuation byte
		"non-minimal length varint": append([]byte{0x00, raw[1] | 0x80, 0x00}, digest...),
		// protobuf key followed by an unknown varint field (#15 = 0)
		"unknown protobuf field": append(append([]byte{0x00, raw[1] + 2}, digest...), 0x78, 0x00),
	}
	const ctx = "d22 context"
	msg, err := peer.NewSignedMsg(ctx, priv, hash.HashType_HashType_BLAKE3, []byte("hello"))
	if err != nil {
		t.Fatal(err)
	}
	if _, _, err := msg.ExtractAndVerify(ctx); err != nil {
		t.Fatalf("honest message rejected: %v", err)
	}
	for name, alt := range alts {
		if bytes.Equal(alt, raw) {
			t.Fatalf("%s: not a different id", name)
		}
		m2 := msg.CloneVT()
		m2.FromPeerId = peer.ID(alt).String()
		_, gotID, err := m2.ExtractAndVerify(ctx)
		if err == nil {
			t.Errorf("%s: message with re-encoded sender id %x verified (returned id equal to honest id: %v)", name, alt, gotID == id)
		}
		if pk, err := peer.ID(alt).ExtractPublicKey(); err == nil && !peer.ID(alt).MatchesPublicKey(pk) {
			t.Errorf("%s: ExtractPublicKey yields a key that the id does not match", name)
		}
	}
}
