// place at: signaling/rpc/server/session_epoch_demo_test.go
package signaling_rpc_server

// Demonstrates that (*Server).Session does not announce a change of the session
// epoch (sessionTracker.seqno) to a peer that stays attached while its partner
// is replaced, because the write/monitor loop compares `prevSentOpenToLocal`
// and `currOpen` as POINTERS, and both are `&sess.seqno` whenever a partner is
// attached.
//
// The tests drive Server.Session directly with in-memory streams. All ordering
// is enforced with channel hand-offs:
//   - fakeStream.Send hands the message to the test over an unbuffered channel
//     (so "the test read message M from X" implies "X's server loop is inside
//     Send(M)"), and, for a stream created with hold=true, then parks until the
//     test calls resume(). That is how "A's loop is blocked inside strm.Send" is
//     produced deterministically.
//   - fakeStream.Recv takes requests from an unbuffered channel; the server's
//     read goroutine is sequential, so once a second request ("fence") has been
//     accepted, the first one has been handled completely.
//   - "B detached" is observed as the return of B's Session call (its deferred
//     cleanup has run by then).
//
// There are no sleeps and no timing assumptions. hangGuard only bounds channel
// operations so that a broken tree fails instead of hanging; no verdict depends
// on it elapsing. (The buggy tree is detected positively: A's next message after
// the partner was replaced is a RecvMsg from the new-epoch partner instead of
// Opened(newEpoch)/Closed.)

import (
	"context"
	"errors"
	"testing"
	"time"

	"github.com/aperturerobotics/bifrost/crypto"
	"github.com/aperturerobotics/bifrost/hash"
	"github.com/aperturerobotics/bifrost/peer"
	signaling "github.com/aperturerobotics/bifrost/signaling/rpc"
	"github.com/aperturerobotics/starpc/srpc"
	"github.com/sirupsen/logrus"
)

const hangGuard = 30 * time.Second

type demoIdentKey struct{}

// fakeStream is an in-memory SRPCSignaling_SessionStream.
type fakeStream struct {
	ctx context.Context
	// in carries requests from the test to the server (unbuffered).
	in chan *signaling.SessionRequest
	// out carries responses from the server to the test (unbuffered).
	out chan *signaling.SessionResponse
	// resume, if non-nil, parks Send after the hand-off until the test resumes it.
	resume chan struct{}
}

func (f *fakeStream) Context() context.Context { return f.ctx }

func (f *fakeStream) Send(m *signaling.SessionResponse) error {
	select {
	case f.out <- m:
	case <-f.ctx.Done():
		return context.Canceled
	}
	if f.resume != nil {
		select {
		case <-f.resume:
		case <-f.ctx.Done():
			return context.Canceled
		}
	}
	return nil
}

func (f *fakeStream) SendAndClose(m *signaling.SessionResponse) error { return f.Send(m) }

func (f *fakeStream) Recv() (*signaling.SessionRequest, error) {
	select {
	case m := <-f.in:
		return m, nil
	case <-f.ctx.Done():
		return nil, context.Canceled
	}
}

func (f *fakeStream) RecvTo(*signaling.SessionRequest) error { return errors.New("unused") }
func (f *fakeStream) MsgSend(srpc.Message) error              { return errors.New("unused") }
func (f *fakeStream) MsgRecv(srpc.Message) error              { return errors.New("unused") }
func (f *fakeStream) CloseSend() error                        { return nil }
func (f *fakeStream) Close() error                            { return nil }

var _ signaling.SRPCSignaling_SessionStream = (*fakeStream)(nil)

type demoPeer struct {
	id   peer.ID
	priv crypto.PrivKey
}

// demoCall is one running Server.Session call.
type demoCall struct {
	t *testing.T
	*fakeStream
	name   string
	self   demoPeer
	cancel context.CancelFunc
	done   chan error
}

type demoHarness struct {
	t    *testing.T
	srv  *Server
	a, b demoPeer
}

func newDemoHarness(t *testing.T) *demoHarness {
	log := logrus.New()
	log.SetLevel(logrus.ErrorLevel)
	mk := func() demoPeer {
		p, priv, _, err := peer.NewPeerWithGenerateED25519()
		if err != nil {
			t.Fatal(err.Error())
		}
		return demoPeer{id: p.GetPeerID(), priv: priv}
	}
	srv := NewServerWithIdentify(logrus.NewEntry(log), func(ctx context.Context) (peer.ID, error) {
		id, ok := ctx.Value(demoIdentKey{}).(peer.ID)
		if !ok {
			return "", errors.New("no identity")
		}
		return id, nil
	})
	return &demoHarness{t: t, srv: srv, a: mk(), b: mk()}
}

// attach starts a Session call as self toward remote and sends the init packet.
func (h *demoHarness) attach(name string, self, remote demoPeer, hold bool) *demoCall {
	ctx, cancel := context.WithCancel(context.WithValue(context.Background(), demoIdentKey{}, self.id))
	strm := &fakeStream{
		ctx: ctx,
		in:  make(chan *signaling.SessionRequest),
		out: make(chan *signaling.SessionResponse),
	}
	if hold {
		strm.resume = make(chan struct{})
	}
	c := &demoCall{t: h.t, fakeStream: strm, name: name, self: self, cancel: cancel, done: make(chan error, 1)}
	go func() { c.done <- h.srv.Session(strm) }()
	h.t.Cleanup(func() {
		cancel()
		select {
		case <-c.done:
		case <-time.After(hangGuard):
			h.t.Errorf("%s: hang guard: Session did not return on cleanup", name)
		}
	})
	c.send(&signaling.SessionRequest{Body: &signaling.SessionRequest_Init{
		Init: &signaling.SessionInit{PeerId: remote.id.String()},
	}})
	return c
}

// send delivers a request to the server's read goroutine.
func (c *demoCall) send(req *signaling.SessionRequest) {
	c.t.Helper()
	select {
	case c.in <- req:
	case err := <-c.done:
		c.t.Fatalf("%s: Session returned while sending a request: %v", c.name, err)
	case <-time.After(hangGuard):
		c.t.Fatalf("%s: hang guard: server did not Recv", c.name)
	}
}

// sendMsg sends a signed payload tagged with the given session epoch.
func (c *demoCall) sendMsg(epoch, msgSeqno uint64) {
	c.t.Helper()
	msg, err := signaling.NewSessionMsg(c.self.priv, hash.HashType_HashType_BLAKE3, []byte("payload"), msgSeqno)
	if err != nil {
		c.t.Fatal(err.Error())
	}
	c.send(&signaling.SessionRequest{SessionSeqno: epoch, Body: &signaling.SessionRequest_SendMsg{SendMsg: msg}})
}

// fence returns once every request sent before it has been handled completely.
// It is an ack for message seqno 0, which never matches anything.
func (c *demoCall) fence(epoch uint64) {
	c.t.Helper()
	c.send(&signaling.SessionRequest{SessionSeqno: epoch, Body: &signaling.SessionRequest_AckMsg{AckMsg: 0}})
}

// next takes the next response the server sends on this stream.
// If the stream was created with hold=true the server loop stays parked inside
// Send until resume is called.
func (c *demoCall) next() *signaling.SessionResponse {
	c.t.Helper()
	select {
	case m := <-c.out:
		return m
	case err := <-c.done:
		c.t.Fatalf("%s: Session returned while waiting for a response: %v", c.name, err)
	case <-time.After(hangGuard):
		c.t.Fatalf("%s: hang guard: server sent nothing", c.name)
	}
	return nil
}

// nextOpened expects the next response to be Opened and returns the epoch.
func (c *demoCall) nextOpened() uint64 {
	c.t.Helper()
	m := c.next()
	b, ok := m.GetBody().(*signaling.SessionResponse_Opened)
	if !ok {
		c.t.Fatalf("%s: expected Opened, got %v", c.name, m.String())
	}
	return b.Opened
}

// resume lets a held Send return.
func (c *demoCall) resumeSend() {
	c.t.Helper()
	select {
	case c.resume <- struct{}{}:
	case <-time.After(hangGuard):
		c.t.Fatalf("%s: hang guard: no Send to resume", c.name)
	}
}

// wait waits for the Session call to return.
func (c *demoCall) wait() error {
	c.t.Helper()
	select {
	case err := <-c.done:
		c.done <- err
		return err
	case <-time.After(hangGuard):
		c.t.Fatalf("%s: hang guard: Session did not return", c.name)
	}
	return nil
}

// state returns the relay's epoch and what it holds pending for peer b (from a).
func (h *demoHarness) state() (epoch uint64, bAttached bool, pendingForB *signaling.SessionMsg) {
	key, aIsPeerA := newSessionKey(h.a.id.String(), h.b.id.String())
	h.srv.mtx.Lock()
	defer h.srv.mtx.Unlock()
	sess := h.srv.sessions[key]
	if sess == nil {
		return 0, false, nil
	}
	_, bTkr := sess.getCurrPeers(aIsPeerA)
	if bTkr != nil {
		pendingForB = bTkr.recv
	}
	return sess.seqno, bTkr != nil, pendingForB
}

// checkAToldNewEpoch is the shared verdict: B (epoch newEpoch) has already queued
// a message for A; the next thing A sees must be Opened(newEpoch) or Closed.
func (h *demoHarness) checkAToldNewEpoch(a, b2 *demoCall, oldEpoch, newEpoch uint64, aHeld bool) {
	t := h.t
	t.Helper()
	m := a.next()
	switch b := m.GetBody().(type) {
	case *signaling.SessionResponse_Closed:
		return // A was told the old epoch ended: acceptable.
	case *signaling.SessionResponse_Opened:
		if b.Opened != newEpoch {
			t.Fatalf("A was told epoch %d, relay epoch is %d", b.Opened, newEpoch)
		}
	default:
		// A got traffic of the new epoch without ever being told about it.
		// Show the consequence: A only knows oldEpoch, so that is what it tags
		// its messages with, and the relay discards them without a word.
		a.sendMsg(oldEpoch, 7)
		a.fence(oldEpoch)
		relayEpoch, bAttached, pending := h.state()
		t.Fatalf("DEFECT: after its partner was replaced (epoch %d -> %d) A was never sent Opened(%d) nor Closed; "+
			"the next response on A's stream is a %T. A's last announced epoch is %d, relay epoch is %d, partner attached=%v; "+
			"A's SendMsg tagged %d was accepted without error and silently dropped (pending for partner: %v)",
			oldEpoch, newEpoch, newEpoch, m.GetBody(), oldEpoch, relayEpoch, bAttached, oldEpoch, pending != nil)
	}

	// With the announcement made, traffic flows in both directions in the new epoch.
	if aHeld {
		a.resumeSend()
	}
	m = a.next()
	if rm := m.GetRecvMsg(); rm == nil || rm.GetSeqno() != 1 {
		t.Fatalf("A: expected RecvMsg(1) after Opened(%d), got %v", newEpoch, m.String())
	}
	if aHeld {
		a.resumeSend()
	}
	a.sendMsg(newEpoch, 7)
	m = b2.next()
	if rm := m.GetRecvMsg(); rm == nil || rm.GetSeqno() != 7 {
		t.Fatalf("B2: expected RecvMsg(7), got %v", m.String())
	}
}

// TestSessionEpochAnnounce_DetachReattachWhileSendBlocked is the history from the report:
// A and B attached (epoch e); while A's loop is blocked inside strm.Send, B detaches
// and a new B call attaches (epoch e+2). A must be told.
func TestSessionEpochAnnounce_DetachReattachWhileSendBlocked(t *testing.T) {
	h := newDemoHarness(t)

	a := h.attach("A", h.a, h.b, true)
	b1 := h.attach("B1", h.b, h.a, false)

	oldEpoch := b1.nextOpened()
	// A's loop is now parked inside Send(Opened(oldEpoch)) until resumeSend.
	if e := a.nextOpened(); e != oldEpoch {
		t.Fatalf("A opened with %d, B1 with %d", e, oldEpoch)
	}

	// B detaches: wait for its Session call (incl. deferred cleanup) to return.
	b1.cancel()
	if err := b1.wait(); err != context.Canceled {
		t.Fatalf("B1: unexpected return %v", err)
	}
	if e, attached, _ := h.state(); e != oldEpoch+1 || attached {
		t.Fatalf("after B1 detach: epoch=%d attached=%v", e, attached)
	}

	// A new B call attaches.
	b2 := h.attach("B2", h.b, h.a, false)
	newEpoch := b2.nextOpened()
	if newEpoch != oldEpoch+2 {
		t.Fatalf("B2 opened with %d, expected %d", newEpoch, oldEpoch+2)
	}

	// B2 queues a message for A in the new epoch (fence: it is stored in the relay).
	b2.sendMsg(newEpoch, 1)
	b2.fence(newEpoch)

	// Only now does A's Send return and A's loop run again.
	a.resumeSend()
	h.checkAToldNewEpoch(a, b2, oldEpoch, newEpoch, true)
}

// TestSessionEpochAnnounce_PartnerUsurped shows the same blind spot needs no blocked
// Send at all: if a second B call attaches while the first is still attached
// (the first gets ErrUserpedSession) the partner pointer goes non-nil -> non-nil,
// the epoch goes e -> e+1, and A is not told.
func TestSessionEpochAnnounce_PartnerUsurped(t *testing.T) {
	h := newDemoHarness(t)

	a := h.attach("A", h.a, h.b, false)
	b1 := h.attach("B1", h.b, h.a, false)
	oldEpoch := b1.nextOpened()
	if e := a.nextOpened(); e != oldEpoch {
		t.Fatalf("A opened with %d, B1 with %d", e, oldEpoch)
	}

	b2 := h.attach("B2", h.b, h.a, false)
	if err := b1.wait(); err != signaling.ErrUserpedSession {
		t.Fatalf("B1: unexpected return %v", err)
	}
	newEpoch := b2.nextOpened()
	if newEpoch != oldEpoch+1 {
		t.Fatalf("B2 opened with %d, expected %d", newEpoch, oldEpoch+1)
	}

	b2.sendMsg(newEpoch, 1)
	b2.fence(newEpoch)

	h.checkAToldNewEpoch(a, b2, oldEpoch, newEpoch, false)
}
