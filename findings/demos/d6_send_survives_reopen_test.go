// place at: signaling/rpc/reopen_test.go
package signaling_rpc_test

import (
	"bytes"
	"context"
	"fmt"
	"sync"
	"testing"
	"time"

	"github.com/aperturerobotics/bifrost/crypto"
	"github.com/aperturerobotics/bifrost/peer"
	signaling_rpc "github.com/aperturerobotics/bifrost/signaling/rpc"
	signaling_client "github.com/aperturerobotics/bifrost/signaling/rpc/client"
	signaling_server "github.com/aperturerobotics/bifrost/signaling/rpc/server"
	"github.com/aperturerobotics/starpc/srpc"
	"github.com/sirupsen/logrus"
)

// reopenIdentKey is the context key carrying the peer id of the caller of the
// in-memory signaling server.
type reopenIdentKey struct{}

// reopenEvent is a message observed by the relay between a Client and the Server.
type reopenEvent struct {
	// who is "A", "B#1", "B#2", ... (name of the client + ordinal of its Session call)
	who string
	// tx is true for client -> server, false for server -> client
	tx bool
	// req is set if tx
	req *signaling_rpc.SessionRequest
	// resp is set if !tx
	resp *signaling_rpc.SessionResponse
}

func (e *reopenEvent) String() string {
	if e.tx {
		return fmt.Sprintf("%s -> srv: %s", e.who, e.req.String())
	}
	return fmt.Sprintf("srv -> %s: %s", e.who, e.resp.String())
}

// reopenLog is an append-only log of relay events that can be waited on.
// Waiting scans the full history so no event can be missed: the waits are
// ordering barriers, not sleeps.
type reopenLog struct {
	mtx    sync.Mutex
	events []*reopenEvent
	wake   chan struct{}
}

func (l *reopenLog) add(ev *reopenEvent) {
	l.mtx.Lock()
	l.events = append(l.events, ev)
	if l.wake != nil {
		close(l.wake)
		l.wake = nil
	}
	l.mtx.Unlock()
}

// find returns the first event matching pred, if any.
func (l *reopenLog) find(pred func(ev *reopenEvent) bool) *reopenEvent {
	l.mtx.Lock()
	defer l.mtx.Unlock()
	for _, ev := range l.events {
		if pred(ev) {
			return ev
		}
	}
	return nil
}

// wait waits for an event matching pred to be in the log.
func (l *reopenLog) wait(t *testing.T, desc string, pred func(ev *reopenEvent) bool) *reopenEvent {
	t.Helper()
	deadline := time.NewTimer(20 * time.Second)
	defer deadline.Stop()
	for {
		l.mtx.Lock()
		for _, ev := range l.events {
			if pred(ev) {
				l.mtx.Unlock()
				return ev
			}
		}
		if l.wake == nil {
			l.wake = make(chan struct{})
		}
		wake := l.wake
		l.mtx.Unlock()

		select {
		case <-wake:
		case <-deadline.C:
			t.Fatalf("test setup: timed out waiting for barrier: %s", desc)
		}
	}
}

// reopenRelay wraps the SRPCSignalingClient used by a real signaling Client.
//
// It forwards everything unmodified to the real Server and records every
// message in the log. The streams live on the relay context instead of the
// context of the caller, and if holdClose is set the Close of a Session stream
// is held back until the test is over: this models a Session RPC of which the
// teardown reaches the signaling server later than the Session RPC that
// replaces it.
type reopenRelay struct {
	signaling_rpc.SRPCSignalingClient
	ctx       context.Context
	name      string
	log       *reopenLog
	holdClose bool

	mtx   sync.Mutex
	nsess int
}

func (r *reopenRelay) Session(ctx context.Context) (signaling_rpc.SRPCSignaling_SessionClient, error) {
	strm, err := r.SRPCSignalingClient.Session(r.ctx)
	if err != nil {
		return nil, err
	}
	r.mtx.Lock()
	r.nsess++
	who := r.name
	if r.holdClose {
		who = fmt.Sprintf("%s#%d", r.name, r.nsess)
	}
	r.mtx.Unlock()
	return &reopenStream{SRPCSignaling_SessionClient: strm, r: r, who: who}, nil
}

type reopenStream struct {
	signaling_rpc.SRPCSignaling_SessionClient
	r   *reopenRelay
	who string
}

func (s *reopenStream) Send(m *signaling_rpc.SessionRequest) error {
	if err := s.SRPCSignaling_SessionClient.Send(m); err != nil {
		return err
	}
	s.r.log.add(&reopenEvent{who: s.who, tx: true, req: m.CloneVT()})
	return nil
}

func (s *reopenStream) Recv() (*signaling_rpc.SessionResponse, error) {
	m, err := s.SRPCSignaling_SessionClient.Recv()
	if err != nil {
		return nil, err
	}
	s.r.log.add(&reopenEvent{who: s.who, resp: m.CloneVT()})
	return m, nil
}

func (s *reopenStream) Close() error {
	if s.r.holdClose {
		// held until the relay context is canceled at the end of the test.
		return nil
	}
	return s.SRPCSignaling_SessionClient.Close()
}

// TestSendSurvivesSessionReopen checks that a Send which is in flight while the
// signaling session is re-opened (new session epoch announced with a second
// "opened" message and no "closed" in between) still returns once the partner
// received & acked the message, and does not wedge later Sends.
//
// History:
//  1. A and B attach via a real Server; both see opened(e1).
//  2. A calls Send(m): m is placed in tkr.out and transmitted in epoch e1.
//     B's application does not call Recv yet, so m is not acked in e1.
//  3. B re-attaches: the new Session RPC reaches the server before the teardown
//     of the old one, so the server replaces ("userps") the old one and
//     announces opened(e2) to A without a closed in between. A's main loop
//     re-transmits m in epoch e2.
//  4. B's application calls Recv, gets m, and the ack is delivered to A.
//  5. A's Send must return nil, and a second Send must complete too.
func TestSendSurvivesSessionReopen(t *testing.T) {
	ctx, ctxCancel := context.WithCancel(context.Background())
	defer ctxCancel()

	log := logrus.New()
	log.SetLevel(logrus.DebugLevel)
	le := logrus.NewEntry(log)

	// Real signaling server on an in-memory srpc pipe.
	srv := signaling_server.NewServerWithIdentify(le.WithField("side", "server"), func(ctx context.Context) (peer.ID, error) {
		id, _ := ctx.Value(reopenIdentKey{}).(peer.ID)
		if id == "" {
			return "", context.Canceled
		}
		return id, nil
	})
	mux := srpc.NewMux()
	if err := signaling_rpc.SRPCRegisterSignaling(mux, srv); err != nil {
		t.Fatal(err.Error())
	}
	serverPipe := srpc.NewServerPipe(srpc.NewServer(mux))

	evLog := &reopenLog{}
	mkClient := func(name string, holdClose bool) (*signaling_client.Client, peer.ID) {
		_, privKey, _, err := peer.NewPeerWithGenerateED25519()
		if err != nil {
			t.Fatal(err.Error())
		}
		return mkReopenClient(t, ctx, le, serverPipe, evLog, name, holdClose, privKey)
	}

	clientA, peerA := mkClient("A", false)
	clientB, peerB := mkClient("B", true)
	clientA.SetContext(ctx)
	clientB.SetContext(ctx)
	defer clientA.ClearContext()
	defer clientB.ClearContext()

	isOpened := func(who string, notSeqno uint64) func(ev *reopenEvent) bool {
		return func(ev *reopenEvent) bool {
			if ev.tx || ev.who != who {
				return false
			}
			b, ok := ev.resp.GetBody().(*signaling_rpc.SessionResponse_Opened)
			return ok && b.Opened != notSeqno
		}
	}
	isSendMsg := func(who string, sessSeqno uint64) func(ev *reopenEvent) bool {
		return func(ev *reopenEvent) bool {
			return ev.tx && ev.who == who && ev.req.GetSendMsg() != nil && ev.req.GetSessionSeqno() == sessSeqno
		}
	}
	isRecvMsg := func(who string) func(ev *reopenEvent) bool {
		return func(ev *reopenEvent) bool {
			return !ev.tx && ev.who == who && ev.resp.GetRecvMsg() != nil
		}
	}
	isAck := func(who string, msgSeqno uint64) func(ev *reopenEvent) bool {
		return func(ev *reopenEvent) bool {
			if ev.tx || ev.who != who {
				return false
			}
			b, ok := ev.resp.GetBody().(*signaling_rpc.SessionResponse_AckMsg)
			return ok && b.AckMsg == msgSeqno
		}
	}

	// 1. attach both peers.
	refA := clientA.AddPeerRef(peerB.String())
	defer refA.Release()
	refB1 := clientB.AddPeerRef(peerA.String())
	e1 := evLog.wait(t, "A sees opened(e1)", isOpened("A", 0)).resp.GetOpened()
	evLog.wait(t, "B#1 sees opened(e1)", isOpened("B#1", 0))

	// 2. A sends m; wait until it is transmitted in e1 and delivered to B's client.
	type sendResult struct {
		msg *signaling_rpc.SessionMsg
		err error
	}
	msg1 := []byte("hello from A (sent before the re-open)")
	send1Ctx, send1Cancel := context.WithCancel(ctx)
	defer send1Cancel()
	send1Done := make(chan sendResult, 1)
	go func() {
		m, err := refA.Send(send1Ctx, msg1)
		send1Done <- sendResult{m, err}
	}()
	m1Seqno := evLog.wait(t, "A transmits m in e1", isSendMsg("A", e1)).req.GetSendMsg().GetSeqno()
	evLog.wait(t, "m delivered to B#1 in e1", isRecvMsg("B#1"))
	select {
	case res := <-send1Done:
		t.Fatalf("test setup: Send returned before the message was acked: %v", res.err)
	default:
	}

	// 3. B re-attaches; the teardown of the old Session RPC is held by the relay.
	refB1.Release()
	refB2 := clientB.AddPeerRef(peerA.String())
	defer refB2.Release()
	e2 := evLog.wait(t, "A sees opened(e2)", isOpened("A", e1)).resp.GetOpened()
	evLog.wait(t, "B#2 sees opened(e2)", isOpened("B#2", 0))
	if ev := evLog.find(func(ev *reopenEvent) bool {
		return !ev.tx && ev.who == "A" && ev.resp.GetClosed()
	}); ev != nil {
		t.Fatalf("test setup: A unexpectedly saw closed: %s", ev.String())
	}
	t.Logf("session epoch changed %d -> %d with both peers attached", e1, e2)
	evLog.wait(t, "A re-transmits m in e2", isSendMsg("A", e2))

	// 4. B's application receives m (this acks it); the ack is delivered to A's client.
	recvCtx, recvCancel := context.WithTimeout(ctx, 10*time.Second)
	rx1, err := refB2.Recv(recvCtx)
	recvCancel()
	if err != nil {
		t.Fatalf("B did not receive the message after the re-open: %v", err)
	}
	if rx1.GetSeqno() != m1Seqno || !bytes.Equal(rx1.GetSignedMsg().GetData(), msg1) {
		t.Fatalf("B received an unexpected message: %s", rx1.String())
	}
	evLog.wait(t, "ack for m delivered to A", isAck("A", m1Seqno))
	t.Log("B received m in the new epoch and the ack was delivered to A's client")

	// 5. A's Send must return nil now.
	bound := 5 * time.Second
	select {
	case res := <-send1Done:
		if res.err != nil {
			t.Errorf("first Send failed: %v", res.err)
		}
	case <-time.After(bound):
		t.Errorf("DEFECT: A's Send did not return within %v although B received and acked the message", bound)
		// give up on the first Send the way an application would: cancel it.
		send1Cancel()
		select {
		case <-send1Done:
		case <-time.After(bound):
			t.Errorf("first Send did not even return after its context was canceled")
		}
	}

	// ... and a second Send on the same peer must complete as well.
	msg2 := []byte("second message from A")
	send2Ctx, send2Cancel := context.WithTimeout(ctx, bound)
	defer send2Cancel()
	recv2Done := make(chan sendResult, 1)
	go func() {
		m, err := refB2.Recv(send2Ctx)
		recv2Done <- sendResult{m, err}
	}()
	if _, err := refA.Send(send2Ctx, msg2); err != nil {
		t.Errorf("DEFECT: second Send on the same peer did not complete within %v: %v", bound, err)
	}
	if res := <-recv2Done; res.err != nil {
		t.Errorf("B did not receive the second message: %v", res.err)
	} else if !bytes.Equal(res.msg.GetSignedMsg().GetData(), msg2) {
		t.Errorf("B received an unexpected second message: %s", res.msg.String())
	}
}

// mkReopenClient builds a real signaling Client talking to the server pipe via a reopenRelay.
func mkReopenClient(
	t *testing.T,
	ctx context.Context,
	le *logrus.Entry,
	serverPipe srpc.OpenStreamFunc,
	evLog *reopenLog,
	name string,
	holdClose bool,
	privKey crypto.PrivKey,
) (*signaling_client.Client, peer.ID) {
	peerID, err := peer.IDFromPrivateKey(privKey)
	if err != nil {
		t.Fatal(err.Error())
	}
	// tag every stream of this client with its peer id for the server ident func.
	openStream := func(sctx context.Context, msgHandler srpc.PacketDataHandler, closeHandler srpc.CloseHandler) (srpc.PacketWriter, error) {
		return serverPipe(context.WithValue(sctx, reopenIdentKey{}, peerID), msgHandler, closeHandler)
	}
	relay := &reopenRelay{
		SRPCSignalingClient: signaling_rpc.NewSRPCSignalingClient(srpc.NewClient(openStream)),
		ctx:                 ctx,
		name:                name,
		log:                 evLog,
		holdClose:           holdClose,
	}
	client, err := signaling_client.NewClient(le.WithField("side", name), relay, privKey, nil)
	if err != nil {
		t.Fatal(err.Error())
	}
	return client, peerID
}
