package floodsub

import (
	"context"
	"crypto/rand"
	"sync"
	"sync/atomic"
	"runtime"
	"testing"

	"github.com/aperturerobotics/bifrost/crypto"
	"github.com/aperturerobotics/bifrost/hash"
	"github.com/aperturerobotics/bifrost/peer"
	"github.com/aperturerobotics/bifrost/pubsub"
	"github.com/aperturerobotics/bifrost/pubsub/util/pubmessage"
	"github.com/sirupsen/logrus"
)

func TestProbeD13(t *testing.T) {
	ctx := context.Background()
	le := logrus.NewEntry(logrus.New())
	ps, _ := NewFloodSub(ctx, le, nil, &Config{})
	m := ps.(*FloodSub)
	priv, _, _ := crypto.GenerateEd25519Key(rand.Reader)
	sub, err := m.AddSubscription(ctx, priv, "ch")
	if err != nil { t.Fatal(err) }
	var got atomic.Int64
	sub.AddHandler(func(pubsub.Message) { got.Add(1) })
	go func() { for range m.publishCh {} }()
	dups := 0
	for iter := 0; iter < 300; iter++ {
		msg, inner, _ := pubmessage.NewPubMessage("ch", priv, hash.HashType_HashType_BLAKE3, []byte{byte(iter), byte(iter >> 8)})
		pid, _ := peer.IDFromPrivateKey(priv)
		before := got.Load()
		var wg sync.WaitGroup
		start := make(chan struct{})
		for g := 0; g < 8; g++ {
			wg.Add(1)
			go func() { defer wg.Done(); <-start; m.handleValidMessage(ctx, pid, msg, inner) }()
		}
		close(start)
		wg.Wait()
		// wait for async handler goroutines
		for i := 0; i < 1000 && got.Load() == before; i++ { runtime.Gosched() }
		for i := 0; i < 200; i++ { runtime.Gosched() }
		if d := got.Load() - before; d != 1 { dups++ }
	}
	if dups != 0 { t.Fatalf("%d of 300 messages delivered more than once (or not once)", dups) }
}
