// place at: crypto/tls/d19_resigned_certificate_test.go
//
// D19 (C03): a certificate that is NOT self-signed — its TBS bytes are signed by an unrelated key — but carries a
// correct key-binding extension was accepted by PubKeyFromCertChain. cert.Verify with the certificate itself as the
// only root takes crypto/x509's "is a root" shortcut and never checks the certificate's own signature. The handshake
// clause "refused when the chain is not a single self-signed certificate" did not hold for re-signed certificates.
// Fails before "fix: p2ptls verifies the certificate's self-signature", passes after.
package p2ptls

import (
	"crypto/ecdsa"
	"crypto/elliptic"
	"crypto/rand"
	"crypto/x509"
	"testing"

	"github.com/aperturerobotics/bifrost/crypto"
)

func TestD19ResignedCertificateRefused(t *testing.T) {
	sk, _, err := crypto.GenerateEd25519Key(rand.Reader)
	if err != nil {
		t.Fatal(err)
	}
	certKey, err := ecdsa.GenerateKey(elliptic.P256(), rand.Reader)
	if err != nil {
		t.Fatal(err)
	}
	otherKey, err := ecdsa.GenerateKey(elliptic.P256(), rand.Reader)
	if err != nil {
		t.Fatal(err)
	}
	mk := func(signer *ecdsa.PrivateKey) *x509.Certificate {
		tmpl, err := certTemplate()
		if err != nil {
			t.Fatal(err)
		}
		ext, err := GenerateSignedExtension(sk, certKey.Public())
		if err != nil {
			t.Fatal(err)
		}
		tmpl.ExtraExtensions = append(tmpl.ExtraExtensions, ext)
		// subject key = certKey (bound by the extension); the certificate's signature is made by `signer`
		der, err := x509.CreateCertificate(rand.Reader, tmpl, tmpl, certKey.Public(), signer)
		if err != nil {
			t.Fatal(err)
		}
		cert, err := x509.ParseCertificate(der)
		if err != nil {
			t.Fatal(err)
		}
		return cert
	}
	// control: genuinely self-signed
	if _, err := PubKeyFromCertChain([]*x509.Certificate{mk(certKey)}); err != nil {
		t.Fatalf("self-signed certificate refused: %v", err)
	}
	// re-signed by an unrelated key: not self-signed
	if pub, err := PubKeyFromCertChain([]*x509.Certificate{mk(otherKey)}); err == nil {
		t.Fatalf("certificate signed by an unrelated key was accepted (identity %v)", pub != nil)
	}
}
