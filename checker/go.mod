module bifrostverify

go 1.26.8

require golang.org/x/tools v0.50.0
