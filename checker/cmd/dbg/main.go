package main

import (
	"fmt"
	"os"

	"bifrostverify/an"

	"golang.org/x/tools/go/ssa"
)

func main() {
	p, err := an.Load("/repo", "./...")
	if err != nil {
		panic(err)
	}
	lk := p.Func(os.Args[1], os.Args[2], os.Args[3])
	for _, g := range an.WithClosures(lk) {
		if len(os.Args) > 4 && g.Name() != os.Args[4] {
			continue
		}
		ex := &an.Explorer{P: p}
		ex.OnInstr = func(s *an.State, ins ssa.Instruction) bool {
			if _, ok := ins.(*ssa.Return); ok {
				fmt.Println(g.Name(), "return via", s.Witness(), s.FactList())
			}
			return true
		}
		ex.Run(g, nil)
		fmt.Println(g.Name(), "states", ex.States, "paths", ex.Paths)
	}
}
