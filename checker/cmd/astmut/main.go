// Command astmut applies behaviour-preserving, purely syntactic rewrites to every hand-written non-test Go file below a
// directory. It is a dev-time tool for the "no false alarm" side of the checker's self-test: the rewritten tree must get
// exactly the verdicts of the original one.
//
//	-mode invert   if c {A} else {B}            =>  if !c {B} else {A}
//	-mode nest     if c {…return}; rest…        =>  if c {…return} else {rest…}
//	-mode yoda     x == nil / x != nil          =>  nil == x / nil != x
//	-mode flat     if c {A} else {…return}      =>  if !c {…return}; A      (when A declares nothing used later: A stays a block)
package main

import (
	"bytes"
	"flag"
	"fmt"
	"go/ast"
	"go/format"
	"go/parser"
	"go/token"
	"os"
	"path/filepath"
	"strings"
)

var mode = flag.String("mode", "invert", "invert|nest|yoda")

func negate(e ast.Expr) ast.Expr {
	switch x := e.(type) {
	case *ast.UnaryExpr:
		if x.Op == token.NOT {
			if p, ok := x.X.(*ast.ParenExpr); ok {
				return p.X
			}
			return x.X
		}
	case *ast.BinaryExpr:
		switch x.Op {
		case token.EQL:
			return &ast.BinaryExpr{X: x.X, Op: token.NEQ, Y: x.Y}
		case token.NEQ:
			return &ast.BinaryExpr{X: x.X, Op: token.EQL, Y: x.Y}
		}
	case *ast.ParenExpr:
		return negate(x.X)
	}
	return &ast.UnaryExpr{Op: token.NOT, X: &ast.ParenExpr{X: e}}
}

func terminates(b *ast.BlockStmt) bool {
	if len(b.List) == 0 {
		return false
	}
	switch s := b.List[len(b.List)-1].(type) {
	case *ast.ReturnStmt:
		return true
	case *ast.BranchStmt:
		return s.Tok == token.CONTINUE || s.Tok == token.BREAK || s.Tok == token.GOTO
	}
	return false
}

func isNil(e ast.Expr) bool {
	id, ok := e.(*ast.Ident)
	return ok && id.Name == "nil"
}

var count int

func rewriteList(list []ast.Stmt) []ast.Stmt {
	if *mode != "nest" {
		return list
	}
	for i, s := range list {
		is, ok := s.(*ast.IfStmt)
		if !ok || is.Else != nil || i == len(list)-1 || !terminates(is.Body) {
			continue
		}
		// a label or a declaration used by a goto in the tail is left alone
		hasLabel := false
		for _, r := range list[i+1:] {
			if _, ok := r.(*ast.LabeledStmt); ok {
				hasLabel = true
			}
		}
		if hasLabel {
			continue
		}
		rest := rewriteList(append([]ast.Stmt(nil), list[i+1:]...))
		is.Else = &ast.BlockStmt{List: rest}
		count++
		return append(list[:i:i], is)
	}
	return list
}

func main() {
	flag.Parse()
	root := flag.Arg(0)
	fset := token.NewFileSet()
	_ = filepath.Walk(root, func(path string, info os.FileInfo, err error) error {
		if err != nil {
			return nil
		}
		if info.IsDir() {
			n := info.Name()
			if n == "vendor" || n == "node_modules" || (strings.HasPrefix(n, ".") && path != root) {
				return filepath.SkipDir
			}
			return nil
		}
		if !strings.HasSuffix(path, ".go") || strings.HasSuffix(path, "_test.go") || strings.HasSuffix(path, ".pb.go") {
			return nil
		}
		src, _ := os.ReadFile(path)
		if bytes.Contains(src[:min(len(src), 400)], []byte("DO NOT EDIT")) {
			return nil
		}
		f, err := parser.ParseFile(fset, path, src, parser.ParseComments)
		if err != nil {
			return nil
		}
		before := count
		ast.Inspect(f, func(n ast.Node) bool {
			switch x := n.(type) {
			case *ast.IfStmt:
				if *mode == "invert" {
					if eb, ok := x.Else.(*ast.BlockStmt); ok {
						x.Cond = negate(x.Cond)
						x.Body, x.Else = eb, x.Body
						count++
					}
				}
			case *ast.BinaryExpr:
				if *mode == "yoda" && (x.Op == token.EQL || x.Op == token.NEQ) && isNil(x.Y) && !isNil(x.X) {
					x.X, x.Y = x.Y, x.X
					count++
				}
			case *ast.BlockStmt:
				x.List = rewriteList(x.List)
			case *ast.CaseClause:
				x.Body = rewriteList(x.Body)
			case *ast.CommClause:
				x.Body = rewriteList(x.Body)
			}
			return true
		})
		if count == before {
			return nil
		}
		var buf bytes.Buffer
		if err := format.Node(&buf, fset, f); err != nil {
			fmt.Fprintln(os.Stderr, "format:", path, err)
			return nil
		}
		_ = os.WriteFile(path, buf.Bytes(), info.Mode())
		return nil
	})
	fmt.Printf("astmut %s: %d rewrites\n", *mode, count)
}
