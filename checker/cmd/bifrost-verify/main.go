// Command bifrost-verify decides the structural obligations of one property on /repo's working tree.
package main

import (
	"encoding/json"
	"flag"
	"fmt"
	"os"
	"runtime/debug"
	"strconv"
	"strings"

	"bifrostverify/an"
	"bifrostverify/props"
)

// pinEnv makes every child `go` invocation (go list via go/packages, go build for the bounds-check listing) use the
// toolchain the analysis was calibrated with, independent of the caller's shell.
func pinEnv() {
	const tc = "/opt/veriftools/go1.26.8/bin"
	if _, err := os.Stat(tc + "/go"); err == nil {
		os.Setenv("PATH", tc+":"+os.Getenv("PATH"))
		os.Setenv("GOTOOLCHAIN", "local")
	}
	os.Setenv("GOFLAGS", "-mod=mod")
	os.Setenv("GOPROXY", "off")
	os.Setenv("GOSUMDB", "off")
	os.Unsetenv("GOWORK")
}

func main() {
	pinEnv()
	prop := flag.String("prop", "", "property id (C01..C40)")
	tier := flag.String("tier", "quick", "quick|thorough")
	repo := flag.String("repo", "/repo", "repository root")
	verif := flag.String("verif", "/verif", "verification root (evidence, known-findings)")
	replay := flag.String("replay", "", "replay file: re-evaluate the property and show the matching obligation")
	list := flag.Bool("list", false, "list implemented properties")
	describe := flag.Bool("describe", false, "print the property definitions as JSON")
	flag.Parse()
	if *list {
		fmt.Println(strings.Join(props.IDs(), " "))
		return
	}
	if *describe {
		var out []map[string]any
		for _, id := range props.IDs() {
			d := props.Get(id)
			out = append(out, map[string]any{"id": d.ID, "explain": d.Explain, "not_covered": d.NotCov, "assumptions": d.Assumptions, "technique": d.Technique, "na": d.NA})
		}
		b, _ := json.MarshalIndent(out, "", " ")
		fmt.Println(string(b))
		return
	}
	if t := os.Getenv("VERIF_TIER"); t != "" && !isFlagSet("tier") {
		*tier = t
	}
	seed, _ := strconv.Atoi(os.Getenv("VERIF_SEED"))
	d := props.Get(*prop)
	if d == nil {
		fmt.Printf("unknown property %q\n", *prop)
		os.Exit(2)
	}
	os.Exit(run(d, *tier, *repo, *verif, seed, *replay))
}

func isFlagSet(name string) bool {
	set := false
	flag.Visit(func(f *flag.Flag) {
		if f.Name == name {
			set = true
		}
	})
	return set
}

func run(d *props.Def, tier, repo, verif string, seed int, replay string) (code int) {
	var c *an.Check
	defer func() {
		if r := recover(); r != nil {
			fmt.Printf("VIOLATION property=%s replay=%s/evidence/replay/%s-panic.json\n", d.ID, verif, d.ID)
			fmt.Printf("  analyser panic (counts as failure): %v\n%s\n", r, debug.Stack())
			code = 1
		}
	}()
	// both tiers load the whole module (3-5 s with a warm build cache); tiers differ in rule breadth
	pats := []string{"./..."}
	pre := an.PreloadFixtures(verif + "/checker")
	p, err := an.Load(repo, pats...)
	if err != nil {
		// load / type errors are failures, never passes
		c = an.NewCheck(d.ID, tier, &an.Prog{Dir: repo})
		c.Explain = d.Explain
		c.Undecided("LOAD", "repository loads and type-checks", nil, err.Error())
		return c.Finish(verif, seed, d.Assumptions)
	}
	c = an.NewCheck(d.ID, tier, p)
	c.Explain, c.NotCov = d.Explain, d.NotCov
	c.RunControls(pre)
	d.Run(c)
	// Second pass with same-package helpers explored inline, only when the first pass left something undischarged:
	// an obligation discharged in either pass is discharged (both passes are sound; the second sees through helper
	// functions extracted from — or called by — the anchored code).
	if c.Failing() > 0 {
		p.InstallHelperArgs()
		an.InlineHelpers = true
		c2 := an.NewCheck(d.ID, tier, p)
		func() {
			defer func() {
				if r := recover(); r != nil {
					c.Note("inline pass abandoned: %v", r)
					if os.Getenv("VERIF_DEBUG") != "" {
						fmt.Printf("inline pass panic: %v\n%s\n", r, debug.Stack())
					}
					c2 = nil
				}
			}()
			d.Run(c2)
		}()
		an.InlineHelpers = false
		if c2 != nil && os.Getenv("VERIF_DEBUG") != "" {
			for _, o := range c2.Obls {
				if o.Status != an.Discharged {
					fmt.Printf("inline pass: still %v [%s] %s — %s\n", o.Status, o.Rule, o.Construct, o.Detail)
				}
			}
		}
		if c2 != nil {
			c.MergeDischarged(c2, "decided with same-package helpers explored inline")
		}
	}
	if replay != "" {
		fmt.Printf("replay %s: property re-evaluated on the current tree; matching obligations are printed above if still violated\n", replay)
	}
	return c.Finish(verif, seed, d.Assumptions)
}
