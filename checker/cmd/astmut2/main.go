// Command astmut2 applies behaviour-preserving rewrites that need type information to every hand-written non-test Go
// file of the module rooted at the given directory (dev-time self-test, see selftest/run_astmut.sh).
//
//	-mode index     for i[, v] := range xs {…}      =>  for i := 0; i < len(xs); i++ { [v := xs[i];] … }   (xs a slice/array
//	                                                     variable or field that the body does not assign)
//	-mode emptylen  s == "" / s != ""               =>  len(s) == 0 / len(s) != 0                           (s a string)
//	-mode emptystr  len(s) == 0 / != 0 / > 0        =>  s == "" / s != "" / s != ""                         (s a string)
//	-mode mergeif   if a { if b { X } }             =>  if a && b { X }
//	-mode splitand  if a && b { X }                 =>  if a { if b { X } }
package main

import (
	"bytes"
	"flag"
	"fmt"
	"go/ast"
	"go/format"
	"go/token"
	"go/types"
	"os"
	"strings"

	"golang.org/x/tools/go/packages"
)

var mode = flag.String("mode", "index", "index|emptylen|emptystr|mergeif|splitand")

func rootIdent(e ast.Expr) *ast.Ident {
	for {
		switch x := e.(type) {
		case *ast.Ident:
			return x
		case *ast.SelectorExpr:
			e = x.X
		case *ast.ParenExpr:
			e = x.X
		case *ast.StarExpr:
			e = x.X
		default:
			return nil
		}
	}
}

func pureOperand(e ast.Expr) bool {
	ok := true
	ast.Inspect(e, func(n ast.Node) bool {
		switch n.(type) {
		case *ast.CallExpr, *ast.IndexExpr, *ast.UnaryExpr, *ast.BinaryExpr, *ast.TypeAssertExpr:
			ok = false
		}
		return ok
	})
	return ok
}

func main() {
	flag.Parse()
	dir := flag.Arg(0)
	cfg := &packages.Config{Mode: packages.LoadSyntax, Dir: dir}
	pkgs, err := packages.Load(cfg, "./...")
	if err != nil {
		fmt.Fprintln(os.Stderr, err)
		os.Exit(2)
	}
	count := 0
	for _, pk := range pkgs {
		if len(pk.Errors) > 0 {
			continue
		}
		info := pk.TypesInfo
		isString := func(e ast.Expr) bool {
			tv, ok := info.Types[e]
			if !ok || tv.Value != nil || tv.Type == nil {
				return false
			}
			b, ok := tv.Type.Underlying().(*types.Basic)
			return ok && b.Info()&types.IsString != 0
		}
		for i, f := range pk.Syntax {
			path := pk.CompiledGoFiles[i]
			if strings.HasSuffix(path, "_test.go") || strings.HasSuffix(path, ".pb.go") || !strings.HasPrefix(path, dir) {
				continue
			}
			src, _ := os.ReadFile(path)
			if bytes.Contains(src[:min(len(src), 400)], []byte("DO NOT EDIT")) {
				continue
			}
			before := count
			ast.Inspect(f, func(n ast.Node) bool {
				switch x := n.(type) {
				case *ast.BinaryExpr:
					switch *mode {
					case "emptylen":
						if (x.Op == token.EQL || x.Op == token.NEQ) && isString(x.X) && pureOperand(x.X) {
							if bl, ok := x.Y.(*ast.BasicLit); ok && bl.Value == `""` {
								x.X = &ast.CallExpr{Fun: ast.NewIdent("len"), Args: []ast.Expr{x.X}}
								x.Y = &ast.BasicLit{Kind: token.INT, Value: "0"}
								count++
							}
						}
					case "emptystr":
						call, ok := x.X.(*ast.CallExpr)
						if !ok || len(call.Args) != 1 {
							break
						}
						if id, ok := call.Fun.(*ast.Ident); !ok || id.Name != "len" || info.Uses[id] != types.Universe.Lookup("len") {
							break
						}
						bl, ok := x.Y.(*ast.BasicLit)
						if !ok || bl.Value != "0" || !isString(call.Args[0]) {
							break
						}
						op := token.ILLEGAL
						switch x.Op {
						case token.EQL:
							op = token.EQL
						case token.NEQ, token.GTR:
							op = token.NEQ
						}
						if op == token.ILLEGAL {
							break
						}
						x.X, x.Y, x.Op = call.Args[0], &ast.BasicLit{Kind: token.STRING, Value: `""`}, op
						count++
					}
				case *ast.BlockStmt:
					for si, st := range x.List {
						switch *mode {
						case "index":
							rs, ok := st.(*ast.RangeStmt)
							if !ok || rs.Tok != token.DEFINE || rs.Key == nil {
								continue
							}
							key, ok := rs.Key.(*ast.Ident)
							if !ok || key.Name == "_" {
								continue
							}
							tv, ok := info.Types[rs.X]
							if !ok {
								continue
							}
							switch tv.Type.Underlying().(type) {
							case *types.Slice, *types.Array:
							default:
								continue
							}
							root := rootIdent(rs.X)
							if root == nil || !pureOperand(rs.X) {
								continue
							}
							// the body must not assign the ranged variable (range evaluates it once)
							assigned := false
							ast.Inspect(rs.Body, func(m ast.Node) bool {
								if as, ok := m.(*ast.AssignStmt); ok {
									for _, l := range as.Lhs {
										if r := rootIdent(l); r != nil && r.Name == root.Name {
											if _, isIdx := l.(*ast.IndexExpr); !isIdx {
												assigned = true
											}
										}
									}
								}
								return true
							})
							if assigned {
								continue
							}
							body := rs.Body
							if rs.Value != nil {
								if vid, ok := rs.Value.(*ast.Ident); ok && vid.Name != "_" {
									decl := &ast.AssignStmt{Lhs: []ast.Expr{ast.NewIdent(vid.Name)}, Tok: token.DEFINE, Rhs: []ast.Expr{&ast.IndexExpr{X: rs.X, Index: ast.NewIdent(key.Name)}}}
									body = &ast.BlockStmt{List: append([]ast.Stmt{decl}, rs.Body.List...)}
								} else if !ok {
									continue
								}
							}
							x.List[si] = &ast.ForStmt{
								Init: &ast.AssignStmt{Lhs: []ast.Expr{ast.NewIdent(key.Name)}, Tok: token.DEFINE, Rhs: []ast.Expr{&ast.BasicLit{Kind: token.INT, Value: "0"}}},
								Cond: &ast.BinaryExpr{X: ast.NewIdent(key.Name), Op: token.LSS, Y: &ast.CallExpr{Fun: ast.NewIdent("len"), Args: []ast.Expr{rs.X}}},
								Post: &ast.IncDecStmt{X: ast.NewIdent(key.Name), Tok: token.INC},
								Body: body,
							}
							count++
						case "mergeif":
							is, ok := st.(*ast.IfStmt)
							if !ok || is.Init != nil || is.Else != nil || len(is.Body.List) != 1 {
								continue
							}
							inner, ok := is.Body.List[0].(*ast.IfStmt)
							if !ok || inner.Init != nil || inner.Else != nil {
								continue
							}
							is.Cond = &ast.BinaryExpr{X: &ast.ParenExpr{X: is.Cond}, Op: token.LAND, Y: &ast.ParenExpr{X: inner.Cond}}
							is.Body = inner.Body
							count++
						case "splitand":
							is, ok := st.(*ast.IfStmt)
							if !ok || is.Else != nil {
								continue
							}
							be, ok := is.Cond.(*ast.BinaryExpr)
							if !ok || be.Op != token.LAND {
								continue
							}
							is.Cond = be.X
							is.Body = &ast.BlockStmt{List: []ast.Stmt{&ast.IfStmt{Cond: be.Y, Body: is.Body}}}
							count++
						}
					}
				}
				return true
			})
			if count == before {
				continue
			}
			var buf bytes.Buffer
			if err := format.Node(&buf, pk.Fset, f); err != nil {
				fmt.Fprintln(os.Stderr, "format:", path, err)
				continue
			}
			_ = os.WriteFile(path, buf.Bytes(), 0o644)
		}
	}
	fmt.Printf("astmut2 %s: %d rewrites\n", *mode, count)
}
