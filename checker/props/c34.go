package props

import (
	"fmt"
	"go/types"
	"sort"
	"strings"

	"bifrostverify/an"

	"golang.org/x/tools/go/ssa"
)

var hmsKinds = map[string]string{
	"HandleMountedStreamProtocolID":   "protocol",
	"HandleMountedStreamLocalPeerID":  "local-peer",
	"HandleMountedStreamRemotePeerID": "remote-peer",
}

// hmsKind classifies v as (a representation of) one of the directive's three parameters.
func hmsKind(s *an.State, v ssa.Value) string {
	for i := 0; i < 6; i++ {
		v = s.Canon(v)
		switch x := v.(type) {
		case *ssa.Convert:
			v = x.X
			continue
		case *ssa.Call:
			if x.Call.IsInvoke() {
				if k, ok := hmsKinds[x.Call.Method.Name()]; ok && isHMSIface(x.Call.Value.Type()) {
					return k
				}
				return ""
			}
			if an.IsCallTo(x, an.R("peer", "ID", "String"), an.R("protocol", "ID", "String")) {
				v = x.Call.Args[0]
				continue
			}
		}
		return ""
	}
	return ""
}

func isHMSIface(t types.Type) bool {
	n, ok := t.(*types.Named)
	return ok && n.Obj().Name() == "HandleMountedStream" && n.Obj().Pkg() != nil && strings.HasSuffix(n.Obj().Pkg().Path(), "/link")
}

// cfgTerm renders a configuration-side value as a stable term (callee/field names, no SSA identities).
func cfgTerm(s *an.State, v ssa.Value, d int) string {
	v = s.Canon(v)
	if d > 5 {
		return "?"
	}
	switch x := v.(type) {
	case *ssa.Const:
		return "const " + x.String()
	case *ssa.Parameter:
		return "param " + x.Name()
	case *ssa.Convert:
		return cfgTerm(s, x.X, d+1)
	case *ssa.Call:
		if fo := an.CallObj(x.Common()); fo != nil {
			var as []string
			for _, a := range an.CallArgs(x.Common()) {
				as = append(as, cfgTerm(s, a, d+1))
			}
			return fo.Name() + "(" + strings.Join(as, ",") + ")"
		}
	case *ssa.UnOp:
		if f := an.FieldOfAddr(x.X); f != nil {
			base := ""
			if fa, ok := x.X.(*ssa.FieldAddr); ok {
				base = cfgTerm(s, fa.X, d+1)
			}
			return base + "." + f.Name()
		}
		if g, ok := x.X.(*ssa.Global); ok {
			return "global " + g.Name()
		}
		if ia, ok := x.X.(*ssa.IndexAddr); ok {
			return "elem(" + cfgTerm(s, ia.X, d+1) + ")"
		}
	case *ssa.Extract:
		// range over a slice yields elements via Next on strings only; slices use IndexAddr
		return "res(" + cfgTerm(s, x.Tuple, d+1) + ")"
	case *ssa.Field:
		if f := an.FieldOfAddr(x); f != nil {
			return cfgTerm(s, x.X, d+1) + "." + f.Name()
		}
	}
	return "?" + v.Name()
}

// configGetterSources walks a configuration-side value back through conversions, phis, struct fields (all stores to
// the field in its package) and local variables, and returns the names of the generated config getters (methods
// named Get* declared in a *.pb.go file) it can originate from.
func configGetterSources(p *an.Prog, v ssa.Value) map[string]bool {
	out := map[string]bool{}
	seen := map[ssa.Value]bool{}
	var walk func(v ssa.Value, d int)
	walk = func(v ssa.Value, d int) {
		if v == nil || seen[v] || d > 12 {
			return
		}
		seen[v] = true
		switch x := v.(type) {
		case *ssa.Call:
			if fo := an.CallObj(x.Common()); fo != nil && strings.HasPrefix(fo.Name(), "Get") && p.IsGenerated(fo.Pos()) {
				out[fo.Name()] = true
				return
			}
			for _, a := range an.CallArgs(x.Common()) {
				walk(a, d+1)
			}
		case *ssa.UnOp:
			if f := an.FieldOfAddr(x.X); f != nil {
				var fns []*ssa.Function
				if x.Parent() != nil && x.Parent().Pkg != nil {
					fns = p.FuncsOf(x.Parent().Pkg)
				}
				for _, a := range p.FieldAccesses(f.Origin(), fns) {
					if a.Kind == an.Write {
						walk(a.Val, d+1)
					}
				}
				return
			}
			walk(x.X, d+1)
		case *ssa.Alloc:
			for _, st := range p.Stores(x) {
				walk(st.Val, d+1)
			}
		case *ssa.Phi:
			for _, e := range x.Edges {
				walk(e, d+1)
			}
		case *ssa.Convert:
			walk(x.X, d+1)
		case *ssa.ChangeType:
			walk(x.X, d+1)
		case *ssa.Extract:
			walk(x.Tuple, d+1)
		case *ssa.IndexAddr:
			walk(x.X, d+1)
		case *ssa.Slice:
			walk(x.X, d+1)
		}
	}
	walk(v, 0)
	return out
}

type hmsExpect struct {
	pkg   string
	kinds []string
}

// handlers confirmed by reading (DESIGN Appendix A); the generic discovery must find at least these.
var hmsExpected = []hmsExpect{
	{"stream/echo", []string{"protocol", "local-peer"}},
	{"stream/forwarding", []string{"protocol", "local-peer"}},
	{"stream/relay", []string{"protocol", "local-peer"}},
	{"stream/api/accept", []string{"protocol", "local-peer", "remote-peer"}},
	{"stream/srpc/server", []string{"protocol", "local-peer"}},
	{"pubsub/controller", []string{"protocol"}},
	{"link/solicit/controller", []string{"protocol"}},
	{"cli", []string{"protocol", "local-peer"}},
}

func c34(c *an.Check) {
	handlerConfigPlumbing(c)
	p := c.P
	// discover handler filter functions: take a link.HandleMountedStream and return ([]directive.Resolver, error)
	var handlers []*ssa.Function
	for _, fn := range p.AllRepoFuncs() {
		if strings.Contains(fn.Pkg.Pkg.Path(), "/examples/") || fn.Signature.Results().Len() != 2 {
			continue
		}
		if !strings.HasSuffix(fn.Signature.Results().At(0).Type().String(), "directive.Resolver") {
			continue
		}
		uses := false
		for _, b := range an.ScanBlocks(fn) {
			for _, ins := range b.Instrs {
				if call, ok := ins.(*ssa.Call); ok && call.Call.IsInvoke() && hmsKinds[call.Call.Method.Name()] == "protocol" && isHMSIface(call.Call.Value.Type()) {
					uses = true
				}
			}
		}
		if uses {
			handlers = append(handlers, fn)
		}
	}
	byPkg := map[string][]*ssa.Function{}
	for _, h := range handlers {
		rel := strings.TrimPrefix(h.Pkg.Pkg.Path(), an.Mod+"/")
		byPkg[rel] = append(byPkg[rel], h)
	}
	for _, e := range hmsExpected {
		hs := byPkg[e.pkg]
		if len(hs) != 1 {
			c.Undecided("GATE", "stream handler filter in "+e.pkg, nil, fmt.Sprintf("unresolved anchor: expected exactly one HandleMountedStream filter function, found %d", len(hs)))
			continue
		}
		checkHMSHandler(c, hs[0], e.pkg, e.kinds)
		delete(byPkg, e.pkg)
	}
	// handlers outside the confirmed table: protocol gate is still required
	var extra []string
	for k := range byPkg {
		extra = append(extra, k)
	}
	sort.Strings(extra)
	for _, k := range extra {
		for _, h := range byPkg[k] {
			checkHMSHandler(c, h, k, []string{"protocol"})
		}
	}
	c.Sites(len(handlers))
}

func checkHMSHandler(c *an.Check, h *ssa.Function, pkg string, kinds []string) {
	p := c.P
	st0 := p.NewState(h)
	dependsOnDir := func(v ssa.Value) bool {
		return p.DependsOn(v, func(x ssa.Value) bool {
			if call, ok := x.(*ssa.Call); ok && call.Call.IsInvoke() && isHMSIface(call.Call.Value.Type()) {
				return true
			}
			return isHMSIface(x.Type())
		})
	}
	// static census: configuration terms each kind is compared against (for wildcard binding)
	cfgTerms := map[string]map[string]bool{}
	addTerm := func(kind string, cfg ssa.Value) {
		if cfgTerms[kind] == nil {
			cfgTerms[kind] = map[string]bool{}
		}
		t := cfgTerm(st0, cfg, 0)
		cfgTerms[kind][t] = true
		if strings.HasPrefix(t, "elem(") {
			cfgTerms[kind][strings.TrimSuffix(strings.TrimPrefix(t, "elem("), ")")] = true
		}
	}
	for _, b := range an.ScanBlocks(h) {
		for _, ins := range b.Instrs {
			switch x := ins.(type) {
			case *ssa.BinOp:
				if k := hmsKind(st0, x.X); k != "" && !dependsOnDir(x.Y) {
					addTerm(k, x.Y)
				} else if k := hmsKind(st0, x.Y); k != "" && !dependsOnDir(x.X) {
					addTerm(k, x.X)
				}
			case *ssa.Call:
				if an.IsCallTo(x, an.X("slices", "", "Contains")) && len(x.Call.Args) == 2 {
					if k := hmsKind(st0, x.Call.Args[1]); k != "" && !dependsOnDir(x.Call.Args[0]) {
						addTerm(k, x.Call.Args[0])
					}
				}
			}
		}
	}
	mark := func(s *an.State, cond ssa.Value, want bool) {
		x, y, rel, ok := s.CondRel(cond, want)
		if !ok || rel != an.EQ {
			return
		}
		if k := hmsKind(s, x); k != "" && !dependsOnDir(y) {
			s.SetMark(k, nil)
		} else if k := hmsKind(s, y); k != "" && !dependsOnDir(x) {
			s.SetMark(k, nil)
		}
	}
	var reqs []an.Req
	for _, kind := range kinds {
		kind := kind
		reqs = append(reqs, an.Req{Name: kind + " matches the configuration (or the configuration is empty)", Holds: func(s *an.State, at ssa.Instruction) bool {
			if s.HasMark(kind) {
				return true
			}
			// membership / prefix helpers
			for _, call := range an.Calls(h, an.X("slices", "", "Contains")) {
				if len(call.Call.Args) == 2 && s.IsTrue(call) && hmsKind(s, call.Call.Args[1]) == kind && !dependsOnDir(call.Call.Args[0]) {
					return true
				}
			}
			if kind == "protocol" {
				for _, call := range an.Calls(h, an.X("strings", "", "HasPrefix")) {
					if _, isConst := an.StrConstOf(call.Call.Args[1]); isConst && s.IsTrue(call) && hmsKind(s, call.Call.Args[0]) == kind {
						return true
					}
				}
			}
			// wildcard: the very configuration this kind is compared against is empty
			return s.AnyFact(func(s *an.State, x, y ssa.Value, r an.Rel) bool {
				if r != an.EQ {
					return false
				}
				if k, isK := y.(*ssa.Const); isK && (k.Value == nil || k.Value.ExactString() == `""` || k.Value.ExactString() == "0") {
					t := cfgTerm(s, x, 0)
					if cfgTerms[kind][t] {
						return true
					}
					if l, ok := x.(*ssa.Call); ok && an.BuiltinName(l) == "len" && cfgTerms[kind][cfgTerm(s, l.Call.Args[0], 0)] {
						return true
					}
				}
				return false
			})
		}})
	}
	// provenance of the protocol filter's configuration operand: when it comes from a generated config message it must be
	// that message's listen-protocol field (protocol_id / protocol_ids), not some other field (e.g. a *target* protocol).
	for _, b := range an.ScanBlocks(h) {
		for _, ins := range b.Instrs {
			var cfg ssa.Value
			switch x := ins.(type) {
			case *ssa.BinOp:
				if hmsKind(st0, x.X) == "protocol" && !dependsOnDir(x.Y) {
					cfg = x.Y
				} else if hmsKind(st0, x.Y) == "protocol" && !dependsOnDir(x.X) {
					cfg = x.X
				}
			case *ssa.Call:
				if an.IsCallTo(x, an.X("slices", "", "Contains")) && len(x.Call.Args) == 2 && hmsKind(st0, x.Call.Args[1]) == "protocol" {
					cfg = x.Call.Args[0]
				}
			}
			if cfg == nil {
				continue
			}
			if k, isK := cfg.(*ssa.Const); isK && (k.Value == nil || k.Value.ExactString() == `""`) {
				continue
			}
			src := configGetterSources(p, cfg)
			var bad []string
			for g := range src {
				if g != "GetProtocolId" && g != "GetProtocolIds" {
					bad = append(bad, g)
				}
			}
			sort.Strings(bad)
			c.Require(len(bad) == 0, "PROVENANCE", "stream handler filter "+pkg+" compares the protocol with its listen-protocol configuration", h, p.Pos(ins.Pos()), len(src)+1,
				fmt.Sprintf("configuration operand originates from %v / constructor parameters", keysOf(src)),
				fmt.Sprintf("the protocol filter compares against a value that (also) originates from config field getter(s) %v, not the listen protocol", bad))
		}
	}
	c.Gate(an.GateSpec{Construct: "stream handler filter " + pkg + " offers a resolver", Fn: h, Mark: mark,
		Sink: func(s *an.State, ins ssa.Instruction) bool {
			ret, ok := ins.(*ssa.Return)
			return ok && !s.IsNil(s.RetVal(ret, 0))
		}, Reqs: reqs})
}

func init() {
	register(&Def{ID: "C34", Run: c34,
		Explain:     "Decides on SSA for every function that filters link.HandleMountedStream directives (discovered by type: takes the directive interface, calls HandleMountedStreamProtocolID, returns ([]directive.Resolver, error); the 7 anchored handlers + the CLI pipe listener must be among them): a non-nil resolver result is returned only on paths that crossed the equality edge (sticky mark, so loop/flag idioms are followed) of a comparison between the directive's protocol ID / local peer / remote peer and a configuration value that does not depend on the directive — or slices.Contains / a constant strings.HasPrefix on it is true — or the very configuration value it is compared against is known empty (the 'not configured' wildcard). Which of the three gates each handler must have is a table confirmed by reading. (GATE) srpc server defaults are added only when no protocol ids are configured; (EQUIV) Config.EqualsConfig of the stream-handler controllers is whole-message equality.",
		NotCov:      "what the configured values are at run time, and the behaviour of the controller bus in choosing among offered resolvers.",
		Assumptions: commonAssumptions})
}

func keysOf(m map[string]bool) []string {
	var o []string
	for k := range m {
		o = append(o, k)
	}
	sort.Strings(o)
	return o
}

// handlerConfigPlumbing: what reaches the filters is the configuration the operator wrote —
//   - srpc server defaults are filled in only when no protocol ids are configured (an explicit list is never widened);
//   - configuration equivalence of the stream-handler controllers compares whole messages (EqualVT), so two
//     registrations differing in any filter field are two controllers, not one.
func handlerConfigPlumbing(c *an.Check) {
	p := c.P
	ad := p.Func("stream/srpc/server", "Config", "ApplyDefaults")
	if ad == nil {
		c.Undecided("GATE", "srpc server Config.ApplyDefaults", nil, "unresolved anchor")
	} else {
		c.Gate(an.GateSpec{Construct: "srpc server Config.ApplyDefaults adds the default protocol ids", Fn: ad,
			Sink: func(s *an.State, ins ssa.Instruction) bool {
				st, ok := ins.(*ssa.Store)
				if !ok {
					return false
				}
				f := an.FieldOfAddr(st.Addr)
				return f != nil && f.Name() == "ProtocolIds"
			},
			Reqs: []an.Req{an.FactReq("no protocol ids configured (len(configured)==0)", func(s *an.State, x, y ssa.Value, r an.Rel) bool {
				return r == an.EQ && an.IsIntConst(y, 0) && an.LenOf(s, x, func(a ssa.Value) bool {
					call, ok := s.Canon(a).(*ssa.Call)
					if !ok {
						return false
					}
					fo := an.CallObj(call.Common())
					return fo != nil && fo.Name() == "GetProtocolIds"
				})
			})}})
	}
	n, bad := 0, ""
	for _, pkg := range []string{"stream/api/accept", "stream/api/dial", "stream/forwarding", "stream/listening", "stream/echo", "stream/srpc/server", "stream/drpc/server", "signaling/rpc/server", "link/solicit/controller"} {
		f := p.Func(pkg, "Config", "EqualsConfig")
		if f == nil {
			continue
		}
		n++
		c.EachReturn("EQUIV", pkg+".Config.EqualsConfig compares whole configurations", f, "true only as the verdict of EqualVT / the generic whole-message helper", func(s *an.State, ret *ssa.Return) string {
			rv := s.RetVal(ret, 0)
			if s.IsFalse(rv) {
				return ""
			}
			call, ok := s.Canon(rv).(*ssa.Call)
			if ok {
				name := ""
				if fo := an.CallObj(call.Common()); fo != nil {
					name = fo.Name()
				} else if call.Call.IsInvoke() {
					name = call.Call.Method.Name()
				}
				if name == "EqualVT" || name == "EqualsConfig" || name == "Equal" {
					return ""
				}
			}
			return "configuration equivalence is decided field by field (or otherwise than by whole-message equality): registrations that differ in an uncompared filter field are merged by the controller loader"
		})
		_ = bad
	}
	c.Require(n >= 3, "EQUIV", "stream handler Config.EqualsConfig implementations found", nil, "", n, "implementations enumerated", "fewer than 3 EqualsConfig implementations found in the stream-handler packages (anchor drift)")
}
