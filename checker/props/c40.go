package props

import (
	"fmt"
	"go/ast"
	"go/constant"
	"go/token"
	"go/types"
	"reflect"
	"strconv"
	"strings"

	"bifrostverify/an"

	"golang.org/x/tools/go/ssa"
)

func c40(c *an.Check) {
	p := c.P
	// ---- allocation bounds: every message-session limit is a constant / configuration value, never wire-derived,
	// and the three framing decoders allocate only under their limit (the C07/C08 BOUNDED obligations are re-decided here).
	sub := an.NewCheck(c.Prop, c.Tier, p)
	c07(sub)
	c08(sub)
	kept := 0
	for _, o := range sub.Obls {
		if o.Rule == "BOUNDED" || o.Rule == "EXACTREAD" || (o.Rule == "WHO" && strings.Contains(o.Construct, "limit")) || (o.Rule == "WHO" && strings.Contains(o.Construct, "max")) {
			c.Obls = append(c.Obls, o)
			kept++
		}
	}
	c.Require(kept >= 8, "BOUNDED", "framing decoders' allocation obligations re-decided", nil, "", kept, fmt.Sprintf("%d BOUNDED/EXACTREAD/limit obligations carried from the header reader, packet connection and message session", kept), "too few bounded-allocation obligations found (anchor drift)")
	// NewSession limits: constants at every call site
	n, okc := 0, true
	for _, fn := range p.AllRepoFuncs() {
		for _, call := range an.Calls(fn, an.R("stream/packet", "", "NewSession")) {
			n++
			if k, isK := call.Call.Args[1].(*ssa.Const); !isK || k.Value == nil || k.Uint64() == 0 || k.Uint64() > 1<<26 {
				okc = false
				c.Fail("BOUNDED", "packet.NewSession limit at "+an.FuncName(fn)+" is a positive constant <= 64MiB", fn, p.Pos(call.Pos()), n, "the message-size limit passed here is not a positive constant within 64MiB", nil)
			}
		}
	}
	c.Sites(n)
	if okc {
		c.Require(n >= 3, "BOUNDED", "packet.NewSession limits are positive constants <= 64MiB", nil, "", n, fmt.Sprintf("%d call sites, all constant", n), "anchor drift: fewer than 3 NewSession call sites")
	}
	// ---- hash-list truncation (solicit control stream), both directions
	maxF := fv(c, solcPkg, "Controller", "maxHashes")
	trunc := 0
	for _, fn := range p.PkgFuncs(solcPkg) {
		for _, b := range an.ScanBlocks(fn) {
			for _, ins := range b.Instrs {
				sl, ok := ins.(*ssa.Slice)
				if !ok || sl.High == nil || !strings.HasSuffix(sl.Type().String(), "[][]byte") {
					continue
				}
				if !p.DependsOn(sl.High, func(v ssa.Value) bool { return an.IsFieldLoad(v, maxF) }) {
					continue
				}
				// dominated by len(list) > max
				st := p.NewState(fn)
				for _, dc := range an.DominatingConds(ins) {
					x, y, r, isCmp := st.CondRel(dc.Cond, dc.Want)
					if isCmp && r == an.GT && an.LenOf(st, x, func(a ssa.Value) bool { return st.Key(a) == st.Key(sl.X) }) && p.DependsOn(y, func(v ssa.Value) bool { return an.IsFieldLoad(v, maxF) }) {
						trunc++
					}
				}
			}
		}
	}
	c.Require(trunc >= 2, "BOUNDED", "solicit control stream truncates hash lists to maxHashes in both directions", nil, "", trunc, fmt.Sprintf("%d truncation sites: if len(list) > max { list = list[:max] }", trunc), "a hash list (sent or received) is not truncated to the configured maximum")
	// the received list is truncated before it is used: the value handed on from the read goroutine is the truncated one
	rcs := one(pkgFuncsWhere(p, solcPkg, func(f *ssa.Function) bool {
		for _, g := range an.WithClosures(f) {
			if callsAny(g, an.R("stream/packet", "Session", "RecvMsg")) && g != f {
				return true
			}
		}
		return false
	}))
	if rcs == nil {
		c.Undecided("BOUNDED", "solicit control stream read loop", nil, "unresolved anchor")
	} else {
		rd := one(closuresWhere(rcs, func(g *ssa.Function) bool { return callsAny(g, an.R("stream/packet", "Session", "RecvMsg")) }))
		c.Gate(an.GateSpec{Rule: "BOUNDED", Construct: "solicit control stream hands on received hashes", Fn: rd,
			Sink: func(s *an.State, ins ssa.Instruction) bool { _, _, ok := an.SelectSend(ins); return ok },
			Reqs: []an.Req{{Name: "list length <= maxHashes (truncated if longer)", Holds: func(s *an.State, at ssa.Instruction) bool {
				_, v, _ := an.SelectSend(at)
				cv := s.Canon(v)
				if sl, ok := cv.(*ssa.Slice); ok && sl.High != nil && p.DependsOn(sl.High, func(x ssa.Value) bool { return an.IsFieldLoad(x, maxF) }) {
					return true
				}
				return s.AnyFact(func(s *an.State, x, y ssa.Value, r an.Rel) bool {
					return r != an.ANY && r&an.GT == 0 && an.LenOf(s, x, func(a ssa.Value) bool { return s.Key(a) == s.Key(cv) }) && p.DependsOn(y, func(z ssa.Value) bool { return an.IsFieldLoad(z, maxF) })
				})
			}}}})
	}
	// ---- totality of every in-repo decoder on the network path
	pats := []string{"./transport/controller", "./util/rwc", "./stream/packet", "./pubsub/floodsub", "./pubsub/util/pubmessage", "./link/solicit", "./link/solicit/controller", "./signaling/rpc", "./transport/webrtc", "./peer", "./envelope", "./crypto", "./hash", "./protocol", "./util/extra25519"}
	bce := peerBCE(c, pats...)
	if bce == nil {
		return
	}
	var fns []*ssa.Function
	add := func(f *ssa.Function) {
		if f != nil {
			fns = append(fns, f)
		}
	}
	// stream header
	for _, f := range pkgFuncsWhere(p, "transport/controller", func(f *ssa.Function) bool {
		return callsAny(f, cConsumeVarint) || strings.HasPrefix(f.Name(), "readAtLeast")
	}) {
		add(f)
	}
	add(p.Func("protocol", "ID", "Validate"))
	// packet framing
	for _, m := range []string{"rxPump", "ReadFrom", "WriteTo", "getArenaBuf"} {
		add(p.Func("util/rwc", "PacketConn", m))
	}
	add(p.Func("stream/packet", "Session", "RecvMsg"))
	add(p.Func("stream/packet", "Session", "SendMsg"))
	// pubsub
	for _, m := range []string{"processPacket", "handlePublish", "handleSubscriptions", "readPump"} {
		add(p.Func(fsPkg, "streamHandler", m))
	}
	add(p.Func(fsPkg, "FloodSub", "handleValidMessage"))
	add(p.Func(pmPkg, "", "ExtractAndVerify"))
	add(p.Func(pmPkg, "PubMessageInner", "Validate"))
	// solicitation
	for _, f := range p.PkgFuncs(solcPkg) {
		if f.Parent() == nil && (strings.Contains(f.Name(), "ControlStream") || strings.Contains(f.Name(), "Solicited") || strings.Contains(f.Name(), "Match") || f.Name() == "handleMountedStream" || f.Name() == "computeHashes") {
			for _, g := range an.WithClosures(f) {
				add(g)
			}
		}
	}
	add(p.Func(solPkg, "", "FindMatchingHashes"))
	add(p.Func(solPkg, "", "ComputeProtocolHash"))
	add(p.Func(solPkg, "", "ComputeSessionID"))
	// signaling
	for _, w := range [][2]string{{"SessionRequest", "Validate"}, {"SessionResponse", "Validate"}, {"SessionMsg", "Validate"}, {"SessionMsg", "ExtractAndVerify"}, {"SessionInit", "Validate"}, {"SessionInit", "ParsePeerID"}} {
		add(p.Func(sigPkg, w[0], w[1]))
	}
	// webrtc signals
	for _, f := range p.PkgFuncs(wrPkg) {
		if f.Parent() == nil && !p.IsGenerated(f.Pos()) && strings.HasSuffix(p.Fset.Position(f.Pos()).Filename, "signal.go") {
			add(f)
		}
	}
	// signed messages, ids, keys, envelopes, hashes
	for _, w := range [][2]string{{"SignedMsg", "ExtractAndVerify"}, {"SignedMsg", "Verify"}, {"SignedMsg", "ExtractPubKey"}, {"SignedMsg", "ParseFromPeerID"}, {"SignedMsg", "ComputeMessageID"}, {"Signature", "Validate"}, {"Signature", "VerifyWithPublic"}, {"Signature", "ParsePubKey"}, {"ID", "ExtractPublicKey"}, {"ID", "MatchesPublicKey"}} {
		add(p.Func("peer", w[0], w[1]))
	}
	for _, n := range []string{"UnmarshalSignedMsg", "IDFromBytes", "IDB58Decode", "DecryptWithPrivKey", "DecryptWithEd25519"} {
		add(p.Func("peer", "", n))
	}
	add(one(pkgFuncsWhere(p, "peer", func(f *ssa.Function) bool { return callsAny(f, cUvarint) })))
	for _, n := range []string{"UnmarshalPublicKey", "PublicKeyFromProto", "UnmarshalPrivateKey", "UnmarshalEd25519PublicKey", "UnmarshalEd25519PrivateKey"} {
		add(p.Func("crypto", "", n))
	}
	add(p.Func("envelope", "", "UnlockEnvelope"))
	add(one(pkgFuncsWhere(p, "envelope", func(f *ssa.Function) bool { return f.Name() == "matchPrivKeys" })))
	for _, w := range [][2]string{{"Hash", "Validate"}, {"Hash", "VerifyData"}, {"Hash", "ParseFromB58"}, {"HashType", "Validate"}, {"HashType", "Sum"}, {"HashType", "GetHashLen"}} {
		add(p.Func("hash", w[0], w[1]))
	}
	add(p.Func("util/extra25519", "", "PublicKeyToCurve25519"))
	add(p.Func("util/extra25519", "", "IsEdLowOrder"))
	pre := []an.Precond{
		{Callee: cRecover, Desc: "secretsharing.Recover needs pairwise distinct share ids", Holds: func(s *an.State, call *ssa.Call) (bool, string) {
			return true, "distinct ids are guaranteed by the canonical de-duplication key (decided under C16/C18)"
		}},
		{Callee: cEdPublic, Desc: "ed25519.PrivateKey.Public needs a 64-byte key", Holds: func(s *an.State, call *ssa.Call) (bool, string) {
			k := call.Call.Args[0]
			if l, ok := s.FixedLen(k); ok && l == 64 {
				return true, "fixed 64-byte key"
			}
			if s.AnyFact(func(s *an.State, x, y ssa.Value, r an.Rel) bool {
				return r == an.EQ && an.IsIntConst(y, 64) && an.LenOf(s, x, func(a ssa.Value) bool { return s.Key(a) == s.Key(k) })
			}) {
				return true, "len(key)==64 guard"
			}
			return false, "key length not established"
		}},
		{Callee: cNewKeySeed, Desc: "ed25519.NewKeyFromSeed needs a 32-byte seed", Holds: func(s *an.State, call *ssa.Call) (bool, string) {
			l, ok := s.FixedLen(call.Call.Args[0])
			return ok && l == 32, "32-byte seed"
		}},
	}
	// NILDEREF over the same functions: a (pointer|interface, error) result is dereferenced only behind err == nil
	an.NilProducer = nilProducers
	nND := c.NilDerefGuard("NILDEREF", "network decoder: (value, error) results and possibly-absent message fields dereferenced only when known present", fns, nilSafeRecv(p))
	an.NilProducer = nil
	c.Note("NILDEREF examined %d (value, error) call sites in %d decoder functions", nND, len(fns))
	decodeIntoZeroMessage(c, "network decoders decode into a zero message", fns)
	if c.Tier == "thorough" {
		// whole-repository sweep of the two panic/aliasing rules: functions outside the decoder surface are cross-reference
		// notes (they are not reachable from network input by this property's anchors), inside it they are obligations
		inSet := map[*ssa.Function]bool{}
		for _, f := range fns {
			inSet[f] = true
		}
		var rest []*ssa.Function
		for _, f := range p.AllRepoFuncs() {
			if f.Parent() == nil && !inSet[f] && !p.IsGenerated(f.Pos()) && !strings.Contains(f.Pkg.Pkg.Path(), "/examples/") {
				rest = append(rest, f)
			}
		}
		sub := an.NewCheck(c.Prop, c.Tier, p)
		an.NilDerefMaxStates = 4000
		n1 := sub.NilDerefGuard("NILDEREF", "repository", rest, vtSafeRecv)
		an.NilDerefMaxStates = 0
		n2 := sub.ReleasedNotReturned("OWNERSHIP", "repository", rest)
		bad, skipped := 0, 0
		for _, o := range sub.Obls {
			if o.Status == an.Undecided {
				skipped++
				continue
			}
			if o.Status != an.Discharged {
				bad++
				c.Note("cross-reference (outside the decoder surface): [%s] %s %s — %s", o.Rule, o.Func, o.Pos, o.Detail)
			}
		}
		c.Note("thorough: NILDEREF over %d further (value, error) call sites and OWNERSHIP over %d further pool releases in %d repository functions: %d cross-reference notes, %d functions not examined (state budget of the sweep)", n1, n2, len(rest), bad, skipped)
	}
	pbCodecSanity(c, func(string) bool { return true })
	nRel := c.ReleasedNotReturned("OWNERSHIP", "network decoder: returned values do not alias released pool storage", fns)
	c.Note("OWNERSHIP examined %d sync.Pool releases in the decoder functions", nRel)
	c.Totality(an.PanicSpec{Construct: "network decoder totality", Funcs: fns, BCE: bce, Min: 70, Preconds: pre, Reviewed: map[string]string{
		"peer.DecryptWithEd25519: bounds tPrivKeyCurve25519[:32]":                                                  "PrivateKeyToCurve25519 returns a 64-byte SHA-512 digest",
		"peer.DecryptWithEd25519: assert to ed25519.PublicKey":                                                     "crypto/ed25519 documents PrivateKey.Public() to return ed25519.PublicKey",
		"(*util/rwc.PacketConn).getArenaBuf: bounds buf[:size]":                                                    "taken only on the branch cap(buf) >= size",
		"(*util/rwc.PacketConn).getArenaBuf: assert to *[]byte":                                                    "the pool only ever receives *[]byte (all ar.Put calls in the package pass &[]byte)",
		"(*util/rwc.PacketConn).WriteTo: bounds buf[4:]":                                                           "buf comes from getArenaBuf(len(pkt)+4), which returns exactly the requested size (decided under C08) >= 4",
		"transport/controller.readAtLeast: bounds buf[n:]":                                                         "the loop body runs only while n < min, and both call sites pass min == len(buf) (EXACTREAD obligation), so n < len(buf)",
		"(*link/solicit/controller.Controller).handleMountedStream: bounds string(pid)[len(SolicitStreamPrefix):]": "guarded by strings.HasPrefix(string(pid), SolicitStreamPrefix) on the same value",
		"link/solicit.FindMatchingHashes: bounds local[i]":                                                         "loop condition i < len(local)",
		"link/solicit.FindMatchingHashes: bounds remote[j]":                                                        "loop condition j < len(remote)",
		"link/solicit.ComputeProtocolHash: bounds sum[:HashSize]":                                                  "sum = blake3 Hasher.Sum(nil) has 32 bytes = HashSize",
		"link/solicit.ComputeSessionID: bounds sum[:HashSize]":                                                     "sum = blake3 Hasher.Sum(nil) has 32 bytes = HashSize",
		"util/extra25519.IsEdLowOrder: bounds ge[j]":                                                               "every caller passes exactly 32 bytes (CALLARG obligation of C14); j ranges over 0..31",
		"util/extra25519.IsEdLowOrder: bounds edBlacklist[i][j]":                                                   "i < len(edBlacklist) by the loop bound, j <= 31 < 32",
	}})
	c.Trust("protobuf-go-lite UnmarshalVT, base58, s2, x509/asn1, pion sdp, encoding/json decoders never panic (third-party / stdlib internals are the trusted base)")
}

func init() {
	register(&Def{ID: "C40", Run: c40,
		Explain:     "Decides: (BOUNDED) the stream-header reader, the packet connection and the message session allocate a body only under their limit and read exactly (the BOUNDED/EXACTREAD obligations of C07/C08 are re-decided here); every packet.NewSession call site passes a positive constant limit <= 64MiB; solicitation hash lists are truncated to maxHashes when sent and before a received list is handed on; (PANIC) for ~90 in-repo decoder functions on the network path (stream headers, framing, pubsub packets, solicitation exchange, signaling messages, WebRTC signals, signed messages, peer IDs, keys, hashes, envelopes) every compiler-unproven bounds check, variable divisor, unchecked type assertion, explicit panic and length-preconditioned crypto call is discharged by a path guard, a fixed-length producer or a reviewed reason. (NILDEREF) (pointer|interface, error) results are dereferenced only behind err==nil in all decoder functions; (OWNERSHIP) no decoder returns storage it released to a pool. Generated codecs of the whole repository: SizeVT sanity, tag agreement, copying UnmarshalVT, guarded sub-slices, encode/size agreement; possibly-absent message fields (generated getters) and pem blocks are dereferenced only when known non-nil, receivers of nil-safe methods excepted by a computed summary. (OWNERSHIP) decoders unmarshal into a zero message.",
		NotCov:      "third-party and standard-library decode internals (protobuf-go-lite, base58, s2, x509, asn1, pion, json) are the trusted base; resource use other than single-message allocation.",
		Technique:   "static analysis: compiler bounds-check-elimination listing (prove pass) as the obligation set, discharged by SSA path facts / fixed-length provenance / reviewed table; must-pass gates for size limits",
		Assumptions: commonAssumptions})
}

// vtSafeRecv: generated protobuf getters (GetX) and Size/Clone helpers check their receiver for nil.
func vtSafeRecv(f *types.Func) bool {
	n := f.Name()
	return strings.HasPrefix(n, "Get") || n == "SizeVT" || n == "CloneVT" || n == "EqualVT" || n == "MarshalVT" || n == "MarshalToSizedBufferVT" || n == "String" || n == "Reset" || n == "CheckValid" || n == "IsValid" || n == "AsTime"
}

// sizeVTSanity: in the generated SizeVT methods the argument of a varint-size computation is a field's own value or
// length, never the running total (the named result): a size that feeds on the total over-reports at varint boundaries
// and the length prefix written from SizeVT() no longer matches the bytes MarshalToSizedBufferVT produces.
func sizeVTSanity(c *an.Check, pkgs func(path string) bool) {
	p := c.P
	n, bad := 0, ""
	for path, pk := range p.All {
		if !strings.HasPrefix(path, an.Mod) || !pkgs(strings.TrimPrefix(path, an.Mod+"/")) || pk.TypesInfo == nil {
			continue
		}
		for _, f := range pk.Syntax {
			for _, d := range f.Decls {
				fd, ok := d.(*ast.FuncDecl)
				if !ok || fd.Name.Name != "SizeVT" || fd.Body == nil || fd.Type.Results == nil || len(fd.Type.Results.List) == 0 || len(fd.Type.Results.List[0].Names) == 0 {
					continue
				}
				res := pk.TypesInfo.Defs[fd.Type.Results.List[0].Names[0]]
				if res == nil {
					continue
				}
				n++
				ast.Inspect(fd.Body, func(nd ast.Node) bool {
					call, ok := nd.(*ast.CallExpr)
					if !ok {
						return true
					}
					name := ""
					switch fn := call.Fun.(type) {
					case *ast.SelectorExpr:
						name = fn.Sel.Name
					case *ast.Ident:
						name = fn.Name
					}
					if name != "SizeOfVarint" && name != "SizeOfZigzag" && name != "sov" {
						return true
					}
					for _, a := range call.Args {
						ast.Inspect(a, func(x ast.Node) bool {
							if id, ok := x.(*ast.Ident); ok && pk.TypesInfo.Uses[id] == res {
								bad = fmt.Sprintf("%s: a varint size is computed from the running total at %s", path, p.Fset.Position(id.Pos()))
							}
							return true
						})
					}
					return true
				})
			}
		}
	}
	// length-delimited fields: in `n += tag + l + SizeOfVarint(uint64(X))` the length prefix that is sized is the length
	// that is added (X == l); sizing another value under-/over-budgets the buffer for some field values
	nLen := 0
	for path, pk := range p.All {
		if !strings.HasPrefix(path, an.Mod) || !pkgs(strings.TrimPrefix(path, an.Mod+"/")) || pk.TypesInfo == nil {
			continue
		}
		for _, f := range pk.Syntax {
			for _, d := range f.Decls {
				fd, ok := d.(*ast.FuncDecl)
				if !ok || fd.Name.Name != "SizeVT" || fd.Body == nil {
					continue
				}
				ast.Inspect(fd.Body, func(nd ast.Node) bool {
					as, ok := nd.(*ast.AssignStmt)
					if !ok || as.Tok != token.ADD_ASSIGN || len(as.Rhs) != 1 {
						return true
					}
					var addends []ast.Expr
					var flat func(e ast.Expr)
					flat = func(e ast.Expr) {
						if be, ok := e.(*ast.BinaryExpr); ok && be.Op == token.ADD {
							flat(be.X)
							flat(be.Y)
							return
						}
						if pe, ok := e.(*ast.ParenExpr); ok {
							flat(pe.X)
							return
						}
						addends = append(addends, e)
					}
					flat(as.Rhs[0])
					var lens, sized []string
					for _, a := range addends {
						switch x := a.(type) {
						case *ast.Ident:
							if tv, ok := pk.TypesInfo.Types[x]; ok && tv.Value == nil {
								lens = append(lens, x.Name)
							}
						case *ast.CallExpr:
							name := ""
							switch fn := x.Fun.(type) {
							case *ast.SelectorExpr:
								name = fn.Sel.Name
							case *ast.Ident:
								name = fn.Name
							}
							if name == "len" && len(x.Args) == 1 {
								lens = append(lens, types.ExprString(x))
							}
							if (name == "SizeOfVarint" || name == "sov") && len(x.Args) == 1 {
								inner := x.Args[0]
								if conv, ok := inner.(*ast.CallExpr); ok && len(conv.Args) == 1 {
									inner = conv.Args[0]
								}
								sized = append(sized, types.ExprString(inner))
							}
						}
					}
					if len(lens) == 0 || len(sized) == 0 {
						return true
					}
					nLen++
					for _, l := range lens {
						found := false
						for _, sz := range sized {
							if sz == l {
								found = true
							}
						}
						if !found {
							bad = fmt.Sprintf("%s: at %s the field adds %s bytes but sizes the length prefix of %s", path, p.Fset.Position(as.Pos()), l, strings.Join(sized, ", "))
						}
					}
					return true
				})
			}
		}
	}
	c.Sites(nLen)
	c.Require(bad == "" && n >= 1, "SIBLING", "generated SizeVT methods size each field from its own value, never from the running total", nil, "", n, fmt.Sprintf("%d SizeVT methods", n), func() string {
		if bad != "" {
			return bad
		}
		return "no SizeVT methods found in the selected packages (anchor drift)"
	}())
}

// pbCodecSanity: structural agreement inside the generated protobuf codecs of the selected packages (they are part of
// every "survives the binary encoding" / "never panics on wire bytes" property although no hand-written file calls
// attention to them):
//   - (OWNERSHIP) UnmarshalVT copies bytes fields: nothing stored into the message aliases the input buffer;
//   - (SIBLING) a scalar field is encoded with the very conversion chain it is sized with (EncodeVarint argument in
//     MarshalToSizedBufferVT == SizeOfVarint argument in SizeVT);
//   - SizeVT never sizes a varint from its running total (sizeVTSanity).
func pbCodecSanity(c *an.Check, pkgs func(rel string) bool) {
	sizeVTSanity(c, pkgs)
	pbTagAgreement(c, pkgs)
	p := c.P
	// (a) no aliasing of the input buffer
	nU, badU := 0, ""
	for _, fn := range p.AllRepoFuncs() {
		if fn.Name() != "UnmarshalVT" || fn.Parent() != nil || fn.Signature.Recv() == nil || !pkgs(strings.TrimPrefix(fn.Pkg.Pkg.Path(), an.Mod+"/")) {
			continue
		}
		nU++
		for _, b := range an.ScanBlocks(fn) {
			for _, ins := range b.Instrs {
				st, ok := ins.(*ssa.Store)
				if !ok {
					continue
				}
				if _, isSlice := st.Val.Type().Underlying().(*types.Slice); !isSlice {
					continue
				}
				if _, isFA := st.Addr.(*ssa.FieldAddr); !isFA {
					continue
				}
				for r := range an.AliasRoots(st.Val) {
					if pr, isP := r.(*ssa.Parameter); isP && an.IsParam(pr, 1) {
						badU = fmt.Sprintf("%s stores a view of its input buffer into the message at %s: the decoded value changes when the caller reuses or wipes the buffer", an.FuncName(fn), p.Pos(st.Pos()))
					}
				}
			}
		}
	}
	c.Require(badU == "" && nU >= 1, "OWNERSHIP", "generated UnmarshalVT methods copy what they keep", nil, "", nU, fmt.Sprintf("%d UnmarshalVT methods: no stored slice aliases the input", nU), func() string {
		if badU != "" {
			return badU
		}
		return "no UnmarshalVT methods found (anchor drift)"
	}())
	// (a2) every sub-slice dAtA[i:post] with post = i + declaredLength is dominated by the two overflow guards
	// (post < 0 → error, post > len(dAtA) → error): the declared length comes off the wire
	nS, badS := 0, ""
	for _, fn := range p.AllRepoFuncs() {
		if fn.Name() != "UnmarshalVT" || fn.Parent() != nil || fn.Signature.Recv() == nil || !pkgs(strings.TrimPrefix(fn.Pkg.Pkg.Path(), an.Mod+"/")) {
			continue
		}
		st := p.NewState(fn)
		for _, b := range an.ScanBlocks(fn) {
			for _, ins := range b.Instrs {
				sl, ok := ins.(*ssa.Slice)
				if !ok || !an.IsParam(sl.X, 1) || sl.High == nil {
					continue
				}
				if bo, isAdd := sl.High.(*ssa.BinOp); !isAdd || bo.Op != token.ADD {
					continue
				}
				nS++
				nonNeg, inRange := false, false
				for _, dc := range an.DominatingConds(ins) {
					x, y, r, isCmp := st.CondRel(dc.Cond, dc.Want)
					if !isCmp {
						continue
					}
					hk := st.Key(sl.High)
					if st.Key(x) == hk && an.IsIntConst(y, 0) && r&an.LT == 0 {
						nonNeg = true
					}
					if st.Key(x) == hk && r&an.GT == 0 && an.LenOf(st, y, func(a ssa.Value) bool { return an.IsParam(a, 1) }) {
						inRange = true
					}
					if st.Key(y) == hk && r&an.LT == 0 && an.LenOf(st, x, func(a ssa.Value) bool { return an.IsParam(a, 1) }) {
						inRange = true
					}
				}
				if !nonNeg || !inRange {
					badS = fmt.Sprintf("%s slices its input at %s without the %s guard on the computed end index: a wire length near 2^63 (or past the buffer) panics", an.FuncName(fn), p.Pos(sl.Pos()), map[bool]string{true: "upper-bound", false: "overflow (end < 0)"}[nonNeg])
				}
			}
		}
	}
	c.Require(badS == "" && nS >= 1, "PANIC", "generated UnmarshalVT methods guard every length-delimited sub-slice", nil, "", nS, fmt.Sprintf("%d sub-slices dominated by end>=0 and end<=len(input)", nS), func() string {
		if badS != "" {
			return badS
		}
		return "no length-delimited sub-slices found (anchor drift)"
	}())
	// (b) encode / size agreement on scalar fields
	nM, badM := 0, ""
	for path, pk := range p.All {
		if !strings.HasPrefix(path, an.Mod) || !pkgs(strings.TrimPrefix(path, an.Mod+"/")) || pk.TypesInfo == nil {
			continue
		}
		type key struct{ recv string }
		enc, siz := map[string]map[string]bool{}, map[string]map[string]bool{}
		collect := func(fd *ast.FuncDecl, fnNames []string, argIdx int, into map[string]map[string]bool) {
			if fd.Recv == nil || len(fd.Recv.List) == 0 || fd.Body == nil {
				return
			}
			recvT := types.ExprString(fd.Recv.List[0].Type)
			recvName := ""
			if len(fd.Recv.List[0].Names) > 0 {
				recvName = fd.Recv.List[0].Names[0].Name
			}
			ast.Inspect(fd.Body, func(nd ast.Node) bool {
				call, ok := nd.(*ast.CallExpr)
				if !ok {
					return true
				}
				name := ""
				switch fn := call.Fun.(type) {
				case *ast.SelectorExpr:
					name = fn.Sel.Name
				case *ast.Ident:
					name = fn.Name
				}
				match := false
				for _, n := range fnNames {
					if n == name {
						match = true
					}
				}
				if !match || len(call.Args) <= argIdx {
					return true
				}
				a := types.ExprString(call.Args[argIdx])
				// only arguments that read a field of the receiver directly (not len(...) / local sizes)
				if recvName == "" || !strings.Contains(a, recvName+".") || strings.Contains(a, "len(") {
					return true
				}
				if into[recvT] == nil {
					into[recvT] = map[string]bool{}
				}
				into[recvT][a] = true
				return true
			})
		}
		for _, f := range pk.Syntax {
			for _, d := range f.Decls {
				fd, ok := d.(*ast.FuncDecl)
				if !ok {
					continue
				}
				switch fd.Name.Name {
				case "MarshalToSizedBufferVT":
					collect(fd, []string{"EncodeVarint"}, 2, enc)
				case "SizeVT":
					collect(fd, []string{"SizeOfVarint", "SizeOfZigzag"}, 0, siz)
				}
			}
		}
		for recv, es := range enc {
			nM++
			for e := range es {
				if !siz[recv][e] {
					badM = fmt.Sprintf("%s %s: MarshalToSizedBufferVT encodes %s but SizeVT does not size that expression: the buffer budget and the bytes written disagree for some values", path, recv, e)
				}
			}
		}
	}
	c.Require(badM == "", "SIBLING", "generated codecs encode scalar fields with the conversion they are sized with", nil, "", nM, fmt.Sprintf("%d message types", nM), badM)
}

// pbTag parses a generated `protobuf:"<wire>,<num>,…"` struct tag.
func pbTag(tag string) (num int, wire int, oneof bool, ok bool) {
	v := reflect.StructTag(tag).Get("protobuf")
	if v == "" {
		return 0, 0, false, false
	}
	parts := strings.Split(v, ",")
	if len(parts) < 2 {
		return 0, 0, false, false
	}
	n, err := strconv.Atoi(parts[1])
	if err != nil {
		return 0, 0, false, false
	}
	w := map[string]int{"varint": 0, "zigzag32": 0, "zigzag64": 0, "fixed64": 1, "bytes": 2, "group": 3, "fixed32": 5}
	wt, known := w[parts[0]]
	if !known {
		return 0, 0, false, false
	}
	for _, p := range parts[2:] {
		if p == "oneof" {
			oneof = true
		}
	}
	return n, wt, oneof, true
}

// pbTagAgreement: field numbers on the wire agree with the schema tags the generator wrote next to the fields —
//   - a oneof wrapper's encoder writes exactly the tag byte(s) of its own field (num<<3 | wire type);
//   - in every decoder, the `case N:` clause stores into the field / constructs the oneof wrapper whose schema number is N.
//
// (A clear that travels under the tag of an ack, or is decoded into the ack arm, acknowledges a message nobody received.)
func pbTagAgreement(c *an.Check, pkgs func(rel string) bool) {
	p := c.P
	nEnc, nDec, bad := 0, 0, ""
	for path, pk := range p.All {
		if !strings.HasPrefix(path, an.Mod) || !pkgs(strings.TrimPrefix(path, an.Mod+"/")) || pk.TypesInfo == nil || pk.Types == nil {
			continue
		}
		structOf := func(name string) *types.Struct {
			obj := pk.Types.Scope().Lookup(name)
			if obj == nil {
				return nil
			}
			st, _ := obj.Type().Underlying().(*types.Struct)
			return st
		}
		fieldTag := func(st *types.Struct, field string) (int, int, bool, bool) {
			for i := 0; i < st.NumFields(); i++ {
				if st.Field(i).Name() == field {
					return pbTag(st.Tag(i))
				}
			}
			return 0, 0, false, false
		}
		for _, f := range pk.Syntax {
			for _, d := range f.Decls {
				fd, ok := d.(*ast.FuncDecl)
				if !ok || fd.Recv == nil || fd.Body == nil || len(fd.Recv.List) == 0 {
					continue
				}
				recvT := strings.TrimPrefix(types.ExprString(fd.Recv.List[0].Type), "*")
				st := structOf(recvT)
				if st == nil {
					continue
				}
				switch fd.Name.Name {
				case "MarshalToSizedBufferVT":
					// oneof wrapper: exactly one tagged field, marked oneof
					var num, wire, tagged int
					isOneof := false
					for i := 0; i < st.NumFields(); i++ {
						if n, w, o, ok := pbTag(st.Tag(i)); ok {
							tagged++
							num, wire, isOneof = n, w, o
						}
					}
					if tagged != 1 || !isOneof || num >= 16 {
						continue
					}
					nEnc++
					want := int64(num<<3 | wire)
					found := false
					last := int64(-1)
					ast.Inspect(fd.Body, func(nd ast.Node) bool {
						as, ok := nd.(*ast.AssignStmt)
						if !ok || len(as.Lhs) != 1 || len(as.Rhs) != 1 {
							return true
						}
						if _, isIdx := as.Lhs[0].(*ast.IndexExpr); !isIdx {
							return true
						}
						tv, ok := pk.TypesInfo.Types[as.Rhs[0]]
						if !ok || tv.Value == nil {
							return true
						}
						v, exact := constant.Int64Val(tv.Value)
						if !exact {
							return true
						}
						found = true
						last = v // the tag is written last (the buffer is filled back to front)
						return true
					})
					if !found {
						bad = fmt.Sprintf("%s.%s: no tag byte written", path, recvT)
					} else if last != want {
						bad = fmt.Sprintf("%s.%s writes tag byte %#x for its field (schema number %d, wire type %d → %#x): the value travels under another field's number", path, recvT, last, num, wire, want)
					}
				case "UnmarshalVT":
					ast.Inspect(fd.Body, func(nd ast.Node) bool {
						cc, ok := nd.(*ast.CaseClause)
						if !ok || len(cc.List) != 1 {
							return true
						}
						tv, ok := pk.TypesInfo.Types[cc.List[0]]
						if !ok || tv.Value == nil || tv.Value.Kind() != constant.Int {
							return true
						}
						caseNum, _ := constant.Int64Val(tv.Value)
						for _, stmt := range cc.Body {
							ast.Inspect(stmt, func(x ast.Node) bool {
								switch e := x.(type) {
								case *ast.CompositeLit:
									tn := strings.TrimPrefix(types.ExprString(e.Type), "&")
									if ws := structOf(tn); ws != nil && ws.NumFields() == 1 {
										if n, _, o, ok := pbTag(ws.Tag(0)); ok && o {
											nDec++
											if int64(n) != caseNum {
												bad = fmt.Sprintf("%s.%s decodes wire field %d into the oneof arm %s (schema number %d)", path, recvT, caseNum, tn, n)
											}
										}
									}
								case *ast.AssignStmt:
									for _, lhs := range e.Lhs {
										se, ok := lhs.(*ast.SelectorExpr)
										if !ok {
											continue
										}
										if id, ok := se.X.(*ast.Ident); !ok || len(fd.Recv.List[0].Names) == 0 || id.Name != fd.Recv.List[0].Names[0].Name {
											continue
										}
										if n, _, o, ok := fieldTag(st, se.Sel.Name); ok && !o {
											nDec++
											if int64(n) != caseNum {
												bad = fmt.Sprintf("%s.%s decodes wire field %d into %s (schema number %d)", path, recvT, caseNum, se.Sel.Name, n)
											}
										}
									}
								}
								return true
							})
						}
						return false
					})
				}
			}
		}
	}
	c.Require(bad == "" && nDec >= 1, "SIBLING", "generated codecs use each field's own schema number on the wire", nil, "", nEnc+nDec, fmt.Sprintf("%d oneof encoders and %d decoder stores agree with the schema tags", nEnc, nDec), func() string {
		if bad != "" {
			return bad
		}
		return "no tagged decoder stores found (anchor drift)"
	}())
}

// nilProducers: pem.Decode (nil block when no PEM data is found) and generated getters of message-typed protobuf fields
// (nil when the field is absent on the wire).
func nilProducers(call *ssa.Call) bool {
	fo := an.CallObj(call.Common())
	if fo == nil {
		return false
	}
	if fo.Pkg() != nil && fo.Pkg().Path() == "encoding/pem" && fo.Name() == "Decode" {
		return true
	}
	if strings.HasPrefix(fo.Name(), "Get") && fo.Pkg() != nil && strings.HasPrefix(fo.Pkg().Path(), an.Mod) {
		sig := fo.Type().(*types.Signature)
		if sig.Recv() != nil && sig.Params().Len() == 0 && sig.Results().Len() == 1 {
			if pt, ok := sig.Results().At(0).Type().Underlying().(*types.Pointer); ok {
				if _, isStruct := pt.Elem().Underlying().(*types.Struct); isStruct {
					return true
				}
			}
		}
	}
	return false
}

// nilSafeRecv: a method tolerates a nil receiver when its body touches the receiver only by calling other nil-safe
// methods on it or comparing it (generated getters check for nil; so do hand-written validators built from getters).
func nilSafeRecv(p *an.Prog) func(*types.Func) bool {
	memo := map[*types.Func]bool{}
	var safe func(fo *types.Func, depth int) bool
	safe = func(fo *types.Func, depth int) bool {
		if vtSafeRecv(fo) {
			return true
		}
		if v, ok := memo[fo]; ok {
			return v
		}
		memo[fo] = true // optimistic for recursion
		fn := p.SSA.FuncValue(fo)
		ok := fn != nil && fn.Blocks != nil && len(fn.Params) > 0 && depth < 6
		if ok {
			recv := fn.Params[0]
			if recv.Referrers() != nil {
				for _, r := range *recv.Referrers() {
					switch x := r.(type) {
					case *ssa.Call:
						cc := x.Common()
						callee := an.CallObj(cc)
						isRecvUse := !cc.IsInvoke() && len(cc.Args) > 0 && cc.Args[0] == ssa.Value(recv) && callee != nil && callee.Type().(*types.Signature).Recv() != nil
						if !isRecvUse || !safe(callee, depth+1) {
							ok = false
						}
					case *ssa.BinOp, *ssa.DebugRef:
					case *ssa.MakeInterface, *ssa.ChangeInterface:
						ok = false
					default:
						ok = false
					}
				}
			}
		}
		memo[fo] = ok
		return ok
	}
	return func(fo *types.Func) bool { return safe(fo, 0) }
}
