package props

import (
	"fmt"
	"go/token"
	"strings"

	"bifrostverify/an"

	"golang.org/x/tools/go/ssa"
)

const circlSS = "github.com/cloudflare/circl/secretsharing"

var (
	cRecover        = an.X(circlSS, "", "Recover")
	cSSNew          = an.X(circlSS, "", "New")
	cSSShare        = an.X(circlSS, "SecretSharing", "Share")
	cGrantCtx       = an.Callee{Pkg: "./envelope", Name: "buildGrantEncContext"}
	cDeriveEnc      = an.Callee{Pkg: "./envelope", Name: "deriveEncKeyFromScalar"}
	cHashCtx        = an.Callee{Pkg: "./envelope", Name: "hashContext"}
	cDecryptPriv    = an.R("peer", "", "DecryptWithPrivKey")
	cEncryptPub     = an.R("peer", "", "EncryptToPubKey")
	cEnvGetThresh   = an.R("envelope", "Envelope", "GetThreshold")
	cEnvGetCtxHash  = an.R("envelope", "Envelope", "GetContextHash")
	cEnvGetEnvID    = an.R("envelope", "Envelope", "GetEnvelopeId")
	cEnvGetCipher   = an.R("envelope", "Envelope", "GetCiphertext")
	cConfGetThresh  = an.R("envelope", "EnvelopeConfig", "GetThreshold")
	cConfGetTotal   = an.R("envelope", "EnvelopeConfig", "GetTotalShares")
	cGCGetShareCnt  = an.R("envelope", "EnvelopeGrantConfig", "GetShareCount")
	cGCGetKPIndexes = an.R("envelope", "EnvelopeGrantConfig", "GetKeypairIndexes")
)

func envelopeFuncs(c *an.Check) (build, unlock *ssa.Function) {
	pbCodecSanity(c, func(rel string) bool { return rel == "envelope" })
	build = c.P.Func("envelope", "", "BuildEnvelope")
	unlock = c.P.Func("envelope", "", "UnlockEnvelope")
	if build == nil || unlock == nil {
		c.Undecided("GATE", "envelope.BuildEnvelope/UnlockEnvelope", nil, "unresolved anchor")
	}
	return
}

// unlockGates: the payload is returned only past every check (shared by C16 and C18).
func unlockGates(c *an.Check, unlock *ssa.Function) (openCall *ssa.Call) {
	for _, b := range an.ScanBlocks(unlock) {
		for _, ins := range b.Instrs {
			if isAEADCall(ins, "Open") {
				openCall = ins.(*ssa.Call)
			}
		}
	}
	isCollectedLen := func(s *an.State, v ssa.Value) bool {
		// len of a []secretsharing.Share
		l, ok := s.Canon(an.ConvOf(v)).(*ssa.Call)
		return ok && an.BuiltinName(l) == "len" && strings.HasSuffix(l.Call.Args[0].Type().String(), "secretsharing.Share")
	}
	isNeeded := func(s *an.State, v ssa.Value) bool {
		bo, ok := s.Canon(v).(*ssa.BinOp)
		return ok && bo.Op == token.ADD && an.ResultCallTo(s.Canon(bo.X), cEnvGetThresh) != nil && an.IsIntConst(bo.Y, 1)
	}
	c.Gate(an.GateSpec{Construct: "envelope.UnlockEnvelope payload return", Fn: unlock,
		Sink: func(s *an.State, ins ssa.Instruction) bool {
			ret, ok := ins.(*ssa.Return)
			return ok && !s.IsNil(s.RetVal(ret, 0))
		},
		Reqs: []an.Req{
			{Name: "bytes.Equal(envelope context hash, hash(context)) is true", Holds: func(s *an.State, at ssa.Instruction) bool {
				for _, call := range an.Calls(unlock, an.X("bytes", "", "Equal")) {
					a, b := s.Canon(call.Call.Args[0]), s.Canon(call.Call.Args[1])
					isStored := func(v ssa.Value) bool { return an.ResultCallTo(v, cEnvGetCtxHash) != nil }
					isExp := func(v ssa.Value) bool {
						h := an.ResultCallTo(v, cHashCtx)
						return h != nil && an.IsParam(h.Call.Args[0], 0)
					}
					if s.IsTrue(call) && ((isStored(a) && isExp(b)) || (isStored(b) && isExp(a))) {
						return true
					}
				}
				return false
			}},
			an.FactReq("collected shares >= threshold+1", func(s *an.State, x, y ssa.Value, r an.Rel) bool {
				return isCollectedLen(s, x) && isNeeded(s, y) && r != an.ANY && r&an.LT == 0
			}),
			an.CallOK("secretsharing.Recover ok", cRecover),
			{Name: "AEAD.Open ok", Holds: func(s *an.State, at ssa.Instruction) bool {
				return openCall != nil && s.IsNil(an.ErrResult(openCall, -1))
			}},
		}})
	return openCall
}

// seenSetScope: the de-duplication set of UnlockEnvelope is ONE map for the whole call — allocated outside every loop — so
// that equal share ids are filtered across grants, not only within one (secretsharing.Recover panics on duplicates).
func seenSetScope(c *an.Check, unlock *ssa.Function) {
	n, bad := 0, ""
	for _, b := range an.ScanBlocks(unlock) {
		for _, ins := range b.Instrs {
			lk, ok := ins.(*ssa.Lookup)
			if !ok || !lk.CommaOk {
				continue
			}
			mm, isMake := lk.X.(*ssa.MakeMap)
			if !isMake {
				continue
			}
			n++
			if an.InnermostLoop(unlock, mm.Block()) != nil {
				bad = fmt.Sprintf("the seen-set is allocated inside a loop at %s: share ids are de-duplicated per grant only, duplicates across grants reach secretsharing.Recover (which panics)", c.P.Pos(mm.Pos()))
			}
		}
	}
	c.Require(bad == "" && n == 1, "LOOPALLOC", "envelope.UnlockEnvelope de-duplicates share ids across all grants", unlock, "", n, "one seen-set, allocated outside every loop", func() string {
		if bad != "" {
			return bad
		}
		return "de-duplication lookup not found (anchor drift)"
	}())
}

// grantPlaintextNonNil: UnlockEnvelope uses "decrypted data == nil" as its could-not-decrypt sentinel; the decrypt chain
// must therefore return non-nil data for an empty grant body: s2.Decode is given a non-nil destination.
func grantPlaintextNonNil(c *an.Check) {
	dec := c.P.Func("peer", "", "DecryptWithEd25519")
	n, bad := 0, ""
	if dec != nil {
		for _, call := range an.Calls(dec, an.X("github.com/klauspost/compress/s2", "", "Decode")) {
			n++
			if isNilConst(call.Call.Args[0]) {
				bad = "s2.Decode is called with a nil destination: an empty plaintext decodes to a nil slice, which UnlockEnvelope reads as 'grant could not be decrypted'"
			}
		}
	}
	c.Require(bad == "" && n == 1, "PROVENANCE", "peer.DecryptWithEd25519 returns non-nil data for an empty plaintext", dec, "", n, "s2.Decode(dst != nil, …)", func() string {
		if bad != "" {
			return bad
		}
		return "s2.Decode call not found (anchor drift)"
	}())
}

func c16(c *an.Check) {
	p := c.P
	build, unlock := envelopeFuncs(c)
	if build == nil || unlock == nil {
		return
	}
	openCall := unlockGates(c, unlock)
	seenSetScope(c, unlock)
	grantPlaintextNonNil(c)
	decryptInputUntouched(c)
	// what is returned is what Open authenticated; Recover gets (threshold, collected)
	c.EachReturn("PROVENANCE", "envelope.UnlockEnvelope returns the AEAD plaintext", unlock, "payload = Open(...)", func(s *an.State, ret *ssa.Return) string {
		v := s.RetVal(ret, 0)
		if s.IsNil(v) {
			return ""
		}
		if openCall == nil || s.Key(v) != s.Key(an.ErrResult(openCall, 0)) {
			return "a non-nil payload that is not the result of AEAD.Open is returned"
		}
		return ""
	})
	rc := an.Calls(unlock, cRecover)
	okR := len(rc) == 1 && an.ResultCallTo(an.ConvOf(rc[0].Call.Args[0]), cEnvGetThresh) != nil && strings.HasSuffix(rc[0].Call.Args[1].Type().String(), "secretsharing.Share")
	c.Require(okR, "PROVENANCE", "envelope.UnlockEnvelope recovers with (envelope threshold, collected shares)", unlock, "", len(rc), "Recover(uint(env.GetThreshold()), collected)", "Recover is not applied to the envelope's threshold and the collected shares")
	// key derivation from the recovered scalar, bound to envelope id and context
	dk := an.Calls(unlock, cDeriveEnc)
	okD := len(dk) == 1 && openCall != nil
	if okD {
		a := dk[0].Call.Args
		okD = p.DependsOn(a[0], func(v ssa.Value) bool { return an.ResultCallTo(v, cRecover) != nil }) && an.ResultCallTo(a[1], cEnvGetEnvID) != nil && an.IsParam(a[2], 0)
		okD = okD && p.DependsOn(openCall.Call.Value, func(v ssa.Value) bool { return v == ssa.Value(dk[0]) })
	}
	c.Require(okD, "PROVENANCE", "envelope.UnlockEnvelope opens with the key derived from the recovered scalar", unlock, "", len(dk), "AEAD key = derive(Recover(...), envelope id, context)", "the AEAD key does not derive from (recovered scalar, envelope id, context parameter)")

	// collected: append only past the de-duplication test, and seen is updated on that path with the same key
	var appends []*ssa.Call
	for _, b := range an.ScanBlocks(unlock) {
		for _, ins := range b.Instrs {
			if call, ok := ins.(*ssa.Call); ok && an.BuiltinName(call) == "append" && strings.HasSuffix(call.Type().String(), "secretsharing.Share") {
				appends = append(appends, call)
			}
		}
	}
	var seenUpd *ssa.MapUpdate
	var seenLook []*ssa.Lookup
	for _, b := range an.ScanBlocks(unlock) {
		for _, ins := range b.Instrs {
			switch x := ins.(type) {
			case *ssa.MapUpdate:
				if _, isMake := x.Map.(*ssa.MakeMap); isMake {
					seenUpd = x
				}
			case *ssa.Lookup:
				if _, isMake := x.X.(*ssa.MakeMap); isMake && x.CommaOk {
					seenLook = append(seenLook, x)
				}
			}
		}
	}
	if len(appends) != 1 || seenUpd == nil || len(seenLook) != 1 {
		c.Undecided("GATE", "envelope.UnlockEnvelope share collection", unlock, "unresolved anchor: expected one append to the share list, one seen-map update and one seen-map lookup")
	} else {
		ap, lk := appends[0], seenLook[0]
		c.Gate(an.GateSpec{Construct: "envelope.UnlockEnvelope share collection", Fn: unlock,
			Sink: func(s *an.State, ins ssa.Instruction) bool { return ins == ssa.Instruction(ap) },
			Reqs: []an.Req{
				{Name: "share id not seen before (lookup ok==false)", Holds: func(s *an.State, at ssa.Instruction) bool {
					for _, r := range *lk.Referrers() {
						if e, ok := r.(*ssa.Extract); ok && e.Index == 1 && s.IsFalse(e) {
							return true
						}
					}
					return false
				}},
				{Name: "seen updated with the looked-up key before collecting", Holds: func(s *an.State, at ssa.Instruction) bool {
					return s.ExecutedSince(at, lk, func(ins ssa.Instruction) bool {
						return ins == ssa.Instruction(seenUpd) && s.Key(seenUpd.Key) == s.Key(lk.Index)
					})
				}},
				an.Req{Name: "both scalars decoded without error", Holds: func(s *an.State, at ssa.Instruction) bool {
					n := 0
					for _, b := range an.ScanBlocks(unlock) {
						for _, ins := range b.Instrs {
							if call, ok := ins.(*ssa.Call); ok && call.Call.IsInvoke() && call.Call.Method.Name() == "UnmarshalBinary" && s.IsNil(call) {
								n++
							}
						}
					}
					return n >= 2
				}},
			}})
		// de-duplication key is the canonical re-encoding of the decoded id scalar
		okK := p.DependsOn(lk.Index, func(v ssa.Value) bool {
			call, ok := v.(*ssa.Call)
			return ok && call.Call.IsInvoke() && call.Call.Method.Name() == "MarshalBinary"
		})
		c.Require(okK, "PROVENANCE", "envelope.UnlockEnvelope de-duplicates by the canonical encoding of the decoded share id", unlock, "", 1, "seen key derives from id.MarshalBinary() of the decoded scalar", "the de-duplication key is the raw wire bytes: two encodings of one id both reach secretsharing.Recover, which panics on duplicate ids")
		// freshness: the scalars stored in an appended share are created in the same (innermost) loop iteration
		inner := an.InnermostLoop(unlock, ap.Block())
		fresh := inner != nil
		nNew := 0
		if fresh {
			var elem ssa.Value
			if el := p.SliceLitElems(ap.Call.Args[1]); len(el) == 1 {
				elem = el[0]
			}
			_ = elem
			// the Share literal's fields: find stores into the appended element's ID/Value fields
			for _, b := range an.ScanBlocks(unlock) {
				for _, ins := range b.Instrs {
					st, ok := ins.(*ssa.Store)
					if !ok {
						continue
					}
					fa, ok := st.Addr.(*ssa.FieldAddr)
					if !ok || !strings.HasSuffix(fa.X.Type().String(), "secretsharing.Share") {
						continue
					}
					if newScalarInLoop(st.Val, inner) {
						nNew++
					} else {
						fresh = false
					}
				}
			}
		}
		c.Require(fresh && nNew == 2, "LOOPALLOC", "envelope.UnlockEnvelope gives every collected share its own scalars", unlock, "", nNew, "ID and Value scalars are allocated in the per-share loop iteration that appends them", "a scalar object stored in collected shares is allocated outside the per-share loop (all shares of a grant would alias one value)")
	}
	// result fields
	okRes := false
	for _, b := range an.ScanBlocks(unlock) {
		for _, ins := range b.Instrs {
			st, ok := ins.(*ssa.Store)
			if !ok {
				continue
			}
			if f := an.FieldOfAddr(st.Addr); f != nil && f.Name() == "SharesAvailable" {
				l, isLen := an.ConvOf(st.Val).(*ssa.Call)
				okRes = isLen && an.BuiltinName(l) == "len" && strings.HasSuffix(l.Call.Args[0].Type().String(), "secretsharing.Share")
			}
		}
	}
	c.Require(okRes, "PROVENANCE", "envelope.UnlockEnvelope reports the number of collected shares", unlock, "", 1, "SharesAvailable = len(collected)", "SharesAvailable is not the number of collected shares")
	// a grant's shares are decrypted with a key matched to one of the grant's keypair indexes, under the grant's context
	dc := an.Calls(unlock, cDecryptPriv)
	gc := an.Calls(unlock, cGrantCtx)
	okG := len(dc) == 1 && len(gc) == 1 && dc[0].Call.Args[1] == ssa.Value(gc[0]) && an.ResultCallTo(gc[0].Call.Args[0], cEnvGetEnvID) != nil && an.IsParam(gc[0].Call.Args[1], 0)
	c.Require(okG, "PROVENANCE", "envelope.UnlockEnvelope decrypts each grant under buildGrantEncContext(envelope id, context, grant index)", unlock, "", 2, "DecryptWithPrivKey(key, grantCtx(env id, context, gi), ciphertext)", "grant decryption context is not built from (envelope id, context parameter, grant index)")

	// BuildEnvelope: a fresh grant body per grant
	freshInner := false
	nInner := 0
	for _, b := range an.ScanBlocks(build) {
		for _, ins := range b.Instrs {
			if a, ok := ins.(*ssa.Alloc); ok && a.Heap && strings.HasSuffix(a.Type().String(), "EnvelopeGrantInner") {
				nInner++
				freshInner = an.InnermostLoop(build, a.Block()) != nil
			}
		}
	}
	c.Require(freshInner && nInner == 1, "LOOPALLOC", "envelope.BuildEnvelope starts each grant with an empty share list", build, "", nInner, "the grant body is allocated inside the per-grant loop", "the grant body is allocated once outside the per-grant loop: later grants would also carry the shares of earlier ones")
	thoroughCallers(c, "envelope unsealing", 0, []string{"envelope"}, an.R("envelope", "", "UnlockEnvelope"), an.R("envelope", "", "BuildEnvelope"))
	c.Note("C16 decides structure only; the exact counting ('exactly when') over configurations is a value-level statement")
	_ = fmt.Sprint
}

// shareScalarFreshness: every scalar object stored into a collected secretsharing.Share is allocated in the innermost loop
// iteration that stores it (the circl scalars are pointers filled in place: one object shared by several shares makes them
// all carry the last value).
func shareScalarFreshness(c *an.Check, unlock *ssa.Function) {
	nNew, fresh := 0, true
	for _, b := range an.ScanBlocks(unlock) {
		for _, ins := range b.Instrs {
			st, ok := ins.(*ssa.Store)
			if !ok {
				continue
			}
			fa, ok := st.Addr.(*ssa.FieldAddr)
			if !ok || !strings.HasSuffix(fa.X.Type().String(), "secretsharing.Share") {
				continue
			}
			inner := an.InnermostLoop(unlock, st.Block())
			if newScalarInLoop(st.Val, inner) {
				nNew++
			} else {
				fresh = false
			}
		}
	}
	c.Require(fresh && nNew == 2, "LOOPALLOC", "envelope.UnlockEnvelope gives every collected share its own scalars", unlock, "", nNew, "ID and Value scalars are allocated in the per-share loop iteration that appends them", "a scalar object stored in collected shares is allocated outside the per-share loop (all shares of a grant would alias one value)")
}

func c17(c *an.Check) {
	p := c.P
	build, unlockFn := envelopeFuncs(c)
	if build == nil {
		return
	}
	if unlockFn != nil {
		// an accepted configuration opens only if the shares collected from one grant keep their own values
		shareScalarFreshness(c, unlockFn)
		decryptInputUntouched(c)
	}
	share := an.Calls(build, cSSShare)
	ssnew := an.Calls(build, cSSNew)
	if len(share) != 1 || len(ssnew) != 1 {
		c.Undecided("PROVENANCE", "envelope.BuildEnvelope share generation", build, "unresolved anchor: expected one secretsharing.New and one Share call")
		return
	}
	generated := an.ConvOf(share[0].Call.Args[1]) // number of shares generated
	thr := an.ConvOf(ssnew[0].Call.Args[1])
	st0 := p.NewState(build)
	c.Require(an.ResultCallTo(thr, cConfGetThresh) != nil, "PROVENANCE", "envelope.BuildEnvelope splits with the configured threshold", build, "", 1, "secretsharing.New(rnd, uint(config.GetThreshold()), secret)", "the sharing threshold is not the configured threshold")
	// the threshold test: sealing only past usable > threshold, where usable is bounded by what recipients can reach
	var usable ssa.Value
	c.Gate(an.GateSpec{Construct: "envelope.BuildEnvelope share generation", Fn: build,
		Sink: func(s *an.State, ins ssa.Instruction) bool { return ins == ssa.Instruction(share[0]) },
		Reqs: []an.Req{an.FactReq("reachable shares > threshold", func(s *an.State, x, y ssa.Value, r an.Rel) bool {
			if r != an.GT || s.Key(an.ConvOf(y)) != s.Key(thr) && an.ResultCallTo(s.Canon(an.ConvOf(y)), cConfGetThresh) == nil {
				return false
			}
			usable = x
			return true
		})}})
	if usable == nil {
		return
	}
	// provenance of the compared quantity (resolve the loop-exit phi statically: walk the phi web)
	phis := map[*ssa.Phi]bool{}
	var incs []*ssa.BinOp
	var walk func(v ssa.Value)
	walk = func(v ssa.Value) {
		switch x := v.(type) {
		case *ssa.Phi:
			if phis[x] {
				return
			}
			phis[x] = true
			for _, e := range x.Edges {
				walk(e)
			}
		case *ssa.BinOp:
			if x.Op == token.ADD {
				incs = append(incs, x)
				walk(x.X)
			}
		case *ssa.Call:
			// the count may be computed by a private helper: continue in what it returns
			if h := x.Call.StaticCallee(); h != nil && h.Pkg == build.Pkg && h.Parent() == nil && len(h.Blocks) > 0 && h.Signature.Results().Len() == 1 {
				if n := h.Name(); n != "" && n[0] >= 'a' && n[0] <= 'z' {
					for _, hb := range h.Blocks {
						for _, hi := range hb.Instrs {
							if r, ok := hi.(*ssa.Return); ok && len(r.Results) == 1 {
								walk(r.Results[0])
							}
						}
					}
				}
			}
		}
	}
	// usable on the path is a canonical value; find the phi web it belongs to
	for _, b := range an.ScanBlocks(build) {
		for _, ins := range b.Instrs {
			if bo, ok := ins.(*ssa.BinOp); ok {
				if _, isCmp := map[token.Token]bool{token.LEQ: true, token.LSS: true, token.GTR: true, token.GEQ: true}[bo.Op]; isCmp {
					for _, side := range [][2]ssa.Value{{bo.X, bo.Y}, {bo.Y, bo.X}} {
						if an.ResultCallTo(st0.Canon(an.ConvOf(side[1])), cConfGetThresh) != nil {
							walk(side[0])
						}
					}
				}
			}
		}
	}
	ok, why := len(incs) >= 1, "the quantity compared with the threshold is not an accumulated count"
	for _, inc := range incs {
		// (a) the increment is min(share count, remaining budget)
		m, isCall := inc.Y.(*ssa.Call)
		if !isCall || an.BuiltinName(m) != "min" {
			ok, why = false, "an increment of the reachable-share count is not min(grant share count, remaining budget)"
			continue
		}
		dependsCnt := p.DependsOn(m, func(v ssa.Value) bool { return an.ResultCallTo(v, cGCGetShareCnt) != nil })
		// remaining budget: a phi web initialised with the number of shares generated
		budgetOK := false
		for _, a := range m.Call.Args {
			if ph, isPhi := a.(*ssa.Phi); isPhi {
				for _, e := range ph.Edges {
					if st0.Key(an.ConvOf(e)) == st0.Key(generated) || e == generated {
						budgetOK = true
					}
				}
			}
		}
		if !dependsCnt {
			ok, why = false, "the increment does not depend on the grant's share count"
		}
		if !budgetOK {
			ok, why = false, "the remaining-share budget is not initialised with the number of shares that are actually generated (Share(n) argument)"
		}
		// (b) the increment is control-dependent on the grant having at least one keypair
		guarded := false
		for _, pb := range inc.Block().Preds {
			if iff, isIf := pb.Instrs[len(pb.Instrs)-1].(*ssa.If); isIf {
				if p.DependsOn(iff.Cond, func(v ssa.Value) bool { return an.ResultCallTo(v, cGCGetKPIndexes) != nil }) {
					guarded = true
				}
			}
		}
		if !guarded {
			ok, why = false, "shares of grants without any keypair are counted as reachable"
		}
	}
	c.Require(ok, "PROVENANCE", "envelope.BuildEnvelope compares the threshold with the shares recipients can reach", build, "", len(incs), "reachable = Σ min(shareCount, remaining budget) over grants with ≥1 keypair; budget = number of shares generated", why)
	// the distribution loop hands out shares in grant order bounded by share count and the generated list
	okDist := false
	for _, b := range an.ScanBlocks(build) {
		for _, ins := range b.Instrs {
			if ia, isIA := ins.(*ssa.IndexAddr); isIA && ia.X == ssa.Value(share[0]) {
				okDist = true
			}
			if ia, isIA := ins.(*ssa.Index); isIA && ia.X == ssa.Value(share[0]) {
				okDist = true
			}
		}
	}
	c.Require(okDist, "PROVENANCE", "envelope.BuildEnvelope distributes the generated shares", build, "", 1, "grants are filled from the Share(n) result", "the grants are not filled from the generated share list")
	buildDistribution(c, build, share[0])
	c.Note("not decided: that the validation loop's model (grant order, min(count,budget)) equals the distribution loop for every configuration — structure only")
}

// idxLoad: v is a load of base[index] (through &base[index]); returns base and index.
func idxLoad(v ssa.Value) (base, index ssa.Value, ok bool) {
	u, isLoad := v.(*ssa.UnOp)
	if !isLoad || u.Op != token.MUL {
		return nil, nil, false
	}
	ia, isIA := u.X.(*ssa.IndexAddr)
	if !isIA {
		return nil, nil, false
	}
	return ia.X, ia.Index, true
}

// buildDistribution decides the wiring of BuildEnvelope's distribution loop: every handed share is (ID, Value) of ONE
// generated share, the share cursor advances by one per handed share, each grant body is encrypted to exactly the
// keypairs its configuration names, under the context of its own grant index, and is stored with those indexes at that
// grant index; the envelope records the configured threshold and the keypairs in their given order.
func buildDistribution(c *an.Check, build *ssa.Function, shares *ssa.Call) {
	p := c.P
	req := func(ok bool, construct, expect, why string) {
		c.Require(ok, "PROVENANCE", construct, build, "", 1, expect, why)
	}
	fieldStores := func(typ string) map[string]ssa.Value {
		out := map[string]ssa.Value{}
		for _, b := range an.ScanBlocks(build) {
			for _, ins := range b.Instrs {
				st, ok := ins.(*ssa.Store)
				if !ok {
					continue
				}
				fa, ok := st.Addr.(*ssa.FieldAddr)
				if !ok {
					continue
				}
				if al, isAl := fa.X.(*ssa.Alloc); isAl && isNamedPtr(al.Type(), typ) {
					if f := an.FieldOfAddr(fa); f != nil {
						out[f.Name()] = st.Val
					}
				}
			}
		}
		return out
	}
	marshalOf := func(v ssa.Value, field string) (idx ssa.Value, ok bool) {
		e, isE := v.(*ssa.Extract)
		if !isE || e.Index != 0 {
			return nil, false
		}
		call, isCall := e.Tuple.(*ssa.Call)
		if !isCall || !call.Call.IsInvoke() || call.Call.Method.Name() != "MarshalBinary" {
			return nil, false
		}
		u, isLoad := call.Call.Value.(*ssa.UnOp)
		if !isLoad {
			return nil, false
		}
		fa, isFA := u.X.(*ssa.FieldAddr)
		if !isFA || an.FieldOfAddr(fa) == nil || an.FieldOfAddr(fa).Name() != field {
			return nil, false
		}
		ia, isIA := fa.X.(*ssa.IndexAddr)
		if !isIA || ia.X != ssa.Value(shares) {
			return nil, false
		}
		return ia.Index, true
	}
	// (1) a handed share is (ID, Value) of one generated share
	es := fieldStores("EnvelopeShare")
	idI, ok1 := marshalOf(es["Id"], "ID")
	idV, ok2 := marshalOf(es["Value"], "Value")
	req(ok1 && ok2 && idI == idV, "envelope.BuildEnvelope hands out (ID, Value) of one generated share", "EnvelopeShare{Id: shares[k].ID, Value: shares[k].Value} with the same k", "the id and the value placed in a grant do not come from the same generated share")
	// (2) the cursor k advances by exactly one in the block that appends the share
	adv := false
	if ph, isPhi := idI.(*ssa.Phi); isPhi && ok1 {
		for _, e := range ph.Edges {
			if bo, isBO := e.(*ssa.BinOp); isBO && bo.Op == token.ADD && bo.X == ssa.Value(ph) && an.IsIntConst(bo.Y, 1) {
				// in the same block as the store of the share's Id
				for _, ins := range bo.Block().Instrs {
					if st, isSt := ins.(*ssa.Store); isSt && st.Val == es["Id"] {
						adv = true
					}
				}
			}
		}
	}
	req(adv, "envelope.BuildEnvelope advances the share cursor by one per handed share", "k = k+1 in the block that appends shares[k]", "the share cursor is not advanced with every handed share: grants would receive the same share twice (or skip shares)")
	// (3) encryption wiring
	encs := an.Calls(build, an.R("peer", "", "EncryptToPubKey"))
	okE, whyE := len(encs) == 1, "expected exactly one EncryptToPubKey call"
	var gi, kpIdxs, rangeIdx, inner ssa.Value
	if okE {
		e := encs[0]
		// recipient = keypairs[ kpIndexes[r] ]
		base, idx, ok := idxLoad(e.Call.Args[0])
		if !ok || !an.IsParam(base, 3) {
			okE, whyE = false, "the recipient key is not an element of the keypairs argument"
		} else if b2, r, ok := idxLoad(an.ConvOf(idx)); !ok || an.ResultCallTo(b2, cGCGetKPIndexes) == nil {
			okE, whyE = false, "the recipient index is not an element of the grant configuration's keypair indexes"
		} else {
			kpIdxs, rangeIdx = b2, r
		}
		// context = buildGrantEncContext(envelopeID, context, gi)
		if cc := an.ResultCallTo(e.Call.Args[1], an.R("envelope", "", "buildGrantEncContext")); cc == nil || !an.IsParam(cc.Call.Args[1], 1) {
			okE, whyE = false, "the grant is not encrypted under buildGrantEncContext(envelope id, caller context, grant index)"
		} else {
			gi = cc.Call.Args[2]
		}
		// plaintext = inner.MarshalVT()
		if ex, isE := e.Call.Args[2].(*ssa.Extract); isE && ex.Index == 0 {
			if mc, isC := ex.Tuple.(*ssa.Call); isC && an.CallObj(mc.Common()) != nil && an.CallObj(mc.Common()).Name() == "MarshalVT" {
				inner = mc.Call.Args[0]
			}
		}
		if inner == nil {
			okE, whyE = false, "the encrypted plaintext is not the marshalled grant body"
		}
	}
	if okE {
		// the grant body encrypted is the one that received the shares
		recv := false
		for _, b := range an.ScanBlocks(build) {
			for _, ins := range b.Instrs {
				if st, isSt := ins.(*ssa.Store); isSt {
					if fa, isFA := st.Addr.(*ssa.FieldAddr); isFA && fa.X == inner && an.FieldOfAddr(fa) != nil && an.FieldOfAddr(fa).Name() == "Shares" {
						if p.DependsOn(st.Val, func(v ssa.Value) bool {
							al, isAl := v.(*ssa.Alloc)
							return isAl && isNamedPtr(al.Type(), "EnvelopeShare")
						}) {
							recv = true
						}
					}
				}
			}
		}
		if !recv {
			okE, whyE = false, "the grant body that is encrypted is not the one the shares were appended to"
		}
		// kpIndexes belong to the grant configuration at index gi
		kc := an.ResultCallTo(kpIdxs, cGCGetKPIndexes)
		if b, i, ok := idxLoad(kc.Call.Args[0]); !ok || i != gi || an.ResultCallTo(b, an.R("envelope", "EnvelopeConfig", "GetGrantConfigs")) == nil {
			okE, whyE = false, "the keypair indexes / the context index do not belong to the same grant configuration"
		}
	}
	req(okE, "envelope.BuildEnvelope encrypts each grant body to its configured keypairs under its own grant context", "EncryptToPubKey(keypairs[cfg[gi].KeypairIndexes[r]], buildGrantEncContext(id, context, gi), inner.MarshalVT())", whyE)
	// (4) storage wiring: ciphertexts[r] = ct; EnvelopeGrant{KeypairIndexes: kpIndexes, Ciphertexts: ciphertexts}; envGrants[gi] = grant
	okS, whyS := okE, "encryption wiring unresolved"
	if okE {
		var cts ssa.Value
		for _, b := range an.ScanBlocks(build) {
			for _, ins := range b.Instrs {
				st, isSt := ins.(*ssa.Store)
				if !isSt {
					continue
				}
				if ex, isE := st.Val.(*ssa.Extract); isE && ex.Index == 0 && ex.Tuple == ssa.Value(encs[0]) {
					if ia, isIA := st.Addr.(*ssa.IndexAddr); isIA && ia.Index == rangeIdx {
						cts = ia.X
					} else {
						okS, whyS = false, "a grant ciphertext is not stored at the position of the keypair index it was encrypted for"
					}
				}
			}
		}
		eg := fieldStores("EnvelopeGrant")
		if cts == nil || eg["Ciphertexts"] != cts || eg["KeypairIndexes"] != kpIdxs {
			okS, whyS = false, "the grant does not carry (its keypair indexes, the ciphertexts made for them) as parallel lists"
		}
		placed := false
		for _, b := range an.ScanBlocks(build) {
			for _, ins := range b.Instrs {
				if st, isSt := ins.(*ssa.Store); isSt {
					if al, isAl := st.Val.(*ssa.Alloc); isAl && isNamedPtr(al.Type(), "EnvelopeGrant") {
						if ia, isIA := st.Addr.(*ssa.IndexAddr); isIA && ia.Index == gi {
							placed = true
						}
					}
				}
			}
		}
		if okS && !placed {
			okS, whyS = false, "the grant is not stored at its own grant index (the unlock side derives the decryption context from that index)"
		}
	}
	req(okS, "envelope.BuildEnvelope stores each grant at its index with parallel (keypair index, ciphertext) lists", "ciphertexts[r] = ct(r); grants[gi] = {KeypairIndexes, Ciphertexts}", whyS)
	// (5) envelope record: configured threshold, keypairs in order
	ev := fieldStores("Envelope")
	okT := ev["Threshold"] != nil && an.ResultCallTo(an.ConvOf(ev["Threshold"]), cConfGetThresh) != nil
	okK := false
	for _, b := range an.ScanBlocks(build) {
		for _, ins := range b.Instrs {
			st, isSt := ins.(*ssa.Store)
			if !isSt {
				continue
			}
			al, isAl := st.Val.(*ssa.Alloc)
			if !isAl || !isNamedPtr(al.Type(), "EnvelopeKeypair") {
				continue
			}
			ia, isIA := st.Addr.(*ssa.IndexAddr)
			if !isIA || ia.X != ev["Keypairs"] {
				continue
			}
			// PubKey = MarshalPubKeyPem(keypairs[same index])
			for _, r := range *al.Referrers() {
				if fa, isFA := r.(*ssa.FieldAddr); isFA {
					for _, rr := range *fa.Referrers() {
						if s2, isS := rr.(*ssa.Store); isS {
							if mc := an.ResultCallTo(s2.Val, an.R("keypem", "", "MarshalPubKeyPem")); mc != nil {
								if base, idx, ok := idxLoad(mc.Call.Args[0]); ok && an.IsParam(base, 3) && idx == ia.Index {
									okK = true
								}
							}
						}
					}
				}
			}
		}
	}
	req(okT && okK, "envelope.BuildEnvelope records the configured threshold and the keypairs in their given order", "Envelope{Threshold: config.GetThreshold(), Keypairs[i] = PEM(keypairs[i])}", "the envelope's threshold is not the configured one, or keypair i of the envelope is not keypairs[i] (grant indexes would point at the wrong recipients)")
}

func init() {
	register(&Def{ID: "C16", Run: c16,
		Explain:     "Decides on SSA: (R1) UnlockEnvelope returns a payload only past {context hash equal, len(collected) >= threshold+1, Recover ok, AEAD.Open ok} and the payload is Open's result under the key derived from (recovered scalar, envelope id, context); a share is collected only past the not-seen test with the seen-set updated under the same key, which is the canonical re-encoding of the decoded id; (LOOPALLOC) every collected share gets scalars allocated in its own loop iteration and BuildEnvelope allocates a fresh grant body per grant; SharesAvailable = len(collected); grants are decrypted under buildGrantEncContext(envelope id, context, grant index). (LOOPALLOC) one seen-set for the whole call (allocated outside every loop); (PROVENANCE) the grant decryption chain hands s2.Decode a non-nil destination, so an empty grant body is not mistaken for 'could not decrypt'. Generated codec sanity for package envelope; the decrypt chain leaves the grant ciphertext untouched.",
		NotCov:      "the 'exactly when' counting over all configurations and Shamir reconstruction itself (value-level / trusted library).",
		Assumptions: commonAssumptions})
	register(&Def{ID: "C17", Run: c17,
		Explain:     "Decides on SSA for BuildEnvelope: share generation is reached only past 'reachable > threshold', where the compared quantity is an accumulation whose every increment is min(grant share count, remaining budget), is control-dependent on the grant having at least one keypair index, and whose budget is initialised with the very value passed to Share(n) (so an override or a different count cannot diverge between validation and generation); the sharing threshold is the configured one; grants are filled from the generated list. (LOOPALLOC) every collected share has scalars of its own; (PROVENANCE) the distribution loop hands out (ID, Value) of one generated share, advances its cursor by one per handed share, encrypts each grant body to keypairs[cfg[gi].KeypairIndexes[r]] under buildGrantEncContext(id, context, gi), stores ciphertext r at position r and the grant at index gi, and records the configured threshold and the keypairs in order. Generated codec sanity for package envelope; decrypt leaves its input untouched.",
		NotCov:      "equivalence of the validation model and the distribution loop for every configuration, and that recipients' keys decrypt their grants (C12).",
		Assumptions: commonAssumptions})
}

// newScalarInLoop: v is a scalar object created for this iteration of loop — a NewScalar call inside the loop, or the
// result of a same-package helper that is called inside the loop and returns a scalar it creates itself.
func newScalarInLoop(v ssa.Value, loop map[*ssa.BasicBlock]bool) bool {
	isNew := func(x ssa.Value) (*ssa.Call, bool) {
		call, ok := x.(*ssa.Call)
		return call, ok && call.Call.IsInvoke() && call.Call.Method.Name() == "NewScalar"
	}
	if call, ok := isNew(v); ok {
		return loop != nil && loop[call.Block()]
	}
	idx := 0
	var hc *ssa.Call
	switch x := v.(type) {
	case *ssa.Extract:
		hc, _ = x.Tuple.(*ssa.Call)
		idx = x.Index
	case *ssa.Call:
		hc = x
	}
	if hc == nil || loop == nil || !loop[hc.Block()] {
		return false
	}
	h := hc.Call.StaticCallee()
	if h == nil || len(h.Blocks) == 0 || h.Pkg == nil || h.Pkg != hc.Parent().Pkg {
		return false
	}
	n := 0
	for _, b := range h.Blocks {
		for _, ins := range b.Instrs {
			ret, ok := ins.(*ssa.Return)
			if !ok || idx >= len(ret.Results) {
				continue
			}
			r := ret.Results[idx]
			if k, isK := r.(*ssa.Const); isK && k.Value == nil {
				continue // error paths return nil
			}
			if _, ok := isNew(r); !ok {
				return false
			}
			n++
		}
	}
	return n > 0
}
