package props

import (
	"go/token"
	"go/types"
	"strings"

	"bifrostverify/an"

	"golang.org/x/tools/go/ssa"
)

const pblite = "github.com/aperturerobotics/protobuf-go-lite"

var cConsumeVarint = an.X(pblite, "", "ConsumeVarint")

func isInvokeOf(ins ssa.Instruction, iface, method string) bool {
	call, ok := ins.(*ssa.Call)
	if !ok || !call.Call.IsInvoke() {
		return false
	}
	return call.Call.Method.Name() == method
}

// globalLoad reports whether v is a load of a package-level variable of the given package; returns the global.
func globalLoad(v ssa.Value) *ssa.Global {
	if u, ok := v.(*ssa.UnOp); ok && u.Op == token.MUL {
		if g, ok := u.X.(*ssa.Global); ok {
			return g
		}
	}
	return nil
}

// globalWrittenOnlyInInit checks that g has no store outside its package initialiser.
func globalWrittenOnlyInInit(p *an.Prog, g *ssa.Global) (bool, string) {
	for _, fn := range p.AllRepoFuncs() {
		for _, b := range an.ScanBlocks(fn) {
			for _, ins := range b.Instrs {
				if st, ok := ins.(*ssa.Store); ok && st.Addr == ssa.Value(g) {
					return false, an.FuncName(fn) + " at " + p.Pos(st.Pos())
				}
				// address taken
				for _, op := range an.Operands(ins) {
					if op == ssa.Value(g) {
						if _, isLoad := ins.(*ssa.UnOp); !isLoad {
							if st, isSt := ins.(*ssa.Store); !(isSt && st.Addr == ssa.Value(g)) {
								// an element / field address that is only ever read through (also by a repository callee it is
								// handed to) does not let the variable change
								if v, isVal := ins.(ssa.Value); isVal && addrOnlyRead(v, 0) {
									continue
								}
								return false, "address escapes in " + an.FuncName(fn)
							}
						}
					}
				}
			}
		}
	}
	return true, ""
}

// addrOnlyRead: every use of the address v (an element or field address) is a load, a further element/field/slice
// derivation that is itself only read, or an argument of a repository function whose parameter is only read.
func addrOnlyRead(v ssa.Value, depth int) bool {
	if depth > 3 {
		return false
	}
	switch v.(type) {
	case *ssa.IndexAddr, *ssa.FieldAddr, *ssa.Slice, *ssa.Parameter:
	default:
		return false
	}
	refs := v.Referrers()
	if refs == nil {
		return false
	}
	for _, r := range *refs {
		switch x := r.(type) {
		case *ssa.DebugRef:
		case *ssa.UnOp:
			if x.Op != token.MUL {
				return false
			}
		case *ssa.IndexAddr, *ssa.FieldAddr, *ssa.Slice:
			if !addrOnlyRead(x.(ssa.Value), depth+1) {
				return false
			}
		case *ssa.Call:
			f := x.Call.StaticCallee()
			if f == nil || len(f.Blocks) == 0 || f.Pkg == nil || !strings.HasPrefix(f.Pkg.Pkg.Path(), an.Mod) {
				return false
			}
			for i, a := range x.Call.Args {
				if a == v {
					if i >= len(f.Params) || !addrOnlyRead(f.Params[i], depth+1) {
						return false
					}
				}
			}
		default:
			return false
		}
	}
	return true
}

func c07(c *an.Check) {
	p := c.P
	rd := one(pkgFuncsWhere(p, "transport/controller", func(f *ssa.Function) bool { return callsAny(f, cConsumeVarint) }))
	wr := one(pkgFuncsWhere(p, "transport/controller", func(f *ssa.Function) bool { return callsAny(f, an.X(pblite, "", "AppendVarint")) }))
	var helper *ssa.Function
	if rd != nil {
		for _, b := range an.ScanBlocks(rd) {
			for _, ins := range b.Instrs {
				if call, ok := ins.(*ssa.Call); ok {
					if f, ok := call.Call.Value.(*ssa.Function); ok && f.Pkg == rd.Pkg && len(f.Params) > 0 && len(call.Call.Args) > 0 && an.IsParam(call.Call.Args[0], 0) {
						helper = f
					}
				}
			}
		}
	}
	if rd == nil || wr == nil || helper == nil {
		c.Undecided("EXACTREAD", "stream-establish header reader/writer", nil, "unresolved anchor: expected one ConsumeVarint user (reader), one AppendVarint user (writer) and the reader's read helper in transport/controller")
		return
	}
	cHelper := an.Callee{Pkg: "./transport/controller", Name: helper.Name()}
	cRd := an.Callee{Pkg: "./transport/controller", Name: rd.Name()}
	// (a1) the stream is only ever passed to the exact-read helper
	okUse, nUse := true, 0
	if refs := rd.Params[0].Referrers(); refs != nil {
		for _, r := range *refs {
			if _, dbg := r.(*ssa.DebugRef); dbg {
				continue
			}
			nUse++
			call, ok := r.(*ssa.Call)
			if !ok || !an.IsCallTo(call, cHelper) || call.Call.Args[0] != ssa.Value(rd.Params[0]) {
				okUse = false
			}
		}
	}
	c.Sites(nUse)
	c.Require(okUse && nUse >= 2, "EXACTREAD", "header reader touches the stream only through the exact-read helper", rd, "", nUse, "every use of the reader parameter is argument 0 of the helper (no bufio / ReadAll / Copy)", "the stream is used other than through the exact-read helper (bytes beyond the header could be consumed)")
	// (a2) each helper call asks for exactly len(buf) bytes
	st := p.NewState(rd)
	hc := an.Calls(rd, cHelper)
	okMin := len(hc) == 2
	for _, call := range hc {
		a := call.Call.Args // r, n, min, buf
		if len(a) != 4 {
			okMin = false
			continue
		}
		if ms, isMake := a[3].(*ssa.MakeSlice); isMake {
			if st.Key(ms.Len) != st.Key(a[2]) {
				okMin = false
			}
		} else if n, ok := st.FixedLen(a[3]); !ok || !an.IsIntConst(a[2], n) {
			okMin = false
		}
	}
	c.Require(okMin, "EXACTREAD", "header reader requests min == len(buf) for freshly made buffers", rd, "", len(hc), "both helper calls pass a make([]byte,N) buffer and min N", "a helper call may read more than (or less than) the exact header size")
	// (a3) helper: reads only into buf[n:], loops until n>=min, returns read errors
	okH := false
	var readCalls []*ssa.Call
	for _, b := range an.ScanBlocks(helper) {
		for _, ins := range b.Instrs {
			if isInvokeOf(ins, "io.Reader", "Read") {
				readCalls = append(readCalls, ins.(*ssa.Call))
			}
		}
	}
	if len(readCalls) == 1 {
		rc := readCalls[0]
		sl, isSl := rc.Call.Args[0].(*ssa.Slice)
		okH = an.IsParam(rc.Call.Value, 0) && isSl && an.IsParam(sl.X, 3) && sl.High == nil && sl.Low != nil
	}
	c.Require(okH, "EXACTREAD", "read helper reads only into buf[n:] of its own buffer", helper, "", len(readCalls), "single r.Read(buf[n:])", "helper reads somewhere other than the unfilled tail of its buffer")
	c.Gate(an.GateSpec{Construct: "read helper success-return", Fn: helper, Sink: nilErrReturn, Reqs: []an.Req{
		an.FactReq("n >= min", func(s *an.State, x, y ssa.Value, r an.Rel) bool {
			return an.IsParam(y, 2) && r != an.ANY && r&an.LT == 0
		}),
	}})
	c.ErrProp(an.ErrPropSpec{Construct: "read helper propagates Read errors", Fn: helper, ErrIdx: -1, Failing: func(s *an.State) (bool, string) {
		for _, rc := range readCalls {
			if e := an.ErrResult(rc, -1); e != nil && s.NonNil(e) {
				return true, "Read failed"
			}
		}
		return false, ""
	}})
	// (a4) R8: the body buffer is allocated only past 0 < len <= limit, limit is an init-only package variable
	cv := an.Calls(rd, cConsumeVarint)
	var limit *ssa.Global
	c.Gate(an.GateSpec{Rule: "BOUNDED", Construct: "header reader body allocation", Fn: rd,
		Sink: func(s *an.State, ins ssa.Instruction) bool {
			ms, ok := ins.(*ssa.MakeSlice)
			return ok && len(cv) == 1 && p.DependsOn(ms.Len, func(v ssa.Value) bool { return v == ssa.Value(cv[0]) })
		},
		Reqs: []an.Req{
			an.FactReq("header length <= package limit", func(s *an.State, x, y ssa.Value, r an.Rel) bool {
				if len(cv) != 1 || s.Key(x) != s.Key(an.ErrResult(cv[0], 0)) || r == an.ANY || r&an.GT != 0 {
					return false
				}
				if g := globalLoad(y); g != nil && g.Pkg == rd.Pkg {
					limit = g
					return true
				}
				k, isConst := y.(*ssa.Const)
				return isConst && k.Value != nil && k.Uint64() <= 1<<24
			}),
			an.FactReq("header length != 0", func(s *an.State, x, y ssa.Value, r an.Rel) bool {
				return len(cv) == 1 && s.Key(x) == s.Key(an.ErrResult(cv[0], 0)) && an.IsIntConst(y, 0) && r&an.EQ == 0
			}),
			an.FactReq("varint consumed > 0 bytes", func(s *an.State, x, y ssa.Value, r an.Rel) bool {
				return len(cv) == 1 && s.Key(x) == s.Key(an.ErrResult(cv[0], 1)) && an.IsIntConst(y, 0) && r == an.GT
			}),
		}})
	if limit != nil {
		ok, where := globalWrittenOnlyInInit(p, limit)
		c.Require(ok, "WHO", "header size limit variable is written only by its initialiser", rd, "", 1, "no store to the limit outside package init", "the limit variable is reassigned: "+where)
		// the initial value is a sane constant
		okInit := false
		if init := rd.Pkg.Func("init"); init != nil {
			for _, b := range an.ScanBlocks(init) {
				for _, ins := range b.Instrs {
					if s, ok := ins.(*ssa.Store); ok && s.Addr == ssa.Value(limit) {
						if k, ok := s.Val.(*ssa.Const); ok && k.Value != nil && k.Uint64() > 0 && k.Uint64() <= 1<<24 {
							okInit = true
						}
					}
				}
			}
		}
		c.Require(okInit, "BOUNDED", "header size limit is a positive constant <= 16MiB", rd, "", 1, "limit initialised from a constant in range", "limit is not initialised from a constant in (0, 16MiB]")
	}
	// (a5) success only past UnmarshalVT ok of the exactly-sized buffer; leftover bytes of the 4-byte prefix are carried over
	cUnm := an.R("transport/controller", "StreamEstablish", "UnmarshalVT")
	c.Gate(an.GateSpec{Construct: "header reader success-return", Fn: rd, Sink: successReturn, Reqs: []an.Req{
		an.CallOK("prefix read ok", cHelper), an.CallOK("StreamEstablish.UnmarshalVT ok", cUnm),
		{Name: "both reads ok", Holds: func(s *an.State, at ssa.Instruction) bool {
			for _, call := range hc {
				if e := an.ErrResult(call, -1); e == nil || !s.IsNil(e) {
					return false
				}
			}
			return len(hc) == 2
		}}}})
	um := an.Calls(rd, cUnm)
	okU := len(um) == 1 && len(hc) == 2 && um[0].Call.Args[1] == hc[1].Call.Args[3]
	c.Require(okU, "PROVENANCE", "header reader decodes exactly the body buffer it filled", rd, "", len(um), "UnmarshalVT(headerBuf) where headerBuf is the second read's buffer", "the decoded bytes are not the exactly-sized body buffer")
	okCarry := false
	if len(hc) == 2 && len(cv) == 1 {
		nb := an.ErrResult(cv[0], 1)
		// copy(headerBuf, b[k:]) and n = len(b)-k with the same k deriving from the consumed-bytes count
		var cp *ssa.Call
		for _, b := range an.ScanBlocks(rd) {
			for _, ins := range b.Instrs {
				if cc, ok := ins.(*ssa.Call); ok && an.BuiltinName(cc) == "copy" && cc.Call.Args[0] == hc[1].Call.Args[3] {
					cp = cc
				}
			}
		}
		if cp != nil {
			if sl, ok := cp.Call.Args[1].(*ssa.Slice); ok && sl.X == hc[0].Call.Args[3] && sl.High == nil && sl.Low != nil {
				if sub, ok := hc[1].Call.Args[1].(*ssa.BinOp); ok && sub.Op == token.SUB && st.Key(sub.Y) == st.Key(sl.Low) {
					if l, ok := sub.X.(*ssa.Call); ok && an.BuiltinName(l) == "len" && l.Call.Args[0] == hc[0].Call.Args[3] {
						okCarry = p.DependsOn(sl.Low, func(v ssa.Value) bool { return nb != nil && v == nb })
					}
				}
			}
		}
	}
	c.Require(okCarry, "PROVENANCE", "bytes read past the length varint are carried into the body buffer", rd, "", 1, "copy(body, prefix[k:]) and already-read count len(prefix)-k with k = varint size", "prefix bytes after the varint are dropped or double counted")
	// (b) writer mirror
	okW := false
	if av := an.Calls(wr, an.X(pblite, "", "AppendVarint")); len(av) == 1 {
		sz := an.ResultCallTo(an.ConvOf(av[0].Call.Args[1]), an.R("transport/controller", "StreamEstablish", "SizeVT"))
		mt := an.Calls(wr, an.R("transport/controller", "StreamEstablish", "MarshalToVT"))
		okW = sz != nil && len(mt) == 1 && an.IsParam(sz.Call.Args[0], 0) && an.IsParam(mt[0].Call.Args[0], 0)
	}
	c.Require(okW, "MIRROR", "header writer emits varint(SizeVT) ‖ MarshalToVT of the same message type the reader decodes", wr, "", 2, "AppendVarint(uint64(msg.SizeVT())) + msg.MarshalToVT vs ConsumeVarint + StreamEstablish.UnmarshalVT", "writer framing does not mirror the reader")
	c.Require(len(cv) == 1 && an.IsCallTo(cv[0], cConsumeVarint) && len(cv[0].Call.Args) == 1 && cv[0].Call.Args[0] == hc[0].Call.Args[3], "MIRROR", "header reader decodes the varint from the 4-byte prefix it read", rd, "", 1, "ConsumeVarint(prefix)", "varint is decoded from a different buffer")

	// (c) HandleIncomingStream
	his := p.Func("transport/controller", "Controller", "HandleIncomingStream")
	cNewHMS := an.R("link", "", "NewHandleMountedStream")
	cValidate := an.R("protocol", "ID", "Validate")
	c.Gate(an.GateSpec{Construct: "Controller.HandleIncomingStream dispatch (NewHandleMountedStream)", Fn: his,
		Sink: func(s *an.State, ins ssa.Instruction) bool { return an.IsCallTo(ins, cNewHMS) },
		Reqs: []an.Req{an.CallOK("header read ok", cRd), an.CallOK("protocol.ID.Validate ok", cValidate)}})
	if his != nil {
		isClose := func(ins ssa.Instruction) bool {
			call, ok := ins.(*ssa.Call)
			return ok && call.Call.IsInvoke() && call.Call.Method.Name() == "Close" && an.IsParam(call.Call.Value, 4)
		}
		c.Gate(an.GateSpec{Rule: "MUSTCALL", Construct: "Controller.HandleIncomingStream failing exits", Fn: his,
			Sink: func(s *an.State, ins ssa.Instruction) bool {
				if _, ok := ins.(*ssa.Return); !ok {
					return false
				}
				for _, cal := range []an.Callee{cRd, cValidate} {
					if f, _ := an.CallFailed(cal)(s); f {
						return true
					}
				}
				return false
			},
			Reqs: []an.Req{{Name: "stream closed", Holds: func(s *an.State, at ssa.Instruction) bool { return s.Executed(at, isClose) }}}})
		// provenance of the directive parameters
		okP := false
		if nh := an.Calls(his, cNewHMS); len(nh) == 1 {
			a := nh[0].Call.Args
			pidSrc := an.ResultCallTo(an.ConvOf(a[0]), an.R("transport/controller", "StreamEstablish", "GetProtocolId"))
			okPid := pidSrc != nil && an.ResultCallTo(pidSrc.Call.Args[0], cRd) != nil
			vc := an.Calls(his, cValidate)
			okPid = okPid && len(vc) == 1 && vc[0].Call.Args[0] == a[0]
			lp, _ := a[1].(*ssa.Call)
			okLocal := lp != nil && lp.Call.IsInvoke() && lp.Call.Method.Name() == "GetLocalPeer" && an.IsParam(lp.Call.Value, 3)
			rp, _ := a[2].(*ssa.Call)
			okRemote := false
			if rp != nil && rp.Call.IsInvoke() && rp.Call.Method.Name() == "GetPeerID" {
				// receiver: the mounted stream built from (strm, opts, pid, mounted link of lnk)
				okRemote = p.DependsOn(rp.Call.Value, func(v ssa.Value) bool {
					call, ok := v.(*ssa.Call)
					if !ok {
						return false
					}
					f, ok := call.Call.Value.(*ssa.Function)
					return ok && f.Pkg == his.Pkg && f.Signature.Results().Len() == 1 && isNamedPtr(f.Signature.Results().At(0).Type(), "mountedStream") && len(call.Call.Args) == 4 && an.IsParam(call.Call.Args[0], 4) && call.Call.Args[2] == a[0]
				})
			} else if rp != nil && rp.Call.IsInvoke() && rp.Call.Method.Name() == "GetRemotePeer" {
				okRemote = an.IsParam(rp.Call.Value, 3)
			}
			okP = okPid && okLocal && okRemote
		}
		c.Require(okP, "PROVENANCE", "HandleMountedStream(pid from decoded header, link's local peer, link's remote peer)", his, "", 1, "directive parameters have the expected provenance", "the directive is not built from (validated decoded protocol id, lnk.GetLocalPeer(), remote peer of lnk)")
	}
	// mountedStream.linkPeer = link.GetRemotePeer() in its only constructor; mountedLink forwards to the link
	lp := p.FieldVar(an.FieldRef{Pkg: "transport/controller", Type: "mountedStream", Field: "linkPeer"})
	nms := one(pkgFuncsWhere(p, "transport/controller", func(f *ssa.Function) bool {
		return f.Signature.Recv() == nil && f.Signature.Results().Len() == 1 && isNamedPtr(f.Signature.Results().At(0).Type(), "mountedStream")
	}))
	c.Who(an.WhoSpec{Construct: "mountedStream.linkPeer written only by its constructor", Field: lp, Kinds: []an.AccessKind{an.Write, an.AddrTaken}, Allowed: an.InFuncs(nms), Min: 1})
	if lp != nil && nms != nil {
		ok := false
		for _, a := range p.FieldAccesses(lp, []*ssa.Function{nms}) {
			if a.Kind == an.Write {
				call, isCall := a.Val.(*ssa.Call)
				ok = isCall && call.Call.IsInvoke() && call.Call.Method.Name() == "GetRemotePeer" && an.IsParam(call.Call.Value, 3)
			}
		}
		c.Require(ok, "PROVENANCE", "mountedStream.linkPeer = link.GetRemotePeer()", nms, "", 1, "constructor stores the mounted link's remote peer", "linkPeer is not the remote peer of the link the stream arrived on")
	}
	if gpid := p.Func("transport/controller", "mountedStream", "GetPeerID"); gpid != nil {
		ok := false
		for _, a := range p.FieldAccesses(lp, []*ssa.Function{gpid}) {
			if a.Kind == an.Read {
				ok = true
			}
		}
		c.Require(ok, "PROVENANCE", "mountedStream.GetPeerID returns linkPeer", gpid, "", 1, "getter reads linkPeer", "GetPeerID does not return linkPeer")
	}
	for _, m := range []string{"GetRemotePeer", "GetLocalPeer"} {
		f := p.Func("transport/controller", "mountedLink", m)
		ok := false
		if f != nil {
			for _, b := range an.ScanBlocks(f) {
				for _, ins := range b.Instrs {
					if call, isCall := ins.(*ssa.Call); isCall && call.Call.IsInvoke() && call.Call.Method.Name() == m {
						ok = true
					}
				}
			}
		}
		c.Require(ok, "PROVENANCE", "mountedLink."+m+" forwards to the underlying link", f, "", 1, "forwards "+m, "mountedLink."+m+" does not forward to the link")
	}
	// (d) protocol.ID.Validate
	pv := p.Func("protocol", "ID", "Validate")
	c.Gate(an.GateSpec{Construct: "protocol.ID.Validate success-return", Fn: pv, Sink: successReturn, Reqs: []an.Req{
		an.FactReq("id != \"\"", func(s *an.State, x, y ssa.Value, r an.Rel) bool {
			return an.IsParam(an.ConvOf(x), 0) && an.IsStrConst(an.ConvOf(y), "") && r&an.EQ == 0
		}),
		an.CallTrue("utf8.ValidString", 0, an.X("unicode/utf8", "", "ValidString")),
	}})
	// (e) totality of the reader
	if bce := peerBCE(c, "./transport/controller", "./protocol"); bce != nil {
		c.Totality(an.PanicSpec{Construct: "stream-establish header reader totality", Funcs: []*ssa.Function{rd, helper, pv}, BCE: bce, Min: 3, Reviewed: map[string]string{
			an.FuncName(helper) + ": bounds buf[n:]": "the loop body runs only while n < min, and both call sites pass min == len(buf) (EXACTREAD obligation above), so n < len(buf) where buf[n:] is evaluated; n only grows by Read's count, which is at most len(buf[n:])",
		}})
	}
	// (e2) the header writer takes its length prefix from the generated SizeVT: that method sizes each field from the
	// field itself
	pbCodecSanity(c, func(rel string) bool { return rel == "transport/controller" })
	// (f) the lookup the bus actually performs is the one built for this stream: HandleMountedStream directives that differ
	// in protocol id, local or remote peer are never merged into one lookup (EQUIV obligations of that directive, as in C37)
	equivCheck(c, func(f *ssa.Function) bool { return strings.Contains(an.FuncName(f), "link.handleMountedStream") })
	c.Trust("io.Reader contract: Read returns 0 <= n <= len(p)", "protobuf-go-lite ConsumeVarint/AppendVarint/UnmarshalVT never panic", "unicode/utf8.ValidString")
}

func isNamedPtr(t types.Type, name string) bool {
	pt, ok := t.(*types.Pointer)
	if !ok {
		return false
	}
	n, ok := pt.Elem().(*types.Named)
	return ok && n.Obj().Name() == name
}

func init() {
	register(&Def{ID: "C07", Run: c07,
		Explain:     "Decides on SSA: (EXACTREAD) the header reader touches the stream only through its exact-read helper, each call requesting min==len(buf) of a freshly made buffer, and the helper reads only into buf[n:] until n>=min, propagating Read errors — so no byte after the header can be consumed; (BOUNDED) the body buffer is allocated only past varint n>0, length!=0 and length<=an init-only package limit; (R1) success only past both reads and UnmarshalVT of that buffer; leftover prefix bytes are carried over; (MIRROR) writer = varint(SizeVT)‖MarshalToVT of the same message; (R1/MUSTCALL/PROVENANCE) HandleIncomingStream issues HandleMountedStream only past header ok and protocol.ID.Validate ok, closes the stream on failing exits, and builds the directive from (decoded validated id, lnk.GetLocalPeer(), remote peer of lnk); protocol.ID.Validate succeeds only for non-empty valid UTF-8; (PANIC) reader totality. (EQUIV) the HandleMountedStream directive's IsEquivalent compares protocol id, local and remote peer like with like, so lookups for different peers are never merged. Generated codec of transport/controller: SizeVT sizes fields from their own values, UnmarshalVT copies and guards its sub-slices, tags agree with the schema.",
		NotCov:      "the value-level statement 'same ID for every chunking' (follows from exact reads under the io.Reader contract, which is trusted) and handler dispatch by the controller bus.",
		Assumptions: commonAssumptions})
}
