package props

import (
	"fmt"
	"go/ast"
	"go/constant"
	"sort"

	"bifrostverify/an"

	"golang.org/x/tools/go/ssa"
)

// enumVerdict evaluates a HashType method for one enum value: returns "ok" when every return arrival
// satisfies good, "no" when none does, "mixed" otherwise.
func enumVerdict(c *an.Check, fn *ssa.Function, val int64, good func(s *an.State, ret *ssa.Return) bool) (string, int) {
	yes, no := 0, 0
	st, ok := c.ReturnsWith(fn, map[int]int64{0: val}, func(s *an.State, ret *ssa.Return) {
		if good(s, ret) {
			yes++
		} else {
			no++
		}
	})
	switch {
	case !ok || yes+no == 0:
		return "undecided", st
	case no == 0:
		return "ok", st
	case yes == 0:
		return "no", st
	}
	return "mixed", st
}

// hashTypeSiblings decides the agreement of the HashType switches (shared by C02 and C15).
func hashTypeSiblings(c *an.Check) map[int64]bool {
	p := c.P
	enum := p.EnumConsts("hash", "HashType")
	vals := []int64{}
	for v := range enum {
		vals = append(vals, v)
	}
	maxv := int64(0)
	for _, v := range vals {
		if v > maxv {
			maxv = v
		}
	}
	vals = append(vals, maxv+1, -1, 1<<20) // representatives of undeclared values
	sort.Slice(vals, func(i, j int) bool { return vals[i] < vals[j] })
	errNil := func(s *an.State, ret *ssa.Return) bool { return s.KnownNilErr(s.RetVal(ret, -1)) }
	errNon := func(s *an.State, ret *ssa.Return) bool { return s.KnownNonNilErr(s.RetVal(ret, -1)) }
	fns := map[string]*ssa.Function{
		"Validate": p.Func("hash", "HashType", "Validate"), "Sum": p.Func("hash", "HashType", "Sum"),
		"GetHashLen": p.Func("hash", "HashType", "GetHashLen"), "BuildHasher": p.Func("hash", "HashType", "BuildHasher"),
	}
	for n, f := range fns {
		if f == nil {
			c.Undecided("SIBLING", "hash.HashType."+n, nil, "unresolved anchor")
			return nil
		}
	}
	if len(enum) < 3 {
		c.Undecided("SIBLING", "hash.HashType constants", nil, "fewer than 3 declared constants found")
		return nil
	}
	accepted := map[int64]bool{}
	for _, v := range vals {
		name := enum[v]
		if name == "" {
			name = fmt.Sprintf("undeclared(%d)", v)
		}
		va, n1 := enumVerdict(c, fns["Validate"], v, errNil)
		vr, _ := enumVerdict(c, fns["Validate"], v, errNon)
		sa, n2 := enumVerdict(c, fns["Sum"], v, errNil)
		sr, _ := enumVerdict(c, fns["Sum"], v, errNon)
		ba, n3 := enumVerdict(c, fns["BuildHasher"], v, errNil)
		la, n4 := enumVerdict(c, fns["GetHashLen"], v, func(s *an.State, ret *ssa.Return) bool {
			k, ok := s.RetVal(ret, 0).(*ssa.Const)
			return ok && k.Value != nil && k.Value.Kind() == constant.Int && k.Int64() > 0
		})
		ex := n1 + n2 + n3 + n4
		con := "hash.HashType value " + name
		// digest length agreement: GetHashLen(v) is the length of what Sum(v) returns and of what BuildHasher(v) produces
		var lenConst, sumLen, hasherLen int64 = -1, -1, -1
		enumVerdict(c, fns["GetHashLen"], v, func(s *an.State, ret *ssa.Return) bool {
			if k, ok := s.RetVal(ret, 0).(*ssa.Const); ok && k.Value != nil && k.Value.Kind() == constant.Int {
				lenConst = k.Int64()
			}
			return true
		})
		enumVerdict(c, fns["Sum"], v, func(s *an.State, ret *ssa.Return) bool {
			if n, ok := s.FixedLen(s.RetVal(ret, 0)); ok {
				sumLen = n
			}
			return true
		})
		enumVerdict(c, fns["BuildHasher"], v, func(s *an.State, ret *ssa.Return) bool {
			rv := s.RetVal(ret, 0)
			if mi, ok := rv.(*ssa.MakeInterface); ok {
				rv = mi.X
			}
			if call, ok := rv.(*ssa.Call); ok {
				if f := call.Call.StaticCallee(); f != nil && f.Pkg != nil {
					switch f.Pkg.Pkg.Path() + "." + f.Name() {
					case "crypto/sha256.New", "github.com/zeebo/blake3.New":
						hasherLen = 32
					case "crypto/sha1.New":
						hasherLen = 20
					case "crypto/sha512.New":
						hasherLen = 64
					}
				}
			}
			return true
		})
		// Validate must decide the value one way or the other
		if !(va == "ok" || vr == "ok") {
			c.Fail("SIBLING", con+": Validate decides", fns["Validate"], "", ex, fmt.Sprintf("Validate neither always accepts nor always rejects (accept=%s reject=%s)", va, vr), nil)
			continue
		}
		if va == "ok" {
			accepted[v] = true
			c.Require(sa == "ok" && ba == "ok" && la == "ok", "SIBLING", con+": accepted by Validate implies Sum/BuildHasher/GetHashLen support it", fns["Validate"], "", ex,
				"Validate accepts; Sum ok, BuildHasher ok, GetHashLen>0", fmt.Sprintf("Validate accepts the value but Sum=%s BuildHasher=%s GetHashLen>0=%s", sa, ba, la))
			c.Require(lenConst > 0 && lenConst == sumLen && lenConst == hasherLen, "SIBLING", con+": GetHashLen equals the digest length of Sum and of the BuildHasher algorithm", fns["GetHashLen"], "", 3,
				fmt.Sprintf("all three are %d", lenConst), fmt.Sprintf("GetHashLen says %d, Sum returns %d bytes, the hasher built is a %d-byte algorithm (-1 = not resolved): Hash.Validate accepts non-digests and rejects genuine ones", lenConst, sumLen, hasherLen))
		} else {
			c.Require(sr == "ok", "SIBLING", con+": rejected by Validate implies Sum rejects it", fns["Sum"], "", ex,
				"Validate rejects and Sum returns an error", fmt.Sprintf("Validate rejects the value but Sum error-verdict is %s", sr))
		}
	}
	// SupportedHashTypes literal == accepted set
	sup := map[int64]bool{}
	found := false
	if tp := p.TPkg("hash"); tp != nil {
		for _, f := range tp.Syntax {
			ast.Inspect(f, func(n ast.Node) bool {
				vs, ok := n.(*ast.ValueSpec)
				if !ok {
					return true
				}
				for i, nm := range vs.Names {
					if nm.Name == "SupportedHashTypes" && i < len(vs.Values) {
						if cl, ok := vs.Values[i].(*ast.CompositeLit); ok {
							found = true
							for _, e := range cl.Elts {
								if tv, ok := tp.TypesInfo.Types[e]; ok && tv.Value != nil {
									if v, ok := constant.Int64Val(tv.Value); ok {
										sup[v] = true
									}
								}
							}
						}
					}
				}
				return true
			})
		}
	}
	same := found && len(sup) == len(accepted)
	for v := range sup {
		if !accepted[v] {
			same = false
		}
	}
	c.Require(same, "SIBLING", "hash.SupportedHashTypes equals the set Validate accepts", fns["Validate"], "", len(sup)+len(accepted),
		fmt.Sprintf("both sets have %d members", len(sup)), fmt.Sprintf("SupportedHashTypes=%v but Validate accepts %v", keys64(sup), keys64(accepted)))
	c.Require(len(accepted) >= 3, "SIBLING", "hash.HashType accepted set is non-trivial", fns["Validate"], "", len(accepted), "at least 3 hash types accepted", "fewer than 3 accepted hash types (anchor drift)")
	return accepted
}

func keys64(m map[int64]bool) []int64 {
	var o []int64
	for k := range m {
		o = append(o, k)
	}
	sort.Slice(o, func(i, j int) bool { return o[i] < o[j] })
	return o
}

func c15(c *an.Check) {
	p := c.P
	hashTypeSiblings(c)
	// VerifyData: nil error only past Sum ok, equal length, bytes.Equal
	vd := p.Func("hash", "Hash", "VerifyData")
	isSum := func(s *an.State, v ssa.Value) bool {
		return an.ResultCallTo(s.Canon(v), an.R("hash", "HashType", "Sum")) != nil
	}
	hashF, typeF := fv(c, "hash", "Hash", "Hash"), fv(c, "hash", "Hash", "HashType")
	// the stored digest / type: through the nil-safe getter or as a direct field read
	isStored := func(s *an.State, v ssa.Value) bool {
		return getterOn(s, v, "hash", "Hash", "GetHash") || an.IsFieldLoad(s.Canon(v), hashF)
	}
	ownerOfType := func(s *an.State, v ssa.Value) ssa.Value {
		cv := s.Canon(v)
		if getterOn(s, cv, "hash", "Hash", "GetHashType") {
			return s.Canon(cv.(*ssa.Call).Call.Args[0])
		}
		if an.IsFieldLoad(cv, typeF) {
			if fa, ok := cv.(*ssa.UnOp).X.(*ssa.FieldAddr); ok {
				return s.Canon(fa.X)
			}
		}
		return nil
	}
	c.Gate(an.GateSpec{Construct: "hash.Hash.VerifyData success-return", Fn: vd, Sink: successReturn, Reqs: []an.Req{
		an.CallOK("HashType.Sum ok", an.R("hash", "HashType", "Sum")),
		an.Req{Name: "bytes.Equal(computed, stored) is true", Holds: func(s *an.State, at ssa.Instruction) bool {
			for _, call := range an.Calls(vd, an.X("bytes", "", "Equal")) {
				a, b := call.Call.Args[0], call.Call.Args[1]
				if s.IsTrue(call) && ((isSum(s, a) && isStored(s, b)) || (isSum(s, b) && isStored(s, a))) {
					return true
				}
			}
			return false
		}},
	}})
	if vd != nil {
		sc := an.Calls(vd, an.R("hash", "HashType", "Sum"))
		ok := len(sc) == 1 && getterOn(p.NewState(vd), sc[0].Call.Args[0], "hash", "Hash", "GetHashType") && an.IsParam(sc[0].Call.Args[1], 1)
		c.Require(ok, "PROVENANCE", "hash.Hash.VerifyData hashes the data parameter under the hash's own type", vd, "", len(sc), "Sum(h.GetHashType(), data)", "Sum is not applied to (own hash type, data parameter)")
	}
	// Validate: nil only past HashType.Validate ok and len == GetHashLen of the same type
	hv := p.Func("hash", "Hash", "Validate")
	c.Gate(an.GateSpec{Construct: "hash.Hash.Validate success-return", Fn: hv, Sink: successReturn, Reqs: []an.Req{
		an.CallOK("HashType.Validate ok", an.R("hash", "HashType", "Validate")),
		an.FactReq("len(digest)==GetHashLen()", func(s *an.State, x, y ssa.Value, r an.Rel) bool {
			if r != an.EQ {
				return false
			}
			gl := an.ResultCallTo(y, an.R("hash", "HashType", "GetHashLen"))
			return gl != nil && getterOn(s, gl.Call.Args[0], "hash", "Hash", "GetHashType") && an.LenOf(s, x, func(a ssa.Value) bool { return isStored(s, a) })
		}),
	}})
	if hv != nil {
		vc := an.Calls(hv, an.R("hash", "HashType", "Validate"))
		c.Require(len(vc) == 1 && getterOn(p.NewState(hv), vc[0].Call.Args[0], "hash", "Hash", "GetHashType"), "PROVENANCE", "hash.Hash.Validate validates its own type", hv, "", len(vc), "Validate(h.GetHashType())", "HashType.Validate is not applied to the hash's own type")
	}
	// CompareHash: true only past type equality and bytes.Equal
	ch := p.Func("hash", "Hash", "CompareHash")
	c.Gate(an.GateSpec{Construct: "hash.Hash.CompareHash true-return", Fn: ch,
		Sink: func(s *an.State, ins ssa.Instruction) bool {
			ret, ok := ins.(*ssa.Return)
			return ok && !s.IsFalse(s.RetVal(ret, 0))
		},
		Reqs: []an.Req{an.AnyOf("both nil, or types equal and bytes.Equal",
			an.Req{Name: "both nil", Holds: func(s *an.State, at ssa.Instruction) bool {
				return s.IsNil(ch.Params[0]) && s.IsNil(ch.Params[1])
			}},
			an.Req{Name: "types equal and digests equal", Holds: func(s *an.State, at ssa.Instruction) bool {
				typeEq := s.AnyFact(func(s *an.State, x, y ssa.Value, r an.Rel) bool {
					ox, oy := ownerOfType(s, x), ownerOfType(s, y)
					return r == an.EQ && ox != nil && oy != nil && ox != oy
				})
				if !typeEq {
					return false
				}
				for _, call := range an.Calls(ch, an.X("bytes", "", "Equal")) {
					// known true on the path, or the verdict returned IS the comparison's result
					fwd := false
					if ret, ok := at.(*ssa.Return); ok && len(ret.Results) == 1 && s.Key(s.RetVal(ret, 0)) == s.Key(call) {
						fwd = true
					}
					if (s.IsTrue(call) || fwd) && isStored(s, call.Call.Args[0]) && isStored(s, call.Call.Args[1]) {
						return true
					}
				}
				return false
			}})}})
	// Sum: the Hash it builds records the type it hashed with
	sm := p.Func("hash", "", "Sum")
	c.Gate(an.GateSpec{Construct: "hash.Sum success-return", Fn: sm, Sink: successReturn, Reqs: []an.Req{an.CallOK("HashType.Sum ok", an.R("hash", "HashType", "Sum"))}})
	if sm != nil {
		nh := an.Calls(sm, an.R("hash", "", "NewHash"))
		ok := len(nh) == 1 && an.IsParam(nh[0].Call.Args[0], 0) && an.ResultCallTo(nh[0].Call.Args[1], an.R("hash", "HashType", "Sum")) != nil
		if ok {
			sc := an.ResultCallTo(nh[0].Call.Args[1], an.R("hash", "HashType", "Sum"))
			ok = an.IsParam(sc.Call.Args[0], 0) && an.IsParam(sc.Call.Args[1], 1)
		}
		if !ok && len(nh) == 0 {
			// the constructor written out: &Hash{HashType: ht, Hash: ht.Sum(data)}
			var tOK, dOK bool
			nW := 0
			for _, a := range p.FieldAccesses(typeF, []*ssa.Function{sm}) {
				if a.Kind == an.Write {
					nW++
					tOK = an.IsParam(a.Val, 0)
				}
			}
			for _, a := range p.FieldAccesses(hashF, []*ssa.Function{sm}) {
				if a.Kind == an.Write {
					nW++
					sc := an.ResultCallTo(a.Val, an.R("hash", "HashType", "Sum"))
					dOK = sc != nil && an.IsParam(sc.Call.Args[0], 0) && an.IsParam(sc.Call.Args[1], 1)
				}
			}
			ok = nW == 2 && tOK && dOK
		}
		c.Require(ok, "PROVENANCE", "hash.Sum records the type it hashed with", sm, "", len(nh), "NewHash(ht, ht.Sum(data))", "the returned Hash does not pair the digest with the type used to compute it")
	}
	// encoding mirror: MarshalString = b58(MarshalVT), ParseFromB58 = UnmarshalVT(b58 decode)
	ms, pf := p.Func("hash", "Hash", "MarshalString"), p.Func("hash", "Hash", "ParseFromB58")
	okm := ms != nil && pf != nil
	if okm {
		enc := an.Calls(ms, an.X("github.com/mr-tron/base58/base58", "", "Encode"))
		dec := an.Calls(pf, an.X("github.com/mr-tron/base58/base58", "", "Decode"))
		um := an.Calls(pf, an.R("hash", "Hash", "UnmarshalVT"))
		okm = len(enc) == 1 && len(dec) == 1 && len(um) == 1 &&
			an.ResultCallTo(enc[0].Call.Args[0], an.R("hash", "Hash", "MarshalVT")) != nil &&
			an.ResultCallTo(um[0].Call.Args[1], an.X("github.com/mr-tron/base58/base58", "", "Decode")) != nil && an.IsParam(um[0].Call.Args[0], 0) && an.IsParam(dec[0].Call.Args[0], 1)
	}
	c.Require(okm, "MIRROR", "hash.Hash MarshalString/ParseFromB58 are inverse constructions", ms, "", 3, "b58.Encode(MarshalVT(h)) vs h.UnmarshalVT(b58.Decode(ref))", "string encoding and parsing are not mirror images (base58 over the protobuf encoding of the receiver)")
	// lossless: the only hashes that encode to the empty string are the nil hash and one whose protobuf encoding fails —
	// any other early "" makes distinct hashes indistinguishable (and unparseable)
	if ms != nil {
		c.EachReturn("PROVENANCE", "hash.Hash.MarshalString returns \"\" only for a nil hash or a marshalling error", ms, "every other return is b58.Encode(MarshalVT(h))", func(s *an.State, ret *ssa.Return) string {
			rv := s.RetVal(ret, 0)
			if v, ok := an.StrConstOf(rv); ok && v == "" {
				if s.IsNil(ms.Params[0]) {
					return ""
				}
				for _, mc := range an.Calls(ms, an.R("hash", "Hash", "MarshalVT")) {
					if e := an.ErrResult(mc, -1); e != nil && s.KnownNonNilErr(e) {
						return ""
					}
				}
				return "the empty string is returned for a non-nil hash that marshals fine: hashes with a zero type or an empty digest collapse to the zero hash's encoding and cannot be parsed back"
			}
			if an.ResultCallTo(rv, an.X("github.com/mr-tron/base58/base58", "", "Encode")) == nil {
				return "a return yields something other than the base58 of the protobuf encoding"
			}
			return ""
		})
	}
	// the binary encoding is the generated codec of package hash
	pbCodecSanity(c, func(rel string) bool { return rel == "hash" })
	c.Trust("github.com/mr-tron/base58 Encode/Decode are inverse", "protobuf-go-lite MarshalVT/UnmarshalVT round-trip", "bytes.Equal", "crypto/sha256, crypto/sha1, zeebo/blake3 digests")
}

func init() {
	register(&Def{ID: "C15", Run: c15,
		Explain:     "Decides on SSA: (SIBLING) for every declared HashType constant and three undeclared representatives, the per-value abstract evaluation of HashType.Validate / Sum / BuildHasher / GetHashLen agrees (accepted ⇒ supported with positive length; rejected ⇒ Sum errors) and SupportedHashTypes equals the accepted set; (R1) Hash.VerifyData succeeds only past Sum ok and bytes.Equal(computed, stored) over Sum(own type, data); Hash.Validate succeeds only past HashType.Validate ok and len(digest)==GetHashLen(own type); CompareHash returns true only when both are nil or types and digests are equal; hash.Sum pairs the digest with the type used; (MIRROR) MarshalString/ParseFromB58 are base58 over the protobuf encoding. (SIBLING) for every accepted type GetHashLen equals the length Sum returns and the digest size of the algorithm BuildHasher constructs; (PROVENANCE) MarshalString returns \"\" only for a nil hash or a marshalling error, every other return is the base58 of the protobuf encoding. Generated codec sanity for package hash (copying UnmarshalVT, guarded sub-slices, encode/size agreement, tags).",
		NotCov:      "base58/protobuf round-trip and digest functions themselves (trusted); the 'succeeds whenever equal' direction is implied only structurally (no other rejecting branch is looked for).",
		Assumptions: commonAssumptions})
}
