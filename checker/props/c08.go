package props

import (
	"fmt"
	"go/constant"
	"go/token"
	"go/types"
	"strings"

	"bifrostverify/an"

	"golang.org/x/tools/go/ssa"
)

var (
	cReadFull = an.X("io", "", "ReadFull")
	cLEUint32 = an.X("encoding/binary", "littleEndian", "Uint32")
	cLEPut32  = an.X("encoding/binary", "littleEndian", "PutUint32")
)

// recvOnly: every use of the struct field (loaded value) inside fn is argument 0 of one of the callees.
func fieldUsedOnlyAsArg0(p *an.Prog, fn *ssa.Function, fv *types.Var, cs ...an.Callee) (int, bool) {
	n, ok := 0, true
	for _, a := range p.FieldAccesses(fv, []*ssa.Function{fn}) {
		if a.Kind != an.Read {
			ok = false
			continue
		}
		ld, isLoad := a.Instr.(*ssa.UnOp)
		if !isLoad || ld.Referrers() == nil {
			continue
		}
		for _, r := range *ld.Referrers() {
			if _, dbg := r.(*ssa.DebugRef); dbg {
				continue
			}
			n++
			// interface conversion then call
			uses := []ssa.Instruction{r}
			if ci, isCI := r.(*ssa.ChangeInterface); isCI && ci.Referrers() != nil {
				uses = *ci.Referrers()
			}
			if mi, isMI := r.(*ssa.MakeInterface); isMI && mi.Referrers() != nil {
				uses = *mi.Referrers()
			}
			for _, u := range uses {
				call, isCall := u.(*ssa.Call)
				if !isCall || !an.IsCallTo(call, cs...) || an.Strip(call.Call.Args[0]) != ssa.Value(ld) && stripIface(call.Call.Args[0]) != ssa.Value(ld) {
					ok = false
				}
			}
		}
	}
	return n, ok
}

func stripIface(v ssa.Value) ssa.Value {
	for {
		switch x := v.(type) {
		case *ssa.ChangeInterface:
			v = x.X
		case *ssa.MakeInterface:
			v = x.X
		case *ssa.ChangeType:
			v = x.X
		default:
			return v
		}
	}
}

func deferredClosures(fn *ssa.Function) []*ssa.Function {
	var out []*ssa.Function
	for _, b := range an.ScanBlocks(fn) {
		for _, ins := range b.Instrs {
			if d, ok := ins.(*ssa.Defer); ok {
				if mc, ok := d.Call.Value.(*ssa.MakeClosure); ok {
					out = append(out, mc.Fn.(*ssa.Function))
				} else if f, ok := d.Call.Value.(*ssa.Function); ok {
					out = append(out, f)
				}
			}
		}
	}
	return out
}

// pumpCloses checks the deferred closure of a pump: stores the pump's result error into closeErr and closes packetCh.
func pumpCloses(c *an.Check, pump *ssa.Function, typ string) {
	p := c.P
	ce := p.FieldVar(an.FieldRef{Pkg: "util/rwc", Type: typ, Field: "closeErr"})
	pc := p.FieldVar(an.FieldRef{Pkg: "util/rwc", Type: typ, Field: "packetCh"})
	ok := false
	for _, d := range deferredClosures(pump) {
		st, cl := false, false
		for _, a := range p.FieldAccesses(ce, []*ssa.Function{d}) {
			if a.Kind == an.Write {
				st = true
			}
		}
		for _, b := range an.ScanBlocks(d) {
			for _, ins := range b.Instrs {
				if call, isCall := ins.(*ssa.Call); isCall && an.BuiltinName(call) == "close" && an.IsFieldLoad(call.Call.Args[0], pc) {
					cl = true
				}
			}
		}
		ok = ok || (st && cl)
	}
	c.Require(ok, "MUSTCALL", "rwc."+typ+" pump's deferred cleanup records the error and closes the packet channel", pump, "", 1, "deferred func stores closeErr and close(packetCh)", "pump exit does not record its error and close the channel")
	// sends/closes of the channel only from the pump
	n, bad := 0, ""
	for _, fn := range p.PkgFuncs("util/rwc") {
		for _, b := range an.ScanBlocks(fn) {
			for _, ins := range b.Instrs {
				if ch, _, isSend := an.SelectSend(ins); isSend && an.IsFieldLoad(ch, pc) {
					n++
					if an.Outermost(fn) != pump {
						bad = an.FuncName(fn)
					}
				}
				if call, isCall := ins.(*ssa.Call); isCall && an.BuiltinName(call) == "close" && an.IsFieldLoad(call.Call.Args[0], pc) {
					n++
					if an.Outermost(fn) != pump {
						bad = an.FuncName(fn)
					}
				}
			}
		}
	}
	c.Require(bad == "" && n >= 2, "WHO", "rwc."+typ+".packetCh has a single sender/closer (its pump)", pump, "", n, "all sends and the close are in the pump goroutine", "another function sends on or closes the packet channel: "+bad)
}

// closedChannelReported: a receive with ok==false leads to a non-nil error return.
func closedChannelReported(c *an.Check, fn *ssa.Function, construct string) {
	c.ErrProp(an.ErrPropSpec{Construct: construct, Fn: fn, ErrIdx: -1, Failing: func(s *an.State) (bool, string) {
		for _, b := range an.ScanBlocks(fn) {
			for _, ins := range b.Instrs {
				if sel, ok := ins.(*ssa.Select); ok && sel.Referrers() != nil {
					for _, r := range *sel.Referrers() {
						if e, ok := r.(*ssa.Extract); ok && e.Index == 1 && s.IsFalse(e) {
							return true, "the packet channel is closed (recvOk false)"
						}
					}
				}
			}
		}
		return false, ""
	}})
}

func c08(c *an.Check) {
	sendMsgAlwaysFrames(c)
	// consumers of the framed session: UnmarshalVT merges into the message it is given, so a message object that survives
	// from one RecvMsg to the next must be fresh per iteration or Reset in between — otherwise frame N is decoded as the
	// union of frames 1..N
	recvMsgFreshness(c)
	// the transports built on the packet conn agree on its size limit: every construction in transport/common/conn passes
	// the configured mtu itself
	packetConnLimitSiblings(c)
	p := c.P
	T := "PacketConn"
	rx := p.Func("util/rwc", T, "rxPump")
	rwcF := p.FieldVar(an.FieldRef{Pkg: "util/rwc", Type: T, Field: "rwc"})
	maxF := p.FieldVar(an.FieldRef{Pkg: "util/rwc", Type: T, Field: "maxPacketSize"})
	if rx == nil || rwcF == nil || maxF == nil {
		c.Undecided("GATE", "rwc.PacketConn.rxPump", nil, "unresolved anchor")
		return
	}
	n, ok := fieldUsedOnlyAsArg0(p, rx, rwcF, cReadFull)
	c.Require(ok && n >= 2, "EXACTREAD", "rwc.PacketConn.rxPump reads the stream only with io.ReadFull", rx, "", n, "every use of p.rwc in the pump is io.ReadFull's reader", "the pump reads the stream with something other than io.ReadFull (chunking would misframe)")
	rf := an.Calls(rx, cReadFull)
	le := an.Calls(rx, cLEUint32)
	isLen := func(s *an.State, v ssa.Value) bool { return len(le) == 1 && s.Key(v) == s.Key(le[0]) }
	lenReqs := []an.Req{
		an.FactReq("length != 0", func(s *an.State, x, y ssa.Value, r an.Rel) bool {
			return isLen(s, x) && an.IsIntConst(y, 0) && r&an.EQ == 0
		}),
		an.FactReq("length <= maxPacketSize", func(s *an.State, x, y ssa.Value, r an.Rel) bool {
			return isLen(s, x) && an.IsFieldLoad(y, maxF) && r != an.ANY && r&an.GT == 0
		}),
	}
	if len(rf) == 2 && len(le) == 1 {
		hdrOK := an.Req{Name: "header ReadFull ok", Holds: func(s *an.State, at ssa.Instruction) bool { return s.IsNil(an.ErrResult(rf[0], -1)) }}
		c.Gate(an.GateSpec{Rule: "BOUNDED", Construct: "rwc.PacketConn.rxPump body read", Fn: rx,
			Sink: func(s *an.State, ins ssa.Instruction) bool { return ins == ssa.Instruction(rf[1]) }, Reqs: append([]an.Req{hdrOK}, lenReqs...)})
		c.Gate(an.GateSpec{Construct: "rwc.PacketConn.rxPump packet delivery", Fn: rx,
			Sink: func(s *an.State, ins ssa.Instruction) bool { _, _, ok := an.SelectSend(ins); return ok },
			Reqs: append([]an.Req{hdrOK, {Name: "body ReadFull ok", Holds: func(s *an.State, at ssa.Instruction) bool { return s.IsNil(an.ErrResult(rf[1], -1)) }},
				{Name: "delivered buffer is the one just filled, sized by the prefix", Holds: func(s *an.State, at ssa.Instruction) bool {
					_, v, _ := an.SelectSend(at)
					if s.Key(v) != s.Key(rf[1].Call.Args[1]) {
						return false
					}
					gb, ok := s.Canon(v).(*ssa.Call)
					return ok && len(gb.Call.Args) == 2 && s.Key(an.ConvOf(gb.Call.Args[1])) == s.Key(le[0])
				}}}, lenReqs...)})
		// header bytes decoded are the ones read
		okH := p.Key(an.Strip(rf[0].Call.Args[1])) == p.Key(an.Strip(le[0].Call.Args[1]))
		if !okH {
			a, b := rootOfVal(rf[0].Call.Args[1]), rootOfVal(le[0].Call.Args[1])
			okH = a != nil && a == b
		}
		c.Require(okH, "PROVENANCE", "rwc.PacketConn.rxPump decodes the prefix from the 4 bytes it read", rx, "", 2, "Uint32(header) of the buffer filled by ReadFull", "length prefix is decoded from a different buffer")
		for i, call := range rf {
			call := call
			c.ErrProp(an.ErrPropSpec{Construct: []string{"rwc.PacketConn.rxPump propagates header read errors", "rwc.PacketConn.rxPump propagates body read errors"}[i], Fn: rx, ErrIdx: -1,
				Failing: func(s *an.State) (bool, string) { return s.NonNil(an.ErrResult(call, -1)), "io.ReadFull failed" }})
		}
		// bad prefixes end the pump with an error
		c.ErrProp(an.ErrPropSpec{Construct: "rwc.PacketConn.rxPump ends with an error on a zero or over-limit prefix", Fn: rx, ErrIdx: -1, Failing: func(s *an.State) (bool, string) {
			bad := s.AnyFact(func(s *an.State, x, y ssa.Value, r an.Rel) bool {
				return isLen(s, x) && ((an.IsIntConst(y, 0) && r == an.EQ) || (an.IsFieldLoad(y, maxF) && r == an.GT))
			})
			return bad, "the length prefix is zero or exceeds the limit"
		}})
	} else {
		c.Undecided("GATE", "rwc.PacketConn.rxPump packet delivery", rx, "unresolved anchor: expected two io.ReadFull calls and one LittleEndian.Uint32")
	}
	pumpCloses(c, rx, T)
	// arena buffer has exactly the requested size
	gab := p.Func("util/rwc", T, "getArenaBuf")
	c.EachReturn("PROVENANCE", "rwc.PacketConn.getArenaBuf returns a buffer of exactly the requested size", gab, "len(result)==size when size!=0", func(s *an.State, ret *ssa.Return) string {
		v := s.RetVal(ret, 0)
		size := gab.Params[1]
		if r := s.Rel(size, ssa.NewConst(constant.MakeInt64(0), size.Type())); r == an.EQ {
			return ""
		}
		switch x := v.(type) {
		case *ssa.MakeSlice:
			if s.Key(x.Len) == s.Key(size) {
				return ""
			}
		case *ssa.Slice:
			if x.Low == nil && x.High != nil && s.Key(x.High) == s.Key(size) {
				return ""
			}
		}
		return "a return yields a buffer whose length is not the requested size"
	})
	// WriteTo
	wt := p.Func("util/rwc", T, "WriteTo")
	if wt != nil {
		var writes []*ssa.Call
		for _, b := range an.ScanBlocks(wt) {
			for _, ins := range b.Instrs {
				if isInvokeOf(ins, "io.Writer", "Write") {
					writes = append(writes, ins.(*ssa.Call))
				}
			}
		}
		okW := len(writes) == 1
		if okW {
			buf := varOf(writes[0].Call.Args[0])
			gb, isCall := storedIn(p, buf).(*ssa.Call)
			put := an.Calls(wt, cLEPut32)
			okW = isCall && len(put) == 1 && varOf(put[0].Call.Args[1]) == buf
			if okW {
				// size = len(pkt)+4 and prefix = uint32(len(pkt))
				st := p.NewState(wt)
				lenPkt := func(v ssa.Value) bool {
					return an.LenOf(st, an.ConvOf(v), func(a ssa.Value) bool { return an.IsParam(a, 1) })
				}
				sz, isAdd := gb.Call.Args[1].(*ssa.BinOp)
				okW = isAdd && sz.Op == token.ADD && lenPkt(sz.X) && an.IsIntConst(sz.Y, 4) && lenPkt(put[0].Call.Args[2])
				cp := false
				for _, b := range an.ScanBlocks(wt) {
					for _, ins := range b.Instrs {
						if cc, ok := ins.(*ssa.Call); ok && an.BuiltinName(cc) == "copy" && an.IsParam(cc.Call.Args[1], 1) {
							if sl, ok := cc.Call.Args[0].(*ssa.Slice); ok && varOf(sl.X) == buf && an.IsIntConst(sl.Low, 4) && sl.High == nil {
								cp = true
							}
						}
					}
				}
				okW = okW && cp
			}
		}
		c.Require(okW, "MIRROR", "rwc.PacketConn.WriteTo writes one buffer = LE32(len(pkt)) ‖ pkt", wt, "", len(writes), "single rwc.Write(buf), buf=arena(len+4), PutUint32(buf,len), copy(buf[4:],pkt)", "WriteTo does not emit exactly one length-prefixed buffer")
		if len(writes) == 1 {
			w := writes[0]
			c.Gate(an.GateSpec{Construct: "rwc.PacketConn.WriteTo nil-error return", Fn: wt, Sink: nilErrReturn, Reqs: []an.Req{an.AnyOf("empty packet, or full write",
				an.FactReq("len(pkt)==0", func(s *an.State, x, y ssa.Value, r an.Rel) bool {
					return r == an.EQ && an.IsIntConst(y, 0) && an.LenOf(s, x, func(a ssa.Value) bool { return an.IsParam(a, 1) })
				}),
				an.Req{Name: "Write ok and n >= len(buf)", Holds: func(s *an.State, at ssa.Instruction) bool {
					if !s.IsNil(an.ErrResult(w, -1)) {
						return false
					}
					return s.AnyFact(func(s *an.State, x, y ssa.Value, r an.Rel) bool {
						return s.Key(x) == s.Key(an.ErrResult(w, 0)) && r != an.ANY && r&an.LT == 0 && an.LenOf(s, y, func(a ssa.Value) bool { return varOf(a) == varOf(w.Call.Args[0]) || s.Key(a) == s.Key(w.Call.Args[0]) })
					})
				}})}})
		}
	} else {
		c.Undecided("MIRROR", "rwc.PacketConn.WriteTo", nil, "unresolved anchor")
	}
	// ReadFrom
	rfm := p.Func("util/rwc", T, "ReadFrom")
	c.Gate(an.GateSpec{Construct: "rwc.PacketConn.ReadFrom nil-error return", Fn: rfm, Sink: nilErrReturn, Reqs: []an.Req{
		an.FactReq("len(p) >= len(packet)", func(s *an.State, x, y ssa.Value, r an.Rel) bool {
			// len(p) >= len(packet), or the same fact through the count copy(p, packet) returned (= min of the two lengths)
			isDstLen := an.LenOf(s, x, func(a ssa.Value) bool { return an.IsParam(a, 1) })
			if cp, ok := s.Canon(x).(*ssa.Call); ok && an.BuiltinName(cp) == "copy" && an.IsParam(s.Canon(cp.Call.Args[0]), 1) {
				isDstLen = true
			}
			return r != an.ANY && r&an.LT == 0 && isDstLen && an.LenOf(s, y, func(a ssa.Value) bool { _, isE := a.(*ssa.Extract); return isE })
		})}})
	closedChannelReported(c, rfm, "rwc.PacketConn.ReadFrom reports a closed connection as an error")
	// limits
	npc := p.Func("util/rwc", "", "NewPacketConn")
	c.Who(an.WhoSpec{Construct: "rwc.PacketConn.maxPacketSize written only by NewPacketConn", Field: maxF, Kinds: []an.AccessKind{an.Write, an.AddrTaken}, Allowed: an.InFuncs(npc), Min: 1})
	limitArgProvenance(c, an.R("util/rwc", "", "NewPacketConn"), 4, "rwc.NewPacketConn maxPacketSize argument")

	// stream/packet.Session
	rm := p.Func("stream/packet", "Session", "RecvMsg")
	sm := p.Func("stream/packet", "Session", "SendMsg")
	embF := p.FieldVar(an.FieldRef{Pkg: "stream/packet", Type: "Session", Field: "ReadWriteCloser"})
	smaxF := p.FieldVar(an.FieldRef{Pkg: "stream/packet", Type: "Session", Field: "maxMessageSize"})
	if rm == nil || sm == nil || embF == nil || smaxF == nil {
		c.Undecided("GATE", "stream/packet.Session", nil, "unresolved anchor")
		return
	}
	n2, ok2 := fieldUsedOnlyAsArg0(p, rm, embF, cReadFull)
	c.Require(ok2 && n2 >= 2, "EXACTREAD", "packet.Session.RecvMsg reads the stream only with io.ReadFull", rm, "", n2, "every use of the embedded stream is io.ReadFull's reader", "RecvMsg reads with something other than io.ReadFull")
	le2 := an.Calls(rm, cLEUint32)
	rf2 := an.Calls(rm, cReadFull)
	if len(le2) == 1 && len(rf2) == 2 {
		c.Gate(an.GateSpec{Rule: "BOUNDED", Construct: "packet.Session.RecvMsg body allocation", Fn: rm,
			Sink: func(s *an.State, ins ssa.Instruction) bool {
				ms, ok := ins.(*ssa.MakeSlice)
				return ok && p.DependsOn(ms.Len, func(v ssa.Value) bool { return v == ssa.Value(le2[0]) })
			},
			Reqs: []an.Req{{Name: "prefix ReadFull ok", Holds: func(s *an.State, at ssa.Instruction) bool { return s.IsNil(an.ErrResult(rf2[0], -1)) }},
				an.FactReq("length <= maxMessageSize", func(s *an.State, x, y ssa.Value, r an.Rel) bool {
					return s.Key(x) == s.Key(le2[0]) && an.IsFieldLoad(y, smaxF) && r != an.ANY && r&an.GT == 0
				})}})
		um := 0
		okU := true
		for _, b := range an.ScanBlocks(rm) {
			for _, ins := range b.Instrs {
				if isInvokeOf(ins, "", "UnmarshalVT") {
					um++
					call := ins.(*ssa.Call)
					okU = okU && call.Call.Args[0] == rf2[1].Call.Args[1]
				}
			}
		}
		c.Require(okU && um == 1, "PROVENANCE", "packet.Session.RecvMsg decodes exactly the body it read", rm, "", um, "UnmarshalVT(buffer filled by the second ReadFull)", "decoded bytes are not the exactly-sized body buffer")
		c.Gate(an.GateSpec{Construct: "packet.Session.RecvMsg decode", Fn: rm, Sink: func(s *an.State, ins ssa.Instruction) bool { return isInvokeOf(ins, "", "UnmarshalVT") },
			Reqs: []an.Req{{Name: "body ReadFull ok", Holds: func(s *an.State, at ssa.Instruction) bool { return s.IsNil(an.ErrResult(rf2[1], -1)) }}}})
		for i, call := range rf2 {
			call := call
			c.ErrProp(an.ErrPropSpec{Construct: []string{"packet.Session.RecvMsg propagates prefix read errors", "packet.Session.RecvMsg propagates body read errors"}[i], Fn: rm, ErrIdx: -1,
				Failing: func(s *an.State) (bool, string) { return s.NonNil(an.ErrResult(call, -1)), "io.ReadFull failed" }})
		}
		c.ErrProp(an.ErrPropSpec{Construct: "packet.Session.RecvMsg rejects an over-limit prefix", Fn: rm, ErrIdx: -1, Failing: func(s *an.State) (bool, string) {
			return s.AnyFact(func(s *an.State, x, y ssa.Value, r an.Rel) bool {
				return s.Key(x) == s.Key(le2[0]) && an.IsFieldLoad(y, smaxF) && r == an.GT
			}), "the length prefix exceeds maxMessageSize"
		}})
	} else {
		c.Undecided("BOUNDED", "packet.Session.RecvMsg body allocation", rm, "unresolved anchor")
	}
	// both directions hold their mutex around the stream operations
	lockHeld := func(fn *ssa.Function, mtx string, isOp func(ssa.Instruction) bool, construct string) {
		mv := p.FieldVar(an.FieldRef{Pkg: "stream/packet", Type: "Session", Field: mtx})
		c.Gate(an.GateSpec{Rule: "LOCKSET", Construct: construct, Fn: fn, Sink: func(s *an.State, ins ssa.Instruction) bool { return isOp(ins) },
			Reqs: []an.Req{{Name: mtx + " locked (and unlock deferred)", Holds: func(s *an.State, at ssa.Instruction) bool {
				isOn := func(ins ssa.Instruction, name string) bool {
					var cc *ssa.CallCommon
					switch x := ins.(type) {
					case *ssa.Call:
						cc = x.Common()
					case *ssa.Defer:
						cc = x.Common()
					default:
						return false
					}
					fo := an.CallObj(cc)
					return fo != nil && fo.Name() == name && len(cc.Args) > 0 && an.FieldOfAddr(cc.Args[0]) == mv
				}
				locked := s.Executed(at, func(ins ssa.Instruction) bool { _, isCall := ins.(*ssa.Call); return isCall && isOn(ins, "Lock") })
				unl := s.Executed(at, func(ins ssa.Instruction) bool { _, isCall := ins.(*ssa.Call); return isCall && isOn(ins, "Unlock") })
				return locked && !unl
			}}}})
	}
	// a buffer handed back to the arena is not touched again (another WriteTo / the pump may already own it)
	if n := c.NotUsedAfterRelease("OWNERSHIP", "rwc arena buffers are not used after release", c.P.PkgFuncs("util/rwc")); n < 3 {
		c.Undecided("OWNERSHIP", "rwc arena buffers are not used after release", nil, fmt.Sprintf("only %d arena releases found (anchor drift)", n))
	}
	lockHeld(rm, "readMtx", func(ins ssa.Instruction) bool { return an.IsCallTo(ins, cReadFull) }, "packet.Session.RecvMsg stream reads")
	lockHeld(sm, "sendMtx", func(ins ssa.Instruction) bool { return isInvokeOf(ins, "", "Write") }, "packet.Session.SendMsg stream write")
	// SendMsg framing
	var writes []*ssa.Call
	for _, b := range an.ScanBlocks(sm) {
		for _, ins := range b.Instrs {
			if isInvokeOf(ins, "", "Write") {
				writes = append(writes, ins.(*ssa.Call))
			}
		}
	}
	okS := len(writes) == 1
	if okS {
		buf := writes[0].Call.Args[0]
		ms, isMake := buf.(*ssa.MakeSlice)
		put := an.Calls(sm, cLEPut32)
		st := p.NewState(sm)
		isData := func(v ssa.Value) bool {
			cl, ok := st.Canon(v).(*ssa.Extract)
			return ok && cl.Index == 0
		}
		okS = isMake && len(put) == 1 && put[0].Call.Args[1] == buf
		if app, isApp := buf.(*ssa.Call); isApp && an.BuiltinName(app) == "append" && len(put) == 1 {
			// alternative form: prefix := make([]byte, 4, …); PutUint32(prefix, len(data)); Write(append(prefix, data...))
			pre, isPre := app.Call.Args[0].(*ssa.MakeSlice)
			okS = isPre && an.IsIntConst(pre.Len, 4) && isData(app.Call.Args[1]) && put[0].Call.Args[1] == ssa.Value(pre) &&
				an.LenOf(st, an.ConvOf(put[0].Call.Args[2]), isData) && an.InstrDominates(put[0], app)
		} else if okS {
			sz, isAdd := ms.Len.(*ssa.BinOp)
			okS = isAdd && sz.Op == token.ADD && an.LenOf(st, sz.X, isData) && an.IsIntConst(sz.Y, 4) && an.LenOf(st, an.ConvOf(put[0].Call.Args[2]), isData)
			cp := false
			for _, b := range an.ScanBlocks(sm) {
				for _, ins := range b.Instrs {
					if cc, ok := ins.(*ssa.Call); ok && an.BuiltinName(cc) == "copy" && isData(cc.Call.Args[1]) {
						if sl, ok := cc.Call.Args[0].(*ssa.Slice); ok && sl.X == buf && an.IsIntConst(sl.Low, 4) && sl.High == nil {
							cp = true
						}
					}
				}
			}
			okS = okS && cp
		}
	}
	c.Require(okS, "MIRROR", "packet.Session.SendMsg writes one buffer = LE32(len(data)) ‖ data", sm, "", len(writes), "single Write(make(len+4)) with PutUint32(len) and copy(buf[4:],data)", "SendMsg does not emit exactly one length-prefixed buffer")
	if len(writes) == 1 {
		w := writes[0]
		c.ErrProp(an.ErrPropSpec{Construct: "packet.Session.SendMsg propagates write errors", Fn: sm, ErrIdx: -1, Failing: func(s *an.State) (bool, string) { return s.NonNil(an.ErrResult(w, -1)), "Write failed" }})
	}
	ns := p.Func("stream/packet", "", "NewSession")
	c.Who(an.WhoSpec{Construct: "packet.Session.maxMessageSize written only by NewSession", Field: smaxF, Kinds: []an.AccessKind{an.Write, an.AddrTaken}, Allowed: an.InFuncs(ns), Min: 1})
	limitArgProvenance(c, an.R("stream/packet", "", "NewSession"), 1, "packet.NewSession maxMessageSize argument")
	c.Trust("io.ReadFull reads exactly len(buf) bytes or fails", "encoding/binary.LittleEndian", "sync.Mutex", "FIFO order of Go channels (single sender)")
}

func rootOfVal(v ssa.Value) ssa.Value {
	for i := 0; i < 8; i++ {
		switch x := v.(type) {
		case *ssa.Slice:
			v = x.X
		case *ssa.ChangeType:
			v = x.X
		default:
			return v
		}
	}
	return v
}

var wireSources = []an.Callee{cLEUint32, an.X("encoding/binary", "bigEndian", "Uint32"), cConsumeVarint, cUvarint, an.X("encoding/binary", "littleEndian", "Uint64"), an.X("encoding/binary", "bigEndian", "Uint64")}

// limitArgProvenance: at every call site of ctor the idx-th argument is a constant or derives from configuration
// (parameters, fields, package values) and never from a wire-decoding call.
func limitArgProvenance(c *an.Check, ctor an.Callee, idx int, construct string) {
	n := 0
	ok := true
	for _, fn := range c.P.AllRepoFuncs() {
		for _, call := range an.Calls(fn, ctor) {
			n++
			a := call.Call.Args[idx]
			if c.P.DependsOn(a, func(v ssa.Value) bool { return an.ResultCallTo(v, wireSources...) != nil }) {
				ok = false
				c.Fail("BOUNDED", construct+" is not wire-derived", fn, c.P.Pos(call.Pos()), n, "the size limit passed here derives from bytes decoded off the wire", nil)
			}
		}
	}
	c.Sites(n)
	if ok {
		c.Require(n >= 1, "BOUNDED", construct+" is not wire-derived", nil, "", n, "all call sites pass constants or configuration-derived limits", "anchor drift: no call site found")
	}
}

func init() {
	register(&Def{ID: "C08", Run: c08,
		Explain:     "Decides on SSA for the packet connection and the message session: (EXACTREAD) the stream is read only through io.ReadFull; (BOUNDED/R1) the body read / allocation and the delivery happen only past prefix read ok, length!=0 (packet conn) and length<=limit; the delivered buffer is the one just filled and sized by the prefix; zero/over-limit prefixes and read failures end the pump with a non-nil error which the deferred cleanup records before closing the channel (single sender/closer); ReadFrom returns a nil error only when the caller's buffer is large enough and reports a closed channel as an error; (MIRROR) WriteTo/SendMsg emit exactly one buffer LE32(len)‖data and treat short writes/errors as errors; Session holds readMtx/sendMtx around its stream operations; limits are written only by the constructors and no call site passes a wire-derived limit. (LOOPALLOC) every looping caller of Session.RecvMsg decodes into a fresh or Reset message; (SIBLING) all NewPacketConn sites in transport/common/conn pass the configured mtu; (MUSTCALL) SendMsg reports success only after writing a frame (also for zero-length messages). (OWNERSHIP) an arena buffer is not touched after it was handed back to the pool.",
		NotCov:      "exactly-once/in-order delivery as a history (follows from exact reads, one pump goroutine and FIFO channels — trusted); in Session a zero length prefix is the encoding of an empty message, so the 'zero-length ⇒ error' clause is decided for the packet connection only.",
		Assumptions: commonAssumptions})
}

// varOf maps a load of a local variable cell to the cell, so that several reads of one variable compare equal.
func varOf(v ssa.Value) ssa.Value {
	if u, ok := v.(*ssa.UnOp); ok && u.Op == token.MUL {
		if a, ok := u.X.(*ssa.Alloc); ok {
			return a
		}
	}
	return v
}

// storedIn returns the single value stored into a variable cell (or the value itself).
func storedIn(p *an.Prog, v ssa.Value) ssa.Value {
	if a, ok := v.(*ssa.Alloc); ok {
		if sv := p.SingleStore(a); sv != nil {
			return sv
		}
	}
	return v
}

func recvMsgFreshness(c *an.Check) {
	p := c.P
	cRecv := an.R("stream/packet", "Session", "RecvMsg")
	n, bad := 0, ""
	for _, fn := range p.AllRepoFuncs() {
		if strings.Contains(fn.Pkg.Pkg.Path(), "/examples/") {
			continue
		}
		for _, call := range an.Calls(fn, cRecv) {
			loop := an.InnermostLoop(fn, call.Block())
			if loop == nil {
				continue
			}
			n++
			msg := call.Call.Args[1]
			if mi, ok := msg.(*ssa.MakeInterface); ok {
				msg = mi.X
			}
			// allocated in the loop?
			fresh := false
			for r := range an.AliasRoots(msg) {
				if al, ok := r.(*ssa.Alloc); ok && loop[al.Block()] {
					fresh = true
				}
			}
			if fresh {
				continue
			}
			isHead := func(b *ssa.BasicBlock) bool {
				if !loop[b] {
					return false
				}
				for o := range loop {
					if !b.Dominates(o) {
						return false
					}
				}
				return true
			}
			isReset := func(i ssa.Instruction) bool {
				cl, ok := i.(*ssa.Call)
				if !ok {
					return false
				}
				name := ""
				var recv ssa.Value
				if cl.Call.IsInvoke() {
					name, recv = cl.Call.Method.Name(), cl.Call.Value
				} else if fo := an.CallObj(cl.Common()); fo != nil && len(cl.Call.Args) > 0 {
					name, recv = fo.Name(), cl.Call.Args[0]
				}
				if name != "Reset" || recv == nil {
					return false
				}
				if mi, ok := recv.(*ssa.MakeInterface); ok {
					recv = mi.X
				}
				return recv == msg
			}
			if an.ReachesWithout(call, isReset, isHead) {
				bad = fmt.Sprintf("%s at %s receives into a message that outlives the loop iteration and is not Reset before the next RecvMsg: repeated fields of earlier frames accumulate in later ones", an.FuncName(fn), p.Pos(call.Pos()))
			}
		}
	}
	c.Require(bad == "" && n >= 2, "LOOPALLOC", "packet.Session.RecvMsg callers decode each frame into a fresh (or reset) message", nil, "", n, "message allocated per iteration, or Reset() on every way back to the loop head", func() string {
		if bad != "" {
			return bad
		}
		return "fewer than 2 looping RecvMsg call sites found (anchor drift)"
	}())
}

func packetConnLimitSiblings(c *an.Check) {
	p := c.P
	n, bad := 0, ""
	for _, fn := range p.PkgFuncs("transport/common/conn") {
		for _, g := range an.WithClosures(fn) {
			for _, call := range an.Calls(g, an.R("util/rwc", "", "NewPacketConn")) {
				n++
				arg := call.Call.Args[4]
				okArg := false
				switch v := arg.(type) {
				case *ssa.UnOp:
					if f := an.FieldOfAddr(v.X); f != nil && f.Name() == "mtu" {
						okArg = true
					}
					if cell := p.CellOf(v.X); cell != nil {
						okArg = true // captured local holding the configured mtu
					}
				case *ssa.Parameter, *ssa.FreeVar, *ssa.Phi, *ssa.Call:
					okArg = true
				}
				if _, isBin := arg.(*ssa.BinOp); isBin {
					okArg = false
				}
				if !okArg {
					bad = fmt.Sprintf("%s at %s constructs the packet conn with a size limit that is computed from, not equal to, the configured mtu: the two directions of a link disagree about the largest valid packet", an.FuncName(g), p.Pos(call.Pos()))
				}
			}
		}
	}
	c.Require(bad == "" && n >= 2, "SIBLING", "conn transports construct their packet conns with the configured mtu", nil, "", n, "NewPacketConn(…, mtu, …) at every site", func() string {
		if bad != "" {
			return bad
		}
		return "fewer than 2 NewPacketConn sites found (anchor drift)"
	}())
}

// sendMsgAlwaysFrames: SendMsg reports success only after it wrote a frame — also for a message that marshals to zero
// bytes (an empty message is a message: peers use it to say "my set is now empty").
func sendMsgAlwaysFrames(c *an.Check) {
	p := c.P
	sm := p.Func("stream/packet", "Session", "SendMsg")
	if sm == nil {
		c.Undecided("MUSTCALL", "packet.Session.SendMsg writes a frame for every message", nil, "unresolved anchor")
		return
	}
	c.Gate(an.GateSpec{Rule: "MUSTCALL", Construct: "packet.Session.SendMsg success-return", Fn: sm, Sink: successReturn,
		Reqs: []an.Req{{Name: "a frame was written to the stream (Write executed and ok)", Holds: func(s *an.State, at ssa.Instruction) bool {
			for _, b := range an.ScanBlocks(sm) {
				for _, ins := range b.Instrs {
					call, ok := ins.(*ssa.Call)
					if !ok {
						continue
					}
					name := ""
					if call.Call.IsInvoke() {
						name = call.Call.Method.Name()
					} else if fo := an.CallObj(call.Common()); fo != nil {
						name = fo.Name()
					}
					if name != "Write" {
						continue
					}
					if e := an.ErrResult(call, -1); e != nil && s.IsNil(e) {
						return true
					}
				}
			}
			return false
		}}}})
}
