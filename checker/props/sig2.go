package props

import (
	"fmt"
	"go/token"
	"go/types"
	"strings"

	"bifrostverify/an"

	"golang.org/x/tools/go/ssa"
)

// trackerMethod finds the argument-less method of a tracker type by content.
func trackerMethod(p *an.Prog, typ string, pred func(*ssa.Function) bool) *ssa.Function {
	return one(pkgFuncsWhere(p, srvPkg, func(f *ssa.Function) bool {
		return f.Signature.Recv() != nil && isNamedPtr(f.Signature.Recv().Type(), typ) && pred(f)
	}))
}

func closesChan(f *ssa.Function) bool {
	for _, b := range an.ScanBlocks(f) {
		for _, ins := range b.Instrs {
			if call, ok := ins.(*ssa.Call); ok && an.BuiltinName(call) == "close" {
				return true
			}
		}
	}
	return false
}

func makesChan(f *ssa.Function) bool {
	for _, b := range an.ScanBlocks(f) {
		for _, ins := range b.Instrs {
			if _, ok := ins.(*ssa.MakeChan); ok {
				return true
			}
		}
	}
	return false
}

func isMtxCall(ins ssa.Instruction, mtx *types.Var, name string) bool {
	call, ok := ins.(*ssa.Call)
	if !ok {
		return false
	}
	fo := an.CallObj(call.Common())
	if fo == nil || fo.Name() != name || len(call.Call.Args) == 0 {
		return false
	}
	f := an.FieldOfAddr(call.Call.Args[0])
	return f != nil && f.Origin() == mtx
}

// isUnlockPoint: the instruction at which the critical section of mtx ends on this path — a direct Unlock call, or the
// function's rundefers when an Unlock of mtx was deferred on this path.
func isUnlockPoint(s *an.State, ins ssa.Instruction, mtx *types.Var) bool {
	if isMtxCall(ins, mtx, "Unlock") {
		return true
	}
	if _, ok := ins.(*ssa.RunDefers); !ok {
		return false
	}
	return s.Executed(ins, func(i ssa.Instruction) bool {
		d, ok := i.(*ssa.Defer)
		if !ok || len(d.Call.Args) == 0 {
			return false
		}
		fo := an.CallObj(&d.Call)
		f := an.FieldOfAddr(d.Call.Args[0])
		return fo != nil && fo.Name() == "Unlock" && f != nil && f.Origin() == mtx
	})
}

func isCallToFn(ins ssa.Instruction, f *ssa.Function) bool {
	call, ok := ins.(*ssa.Call)
	return ok && f != nil && call.Call.Value == ssa.Value(f)
}

// waitChannelSources: the values a channel operand may hold (phi closure, loads of local cells).
func waitSources(p *an.Prog, v ssa.Value) []ssa.Value {
	seen := map[ssa.Value]bool{}
	var out []ssa.Value
	var walk func(v ssa.Value)
	walk = func(v ssa.Value) {
		if v == nil || seen[v] {
			return
		}
		seen[v] = true
		switch x := v.(type) {
		case *ssa.Phi:
			for _, e := range x.Edges {
				walk(e)
			}
		case *ssa.UnOp:
			if x.Op == token.MUL {
				if a, ok := x.X.(*ssa.Alloc); ok {
					for _, st := range p.Stores(a) {
						walk(st.Val)
					}
					return
				}
				if fvv, ok := x.X.(*ssa.FreeVar); ok {
					if a, ok := p.Binding(fvv).(*ssa.Alloc); ok {
						for _, st := range p.Stores(a) {
							walk(st.Val)
						}
						return
					}
				}
			}
			out = append(out, v)
		case *ssa.ChangeType:
			walk(x.X)
		default:
			out = append(out, v)
		}
	}
	walk(v)
	return out
}

// waitDiscipline decides R4 for a function tree: every blocking receive on a condition channel takes a channel
// that was obtained from the wait-channel getter, and inside loops it is re-obtained in every iteration.
func waitDiscipline(c *an.Check, construct string, fn *ssa.Function, isGetter func(call *ssa.Call) bool, minWaits int) {
	p := c.P
	n := 0
	ok, why := true, ""
	for _, g := range an.WithClosures(fn) {
		for _, b := range an.ScanBlocks(g) {
			for _, ins := range b.Instrs {
				sel, isSel := ins.(*ssa.Select)
				if !isSel || !sel.Blocking {
					continue
				}
				for _, st := range sel.States {
					if st.Dir != types.RecvOnly {
						continue
					}
					srcs := waitSources(p, st.Chan)
					isWait := false
					for _, s := range srcs {
						if call, isCall := s.(*ssa.Call); isCall && isGetter(call) {
							isWait = true
						}
					}
					if !isWait {
						continue
					}
					n++
					for _, s := range srcs {
						if k, isK := s.(*ssa.Const); isK && k.Value == nil {
							continue // nil: "do not wait" sentinel, guarded by a != nil test
						}
						call, isCall := s.(*ssa.Call)
						if !isCall || !isGetter(call) {
							ok, why = false, fmt.Sprintf("a wait at %s may block on a channel that does not come from the wait-channel getter", p.Pos(sel.Pos()))
						}
					}
					// freshness inside loops
					loop := an.InnermostLoop(g, b)
					if loop == nil {
						continue
					}
					switch ch := st.Chan.(type) {
					case *ssa.Phi:
						// the value carried around the back edge must be produced inside the loop
						fresh := false
						for _, s := range srcs {
							if call, isCall := s.(*ssa.Call); isCall && loop[call.Block()] {
								fresh = true
							}
						}
						if !fresh {
							ok, why = false, fmt.Sprintf("the loop at %s waits on a channel that is never re-obtained inside the loop", p.Pos(sel.Pos()))
						}
					case *ssa.UnOp:
						// a cell: it must be declared (allocated / reset) inside the loop
						if a, isA := ch.X.(*ssa.Alloc); isA {
							reset := loop[a.Block()]
							for _, stt := range p.Stores(a) {
								if stt.Parent() == g && loop[stt.Block()] {
									reset = true
								}
								// assigned by a critical-section literal created inside the loop
								if stt.Parent() != g {
									for _, mc := range p.MakeClosureSites(stt.Parent()) {
										if mc.Parent() == g && loop[mc.Block()] {
											reset = true
										}
									}
								}
							}
							if !reset {
								ok, why = false, fmt.Sprintf("the loop at %s waits on a variable that is not reset in each iteration (a stale channel from an earlier iteration may be used)", p.Pos(sel.Pos()))
							}
						}
					}
				}
			}
		}
	}
	c.Sites(n)
	c.Require(ok && n >= minWaits, "WAITCH", construct, fn, "", n, fmt.Sprintf("%d blocking waits, each on a channel from the wait-channel getter, re-obtained per loop iteration", n), func() string {
		if why != "" {
			return why
		}
		return fmt.Sprintf("only %d blocking waits found, expected at least %d (anchor drift)", n, minWaits)
	}())
}

// epochSections decides, for the relay's Session, that every critical section changing a peer slot bumps the epoch, wakes
// the waiters and clears the partner's pending delivery before unlocking (shared by C22 and C20: a message queued in
// an older epoch must not survive into the next one).
func epochSections(c *an.Check) (h *srvHandlers, mtx *types.Var, bcast, getw *ssa.Function, isPeerStore func(ssa.Instruction) bool, ok bool) {
	p := c.P
	h = serverHandlers(c)
	if h == nil {
		return
	}
	mtx = fv(c, srvPkg, "Server", "mtx")
	peerA, peerB := fv(c, srvPkg, "sessionTracker", "peerA"), fv(c, srvPkg, "sessionTracker", "peerB")
	bcast = trackerMethod(p, "sessionTracker", closesChan)
	getw = trackerMethod(p, "sessionTracker", makesChan)
	if mtx == nil || peerA == nil || peerB == nil || bcast == nil || getw == nil {
		c.Undecided("MUSTCALL", "signaling server attach/detach", h.sess, "unresolved anchor: tracker broadcast / wait-channel methods not found")
		return
	}
	isPeerStore = func(ins ssa.Instruction) bool {
		if _, _, ok := storeTo(ins, peerA); ok {
			return true
		}
		if _, _, ok := storeTo(ins, peerB); ok {
			return true
		}
		// *currLocalPeer = nil through a pointer phi
		st, ok := ins.(*ssa.Store)
		if !ok {
			return false
		}
		ph, ok := st.Addr.(*ssa.Phi)
		if !ok {
			return false
		}
		for _, e := range ph.Edges {
			if f := an.FieldOfAddr(e); f != nil && (f.Origin() == peerA || f.Origin() == peerB) {
				return true
			}
		}
		return false
	}
	// (a) every (de)registration bumps the epoch, wakes waiters and clears the partner's pending delivery before unlocking
	for _, site := range []struct {
		name string
		fn   *ssa.Function
	}{{"attach", h.sess}, {"detach", one(closuresWhere(h.sess, func(g *ssa.Function) bool {
		for _, b := range an.ScanBlocks(g) {
			for _, ins := range b.Instrs {
				if isPeerStore(ins) {
					return true
				}
			}
		}
		return false
	}))}} {
		if site.fn == nil {
			c.Undecided("MUSTCALL", "signaling server "+site.name, h.sess, "unresolved anchor: function storing the peer slot not found")
			continue
		}
		fn := site.fn
		var lastStore = func(s *an.State, at ssa.Instruction) ssa.Instruction {
			var found ssa.Instruction
			s.Executed(at, func(ins ssa.Instruction) bool {
				if isPeerStore(ins) {
					found = ins
				}
				return false
			})
			return found
		}
		c.Gate(an.GateSpec{Rule: "MUSTCALL", Construct: "signaling server " + site.name + " critical section", Fn: fn,
			Sink: func(s *an.State, ins ssa.Instruction) bool {
				if !isUnlockPoint(s, ins, mtx) {
					return false
				}
				return lastStore(s, ins) != nil
			},
			Reqs: []an.Req{
				{Name: "epoch incremented after the peer slot changed", Holds: func(s *an.State, at ssa.Instruction) bool {
					ps := lastStore(s, at)
					return s.ExecutedSince(at, ps, func(ins ssa.Instruction) bool {
						v, _, ok := storeTo(ins, h.seqnoF)
						if !ok {
							return false
						}
						bo, isAdd := v.(*ssa.BinOp)
						return isAdd && bo.Op == token.ADD && an.IsFieldLoad(bo.X, h.seqnoF) && an.IsIntConst(bo.Y, 1)
					})
				}},
				{Name: "waiters woken after the peer slot changed", Holds: func(s *an.State, at ssa.Instruction) bool {
					ps := lastStore(s, at)
					return s.ExecutedSince(at, ps, func(ins ssa.Instruction) bool { return isCallToFn(ins, bcast) })
				}},
				{Name: "partner's pending delivery cleared (or no partner)", Holds: func(s *an.State, at ssa.Instruction) bool {
					ps := lastStore(s, at)
					cleared := s.ExecutedSince(at, ps, func(ins ssa.Instruction) bool {
						v, _, ok := storeTo(ins, h.recvF)
						return ok && isNilConst(v)
					}) && s.ExecutedSince(at, ps, func(ins ssa.Instruction) bool {
						v, _, ok := storeTo(ins, h.recvSentF)
						return ok && isNilConst(v)
					})
					if cleared {
						return true
					}
					// no partner: result #1 of the current-peers helper is nil on this path
					for _, b := range an.ScanBlocks(fn) {
						for _, ins := range b.Instrs {
							if e, ok := ins.(*ssa.Extract); ok && e.Index == 1 && strings.HasSuffix(e.Type().String(), "sessionPeerTracker") && s.IsNil(e) {
								return true
							}
						}
					}
					return false
				}},
			}})
	}
	ok = true
	return
}

func c22(c *an.Check) {
	wakeHelpers(c)
	h, mtx, bcast, getw, isPeerStore, ok := epochSections(c)
	if !ok {
		return
	}
	// (b) R4: the attaching call takes its wait channel before it broadcasts its own registration
	var firstGet *ssa.Call
	for _, b := range an.ScanBlocks(h.sess) {
		for _, ins := range b.Instrs {
			if isCallToFn(ins, getw) && an.InnermostLoop(h.sess, b) == nil {
				firstGet = ins.(*ssa.Call)
			}
		}
	}
	if firstGet == nil {
		c.Undecided("WAITCH", "signaling server attach takes its wait channel before broadcasting", h.sess, "unresolved anchor: initial wait-channel acquisition not found")
	} else {
		c.Gate(an.GateSpec{Rule: "WAITCH", Construct: "signaling server attach: initial wait channel", Fn: h.sess,
			Sink: func(s *an.State, ins ssa.Instruction) bool { return ins == ssa.Instruction(firstGet) },
			Reqs: []an.Req{{Name: "obtained before this call's own broadcast (it must not sleep through its own registration)", Holds: func(s *an.State, at ssa.Instruction) bool {
				var lock ssa.Instruction
				s.Executed(at, func(ins ssa.Instruction) bool {
					if isMtxCall(ins, mtx, "Lock") {
						lock = ins
					}
					return false
				})
				if lock == nil {
					return false
				}
				// no broadcast on the session tracker between the registration store and here
				return !s.ExecutedSince(at, lock, func(ins ssa.Instruction) bool {
					if !isCallToFn(ins, bcast) {
						return false
					}
					// only broadcasts that happen after the peer slot store matter
					return s.Executed(ins, isPeerStore)
				})
			}}}})
	}
	epochAnnouncementCompares(c, h)
	// (d) the Opened announcement carries an epoch value read under the lock (covered by LOCKSET on seqno, incl. pointer dereferences)
	releaseGates(c, "session")
	clientCloseOnExit(c)
	clientLockset(c)
	clientEpochReset(c)
	serverLockset(c)
	c.Note("not decided: the full announcement-order history over all interleavings")
}

func c23(c *an.Check) {
	wakeHelpers(c)
	p := c.P
	h := serverHandlers(c)
	if h == nil {
		return
	}
	getwS := trackerMethod(p, "sessionTracker", makesChan)
	getwP := trackerMethod(p, "serverPeerTracker", makesChan)
	isSrvGetter := func(call *ssa.Call) bool {
		return (getwS != nil && call.Call.Value == ssa.Value(getwS)) || (getwP != nil && call.Call.Value == ssa.Value(getwP))
	}
	waitDiscipline(c, "signaling server Session waits", h.sess, isSrvGetter, 1)
	waitDiscipline(c, "signaling server Listen waits", p.Func(srvPkg, "Server", "Listen"), isSrvGetter, 1)
	// client: the getter is the second parameter of HoldLock callbacks
	isCliGetter := func(call *ssa.Call) bool {
		pv, ok := call.Call.Value.(*ssa.Parameter)
		return ok && pv.Type().String() == "func() <-chan struct{}"
	}
	for _, f := range []struct{ recv, name string }{{"clientPeerTracker", "execute"}, {"ClientPeerRef", "Send"}, {"ClientPeerRef", "Recv"}} {
		waitDiscipline(c, "signaling client "+f.name+" waits", p.Func(cliPkg, f.recv, f.name), isCliGetter, 1)
	}
	// OWNCHECK: in Send, the local flag "my message occupies the outgoing slot" may only be cleared when the slot is
	// known to be empty or to hold another message; otherwise an epoch change makes Send forget its own in-flight
	// message and wait forever for a slot that only it can free.
	clientRetryAndReset(c)
	clientEpochReset(c)
	clientCloseOnExit(c)
	epochAnnouncementCompares(c, h)
	ownCheck(c)
	// the attach-order rule (shared with C22): a peer that has just attached must evaluate the session state before sleeping
	c22AttachOrder(c, h)
	epochSections(c)
	releaseGates(c, "both")
	serverLockset(c)
	clientLockset(c)
	c.Note("liveness itself (fairness, eventual delivery) is not statically decidable; in particular the client Send stall after a re-open with a message in flight (DESIGN D6) is not detected by these rules")
}

func c22AttachOrder(c *an.Check, h *srvHandlers) {
	// re-run only the R4 attach obligation of C22 under C23's name
	sub := an.NewCheck(c.Prop, c.Tier, c.P)
	c22(sub)
	for _, o := range sub.Obls {
		if o.Rule == "WAITCH" {
			c.Obls = append(c.Obls, o)
		}
	}
}

// epochAnnouncementCompares: the relay's decision to announce Opened/Closed must see the epoch VALUE, and the saved
// epoch it compares against must not alias the current epoch variable (shared by C22 and C23: a stable peer that is never
// told the new epoch keeps sending under the stale one and every request is dropped).
func epochAnnouncementCompares(c *an.Check, h *srvHandlers) {
	p := c.P
	// (c) the announcement decision must see the epoch VALUE
	nPtr, bad := 0, ""
	for _, g := range an.WithClosures(h.sess) {
		for _, b := range an.ScanBlocks(g) {
			for _, ins := range b.Instrs {
				bo, ok := ins.(*ssa.BinOp)
				if !ok || (bo.Op != token.EQL && bo.Op != token.NEQ) {
					continue
				}
				if _, isPtr := bo.X.Type().Underlying().(*types.Pointer); !isPtr {
					continue
				}
				if isNilConst(bo.X) || isNilConst(bo.Y) {
					continue
				}
				nPtr++
				for _, o := range []ssa.Value{bo.X, bo.Y} {
					for _, src := range waitSources(p, o) {
						if f := an.FieldOfAddr(src); f != nil && f.Origin() == h.seqnoF {
							bad = fmt.Sprintf("pointer comparison at %s: an operand can only be nil or &session.epoch, so the test is blind to a change of the epoch value", p.Pos(bo.Pos()))
						}
					}
				}
			}
		}
	}
	c.Require(bad == "", "PTRCMP", "signaling server epoch announcement compares epoch values", h.sess, "", nPtr+1, "no comparison of pointers into the shared epoch field", bad)
	// ... and a comparison of two dereferenced epoch pointers must not be able to read one and the same variable on both
	// sides (a "previous" pointer that aliases the "current" cell never differs): a shared target is only acceptable when it
	// is allocated inside the loop (a fresh cell per iteration).
	nDeref, alias := 0, ""
	for _, b := range an.ScanBlocks(h.sess) {
		for _, ins := range b.Instrs {
			bo, ok := ins.(*ssa.BinOp)
			if !ok || (bo.Op != token.EQL && bo.Op != token.NEQ) {
				continue
			}
			lx, okx := bo.X.(*ssa.UnOp)
			ly, oky := bo.Y.(*ssa.UnOp)
			if !okx || !oky || lx.Op != token.MUL || ly.Op != token.MUL {
				continue
			}
			if _, isPtr := lx.X.Type().Underlying().(*types.Pointer); !isPtr {
				continue
			}
			if lx.X.Type().String() != "*uint64" {
				continue
			}
			nDeref++
			sx, sy := waitSources(p, lx.X), waitSources(p, ly.X)
			loop := an.InnermostLoop(h.sess, b)
			for _, a := range sx {
				al, isAlloc := a.(*ssa.Alloc)
				if !isAlloc {
					continue
				}
				for _, bb := range sy {
					if bb == a && (loop == nil || !loop[al.Block()]) {
						alias = fmt.Sprintf("the comparison at %s dereferences two pointers that can both point at the single variable allocated at %s (outside the loop): the saved epoch aliases the current one and never differs", p.Pos(bo.Pos()), p.Pos(al.Pos()))
					}
				}
			}
		}
	}
	c.Require(alias == "" && nDeref >= 1, "PTRCMP", "signaling server saved epoch does not alias the current epoch variable", h.sess, "", nDeref, "the compared cells are distinct per loop iteration", func() string {
		if alias != "" {
			return alias
		}
		return "no value comparison of the saved and current epoch found (anchor drift)"
	}())
}

func c24(c *an.Check) {
	p := c.P
	listenCleanupGates(c)
	listen := p.Func(srvPkg, "Server", "Listen")
	listeningF := fv(c, srvPkg, "serverPeerTracker", "listening")
	wantF := fv(c, srvPkg, "serverPeerTracker", "wantPeers")
	peersF := fv(c, srvPkg, "Server", "peers")
	mtx := fv(c, srvPkg, "Server", "mtx")
	if listen == nil || listeningF == nil || wantF == nil || peersF == nil || mtx == nil {
		c.Undecided("CONSTFIELD", "signaling server listener tracking", nil, "unresolved anchor")
		return
	}
	// CONSTFIELD: the flag that protects a live listener's tracker is actually set, under the lock, by Listen
	nTrue, inListen := 0, false
	for _, a := range p.FieldAccesses(listeningF, p.PkgFuncs(srvPkg)) {
		if a.Kind == an.Write && isTrueConst(a.Val) {
			nTrue++
			if an.InFuncs(listen)(a.Fn) {
				inListen = true
			}
		}
	}
	c.Require(nTrue >= 1 && inListen, "CONSTFIELD", "signaling server marks a peer tracker as listening while Listen is attached", listen, "", nTrue, "listening = true is assigned in Listen", "the listening flag is never assigned true: a live listener's tracker is released when its last session closes and later sessions become invisible to it")
	// it is set before Listen first unlocks, and cleared only by the still-current call
	c.Gate(an.GateSpec{Rule: "MUSTCALL", Construct: "signaling server Listen registration critical section", Fn: listen,
		Sink: func(s *an.State, ins ssa.Instruction) bool {
			if !isMtxCall(ins, mtx, "Unlock") {
				return false
			}
			// first unlock only
			return !s.Executed(ins, func(i ssa.Instruction) bool { return isMtxCall(i, mtx, "Unlock") })
		},
		Reqs: []an.Req{{Name: "listening set before the lock is released", Holds: func(s *an.State, at ssa.Instruction) bool {
			return s.Executed(at, func(ins ssa.Instruction) bool { v, _, ok := storeTo(ins, listeningF); return ok && isTrueConst(v) })
		}}}})
	// release helper: deletes only when not listening and nobody wants the peer
	rel := one(pkgFuncsWhere(p, srvPkg, func(f *ssa.Function) bool {
		if f.Signature.Recv() == nil || !isNamedPtr(f.Signature.Recv().Type(), "Server") {
			return false
		}
		for _, a := range p.FieldAccesses(peersF, []*ssa.Function{f}) {
			if a.Kind == an.MapWrite {
				if call, ok := a.Instr.(*ssa.Call); ok && an.BuiltinName(call) == "delete" {
					return true
				}
			}
		}
		return false
	}))
	if rel == nil {
		c.Undecided("GATE", "signaling server peer-tracker release", nil, "unresolved anchor: function deleting from Server.peers not found")
	} else {
		c.Gate(an.GateSpec{Construct: "signaling server peer-tracker release (delete)", Fn: rel,
			Sink: func(s *an.State, ins ssa.Instruction) bool {
				call, ok := ins.(*ssa.Call)
				return ok && an.BuiltinName(call) == "delete"
			},
			Reqs: []an.Req{
				{Name: "no Listen attached (listening == false)", Holds: func(s *an.State, at ssa.Instruction) bool {
					for _, b := range an.ScanBlocks(rel) {
						for _, ins := range b.Instrs {
							if u, ok := ins.(*ssa.UnOp); ok && an.IsFieldLoad(u, listeningF) && s.IsFalse(u) {
								return true
							}
						}
					}
					return false
				}},
				an.FactReq("nobody wants this peer (len(wantPeers)==0)", func(s *an.State, x, y ssa.Value, r an.Rel) bool {
					return r == an.EQ && an.IsIntConst(y, 0) && an.LenOf(s, x, func(a ssa.Value) bool { return an.IsFieldLoad(a, wantF) })
				}),
			}})
		// WHO: the peers map is mutated only by the get-or-create helper and the release helper
		get := one(pkgFuncsWhere(p, srvPkg, func(f *ssa.Function) bool {
			for _, a := range p.FieldAccesses(peersF, []*ssa.Function{f}) {
				if a.Kind == an.MapWrite {
					if _, isUpd := a.Instr.(*ssa.MapUpdate); isUpd {
						return true
					}
				}
			}
			return false
		}))
		c.Who(an.WhoSpec{Construct: "signaling server peers map mutated only by get-or-create and release helpers", Field: peersF, Kinds: []an.AccessKind{an.MapWrite, an.Write},
			Allowed: func(fn *ssa.Function) bool {
				return an.InFuncs(get, rel)(fn) || strings.HasPrefix(fn.Name(), "NewServer")
			}, Min: 2, Funcs: p.PkgFuncs(srvPkg)})
	}
	// Listen's diff loop: SetPeer only for wanted-but-unsent, ClearPeer only for sent-but-unwanted
	listenDiff(c, listen, wantF)
	getwP := trackerMethod(p, "serverPeerTracker", makesChan)
	waitDiscipline(c, "signaling server Listen waits", listen, func(call *ssa.Call) bool { return getwP != nil && call.Call.Value == ssa.Value(getwP) }, 1)
	// want registration / withdrawal in Session
	h := serverHandlers(c)
	if h != nil {
		nAdd, nDel := 0, 0
		for _, a := range p.FieldAccesses(wantF, an.WithClosures(h.sess)) {
			if a.Kind == an.MapWrite {
				if _, isUpd := a.Instr.(*ssa.MapUpdate); isUpd {
					nAdd++
				} else {
					nDel++
				}
			}
		}
		var cleanup *ssa.Function
		for _, d := range deferredClosures(h.sess) {
			cleanup = d
		}
		if cleanup != nil {
			stillMe := an.FactReq("this call is still the registered peer", func(s *an.State, x, y ssa.Value, r an.Rel) bool {
				a, isAlloc := y.(*ssa.Alloc)
				return r == an.EQ && isAlloc && isNamedPtr(a.Type(), "sessionPeerTracker")
			})
			c.Gate(an.GateSpec{Construct: "signaling server Session cleanup withdraws the want", Fn: cleanup,
				Sink: func(s *an.State, ins ssa.Instruction) bool {
					call, ok := ins.(*ssa.Call)
					return ok && an.BuiltinName(call) == "delete" && an.IsFieldLoad(call.Call.Args[0], wantF)
				}, Reqs: []an.Req{stillMe}})
		}
		c.Require(nAdd == 1 && nDel == 1, "MUSTCALL", "signaling server Session registers its want and withdraws it on exit", h.sess, "", nAdd+nDel, "one insert on attach, one delete in the deferred cleanup", fmt.Sprintf("expected one insert and one delete of wantPeers in Session, found %d/%d", nAdd, nDel))
	}
	clientRetryAndReset(c)
	releaseGates(c, "peer")
	serverLockset(c)
}

// listenDiff: in Listen, a SetPeer is sent only for an id taken from wantPeers that was not in the sent set, and a
// ClearPeer only for an id taken from the sent set that is no longer wanted; the sent set is updated accordingly.
func listenDiff(c *an.Check, listen *ssa.Function, wantF *types.Var) {
	p := c.P
	// locate the local sent-set
	var sent *ssa.MakeMap
	for _, b := range an.ScanBlocks(listen) {
		for _, ins := range b.Instrs {
			if mm, ok := ins.(*ssa.MakeMap); ok {
				sent = mm
			}
		}
	}
	if sent == nil {
		c.Undecided("GATE", "signaling server Listen diff loop", listen, "unresolved anchor: local sent-set not found")
		return
	}
	// the two candidate-selection stores: txWant = id (from range over wantPeers) only when !sent[id]; txNotWant = id (from range over sent) only when !want[id]
	type sel struct {
		name     string
		fromWant bool
	}
	okBoth := true
	why := ""
	found := 0
	for _, b := range an.ScanBlocks(listen) {
		for _, ins := range b.Instrs {
			lk, ok := ins.(*ssa.Lookup)
			if !ok || !lk.CommaOk {
				continue
			}
			inSent := lk.X == ssa.Value(sent)
			inWant := an.IsFieldLoad(lk.X, wantF)
			if !inSent && !inWant {
				continue
			}
			found++
			// the key must come from ranging over the OTHER set
			keySrc := lk.Index
			fromWantRange := p.DependsOn(keySrc, func(v ssa.Value) bool {
				r, ok := v.(*ssa.Range)
				return ok && an.IsFieldLoad(r.X, wantF)
			})
			fromSentRange := p.DependsOn(keySrc, func(v ssa.Value) bool {
				r, ok := v.(*ssa.Range)
				return ok && r.X == ssa.Value(sent)
			})
			if inSent && !fromWantRange {
				okBoth, why = false, "the 'not yet sent' test is not applied to ids ranged from wantPeers"
			}
			if inWant && !fromSentRange {
				okBoth, why = false, "the 'no longer wanted' test is not applied to ids ranged from the sent set"
			}
		}
	}
	c.Require(okBoth && found == 2, "GATE", "signaling server Listen computes want∖sent and sent∖want", listen, "", found, "two membership tests: sent[id] for id in wantPeers, wantPeers[id] for id in sent", func() string {
		if why != "" {
			return why
		}
		return fmt.Sprintf("expected 2 membership tests, found %d", found)
	}())
	// sent-set bookkeeping follows successful sends
	nUpd, nDel := 0, 0
	for _, b := range an.ScanBlocks(listen) {
		for _, ins := range b.Instrs {
			if mu, ok := ins.(*ssa.MapUpdate); ok && mu.Map == ssa.Value(sent) {
				nUpd++
			}
			if call, ok := ins.(*ssa.Call); ok && an.BuiltinName(call) == "delete" && call.Call.Args[0] == ssa.Value(sent) {
				nDel++
			}
		}
	}
	c.Require(nUpd == 1 && nDel == 1, "GATE", "signaling server Listen records what it announced/withdrew", listen, "", nUpd+nDel, "sent[id] set after SetPeer, deleted after ClearPeer", "the sent-set is not updated once per announcement and once per withdrawal")
	// the map updates happen only after the corresponding Send succeeded
	c.Gate(an.GateSpec{Construct: "signaling server Listen sent-set update", Fn: listen,
		Sink: func(s *an.State, ins ssa.Instruction) bool {
			if mu, ok := ins.(*ssa.MapUpdate); ok && mu.Map == ssa.Value(sent) {
				return true
			}
			call, ok := ins.(*ssa.Call)
			return ok && an.BuiltinName(call) == "delete" && len(call.Call.Args) > 0 && call.Call.Args[0] == ssa.Value(sent)
		},
		Reqs: []an.Req{{Name: "the stream Send of this iteration succeeded", Holds: func(s *an.State, at ssa.Instruction) bool {
			for _, b := range an.ScanBlocks(listen) {
				for _, ins := range b.Instrs {
					if call, ok := ins.(*ssa.Call); ok && call.Call.IsInvoke() && call.Call.Method.Name() == "Send" && s.IsNil(call) {
						return true
					}
				}
			}
			return false
		}}}})
}

// listenCleanupGates: the deferred cleanup of Server.Listen clears the tracker's listening flag only while this call
// is still the registered listener (same tracker, same nonce) — a usurped call that clears it lets the live listener's
// tracker be released under it — and clears it before it offers the tracker for release (the release helper refuses
// trackers that are still marked listening, so the other order leaks the entry).
func listenCleanupGates(c *an.Check) {
	p := c.P
	listen := p.Func(srvPkg, "Server", "Listen")
	listeningF := fv(c, srvPkg, "serverPeerTracker", "listening")
	nonceF := fv(c, srvPkg, "serverPeerTracker", "listenNonce")
	rel := p.Func(srvPkg, "Server", "maybeReleasePeer")
	if listen == nil || listeningF == nil || nonceF == nil || rel == nil {
		c.Undecided("GATE", "signaling server Listen cleanup", nil, "unresolved anchor")
		return
	}
	isClear := func(ins ssa.Instruction) bool {
		v, _, ok := storeTo(ins, listeningF)
		return ok && isFalseConst(v)
	}
	var cleanups []*ssa.Function
	for _, g := range an.WithClosures(listen)[1:] {
		for _, b := range an.ScanBlocks(g) {
			for _, ins := range b.Instrs {
				if isClear(ins) {
					cleanups = append(cleanups, g)
				}
			}
		}
	}
	if len(cleanups) != 1 {
		c.Undecided("GATE", "signaling server Listen cleanup", listen, fmt.Sprintf("unresolved anchor: %d literals clear the listening flag", len(cleanups)))
		return
	}
	g := cleanups[0]
	c.Gate(an.GateSpec{Construct: "signaling server Listen cleanup clears the listening flag", Fn: g,
		Sink: func(s *an.State, ins ssa.Instruction) bool { return isClear(ins) },
		Reqs: []an.Req{
			an.FactReq("the tracker's nonce is still the one this call registered", func(s *an.State, x, y ssa.Value, r an.Rel) bool {
				if r != an.EQ {
					return false
				}
				_, xc := x.(*ssa.Const)
				_, yc := y.(*ssa.Const)
				// (the saved nonce is itself a load of the field, made when the call registered)
				return x != y && !xc && !yc && (an.IsFieldLoad(x, nonceF) || an.IsFieldLoad(y, nonceF))
			}),
			{Name: "the flag cleared is the registered tracker's (the one just compared)", Holds: func(s *an.State, at ssa.Instruction) bool {
				_, fa, ok := storeTo(at, listeningF)
				if !ok {
					return false
				}
				base := fa.X
				return s.AnyFact(func(s *an.State, x, y ssa.Value, r an.Rel) bool {
					return r == an.EQ && (s.Key(x) == s.Key(base) || s.Key(y) == s.Key(base)) && !isNilConst(x) && !isNilConst(y)
				})
			}}}})
	c.Gate(an.GateSpec{Rule: "ORDER", Construct: "signaling server Listen cleanup offers the tracker for release", Fn: g,
		Sink: func(s *an.State, ins ssa.Instruction) bool {
			return an.IsCallTo(ins, an.R(srvPkg, "Server", "maybeReleasePeer"))
		},
		Reqs: []an.Req{{Name: "listening flag cleared first", Holds: func(s *an.State, at ssa.Instruction) bool { return s.Executed(at, isClear) }}}})
}

func c25(c *an.Check) {
	wakeHelpers(c)
	listenCleanupGates(c)
	p := c.P
	listen := p.Func(srvPkg, "Server", "Listen")
	h := serverHandlers(c)
	nonceF := fv(c, srvPkg, "serverPeerTracker", "listenNonce")
	peersF, sessF := fv(c, srvPkg, "Server", "peers"), fv(c, srvPkg, "Server", "sessions")
	mtx := fv(c, srvPkg, "Server", "mtx")
	if listen == nil || h == nil || nonceF == nil || peersF == nil || sessF == nil {
		c.Undecided("GATE", "signaling server usurpation", nil, "unresolved anchor")
		return
	}
	// a newer Listen bumps the nonce; an older one returns ErrUserpedListen when it sees the nonce moved
	c.ErrProp(an.ErrPropSpec{Construct: "signaling server Listen ends when its nonce moved", Fn: listen, ErrIdx: -1, Failing: func(s *an.State) (bool, string) {
		return s.AnyFact(func(s *an.State, x, y ssa.Value, r an.Rel) bool {
			return r == an.NE && an.IsFieldLoad(x, nonceF) && an.IsFieldLoad(y, nonceF) && x != y
		}), "the tracker's listen nonce differs from the one this call registered"
	}})
	c.Gate(an.GateSpec{Rule: "MUSTCALL", Construct: "signaling server Listen registration bumps the nonce of an existing tracker", Fn: listen,
		Sink: func(s *an.State, ins ssa.Instruction) bool {
			return isMtxCall(ins, mtx, "Unlock") && !s.Executed(ins, func(i ssa.Instruction) bool { return isMtxCall(i, mtx, "Unlock") })
		},
		Reqs: []an.Req{{Name: "existing tracker: nonce incremented (or tracker is new)", Holds: func(s *an.State, at ssa.Instruction) bool {
			bumped := s.Executed(at, func(ins ssa.Instruction) bool {
				v, _, ok := storeTo(ins, nonceF)
				bo, isAdd := v.(*ssa.BinOp)
				return ok && isAdd && bo.Op == token.ADD
			})
			if bumped {
				return true
			}
			// "existed" result of the get-or-create helper is false
			for _, b := range an.ScanBlocks(listen) {
				for _, ins := range b.Instrs {
					if e, ok := ins.(*ssa.Extract); ok && e.Index == 1 && e.Type().String() == "bool" && s.IsFalse(e) {
						return true
					}
				}
			}
			return false
		}}}})
	// the deferred cleanups act only when this call is still the current one
	for _, w := range []struct {
		name string
		fn   *ssa.Function
		key  *types.Var
	}{{"Listen", listen, peersF}, {"Session", h.sess, sessF}} {
		var cleanup *ssa.Function
		for _, d := range deferredClosures(w.fn) {
			cleanup = d
		}
		if cleanup == nil {
			c.Undecided("GATE", "signaling server "+w.name+" cleanup", w.fn, "unresolved anchor: deferred cleanup not found")
			continue
		}
		name := w.name
		c.Gate(an.GateSpec{Construct: "signaling server " + name + " cleanup releases shared state", Fn: cleanup,
			Sink: func(s *an.State, ins ssa.Instruction) bool {
				call, ok := ins.(*ssa.Call)
				if !ok {
					return false
				}
				f, isFn := call.Call.Value.(*ssa.Function)
				return isFn && f.Signature.Recv() != nil && isNamedPtr(f.Signature.Recv().Type(), "Server") && strings.HasPrefix(f.Name(), "maybeRelease")
			},
			Reqs: []an.Req{{Name: "this call is still the registered one (tracker identity and nonce / peer slot)", Holds: func(s *an.State, at ssa.Instruction) bool {
				if name == "Listen" {
					nonceEq := s.AnyFact(func(s *an.State, x, y ssa.Value, r an.Rel) bool { return r == an.EQ && an.IsFieldLoad(x, nonceF) })
					// the tracker currently registered for the peer is the very tracker this call attached to
					sameTkr := s.AnyFact(func(s *an.State, x, y ssa.Value, r an.Rel) bool {
						lk, isLk := x.(*ssa.Lookup)
						if r != an.EQ || !isLk || !an.IsFieldLoad(lk.X, peersF) {
							return false
						}
						_, isConst := y.(*ssa.Const)
						return !isConst
					})
					return nonceEq && sameTkr
				}
				// Session: *currLocalPeer == ourPeerTkr
				return s.AnyFact(func(s *an.State, x, y ssa.Value, r an.Rel) bool {
					a, isAlloc := y.(*ssa.Alloc)
					return r == an.EQ && isAlloc && isNamedPtr(a.Type(), "sessionPeerTracker")
				})
			}}, {Name: "under Server.mtx", Holds: func(s *an.State, at ssa.Instruction) bool {
				locked := s.Executed(at, func(i ssa.Instruction) bool { return isMtxCall(i, mtx, "Lock") })
				unlocked := s.Executed(at, func(i ssa.Instruction) bool { return isMtxCall(i, mtx, "Unlock") })
				return locked && !unlocked
			}}}})
	}
	// the peer tracker released by Session's cleanup is the destination's (the one it registered its want on)
	{
		var cleanup *ssa.Function
		for _, d := range deferredClosures(h.sess) {
			cleanup = d
		}
		okRel, why := false, "cleanup / get-or-create call not found"
		if cleanup != nil {
			st := p.NewState(cleanup)
			var getArg ssa.Value
			for _, b := range an.ScanBlocks(h.sess) {
				for _, ins := range b.Instrs {
					if call, ok := ins.(*ssa.Call); ok {
						if f, ok := call.Call.Value.(*ssa.Function); ok && f.Name() == "getPeer" {
							getArg = call.Call.Args[1]
						}
					}
				}
			}
			for _, b := range an.ScanBlocks(cleanup) {
				for _, ins := range b.Instrs {
					if call, ok := ins.(*ssa.Call); ok {
						if f, ok := call.Call.Value.(*ssa.Function); ok && f.Name() == "maybeReleasePeer" && getArg != nil {
							okRel = st.Key(call.Call.Args[1]) == p.Key(getArg) || st.Key(st.Canon(call.Call.Args[1])) == st.Key(getArg)
							if !okRel {
								why = "the peer released on exit is not the peer whose tracker this call obtained (its destination)"
							}
						}
					}
				}
			}
		}
		c.Require(okRel, "PROVENANCE", "signaling server Session releases the tracker of its destination peer", h.sess, "", 1, "maybeReleasePeer(dst) with dst = the id passed to getPeer", why)
	}
	// Session returns ErrUserpedSession when it is no longer the registered peer
	c.ErrProp(an.ErrPropSpec{Construct: "signaling server Session ends when usurped", Fn: h.sess, ErrIdx: -1, Failing: func(s *an.State) (bool, string) {
		return s.AnyFact(func(s *an.State, x, y ssa.Value, r an.Rel) bool {
			e, isE := x.(*ssa.Extract)
			a, isAlloc := y.(*ssa.Alloc)
			return r == an.NE && isE && e.Index == 0 && isAlloc && isNamedPtr(a.Type(), "sessionPeerTracker") && an.InnermostLoop(h.sess, e.Block()) != nil
		}), "the registered peer slot no longer holds this call's tracker"
	}})
	// WHO: insertions / deletions of the two maps only through the helpers
	for _, w := range []struct {
		name string
		f    *types.Var
	}{{"peers", peersF}, {"sessions", sessF}} {
		f := w.f
		c.Who(an.WhoSpec{Construct: "signaling server " + w.name + " map mutated only by get-or-create / maybe-release helpers", Field: f, Kinds: []an.AccessKind{an.MapWrite, an.Write},
			Allowed: func(fn *ssa.Function) bool {
				n := an.Outermost(fn).Name()
				return strings.HasPrefix(n, "get") || strings.HasPrefix(n, "maybeRelease") || strings.HasPrefix(n, "NewServer")
			}, Min: 3, Funcs: p.PkgFuncs(srvPkg)})
	}
	// session release helper deletes only when both peer slots are empty
	relS := one(pkgFuncsWhere(p, srvPkg, func(f *ssa.Function) bool {
		for _, a := range p.FieldAccesses(sessF, []*ssa.Function{f}) {
			if call, ok := a.Instr.(*ssa.Call); ok && a.Kind == an.MapWrite && an.BuiltinName(call) == "delete" {
				return true
			}
		}
		return false
	}))
	peerA, peerB := fv(c, srvPkg, "sessionTracker", "peerA"), fv(c, srvPkg, "sessionTracker", "peerB")
	c.Gate(an.GateSpec{Construct: "signaling server session-tracker release (delete)", Fn: relS,
		Sink: func(s *an.State, ins ssa.Instruction) bool {
			call, ok := ins.(*ssa.Call)
			return ok && an.BuiltinName(call) == "delete"
		},
		Reqs: []an.Req{{Name: "both peer slots empty", Holds: func(s *an.State, at ssa.Instruction) bool {
			a, b := false, false
			for _, bl := range an.ScanBlocks(relS) {
				for _, ins := range bl.Instrs {
					if u, ok := ins.(*ssa.UnOp); ok {
						if an.IsFieldLoad(u, peerA) && s.IsNil(u) {
							a = true
						}
						if an.IsFieldLoad(u, peerB) && s.IsNil(u) {
							b = true
						}
					}
				}
			}
			return a && b
		}}}})
	// R10: the session key is the ordered pair, so both directions of a pair map to one session
	nk := one(pkgFuncsWhere(p, srvPkg, func(f *ssa.Function) bool {
		return f.Signature.Recv() == nil && f.Signature.Params().Len() == 2 && f.Signature.Results().Len() == 2 && strings.HasSuffix(f.Signature.Results().At(0).Type().String(), "sessionKey")
	}))
	if nk == nil {
		c.Undecided("ROLE", "signaling server session key is the ordered pair", nil, "unresolved anchor")
	} else {
		c.EachReturn("ROLE", "signaling server session key is the ordered pair", nk, "key = (min,max) under strings.Compare of the two ids; flag tells which side p1 is", func(s *an.State, ret *ssa.Return) string {
			k := s.RetVal(ret, 0)
			// sessionKey{peerA: x, peerB: y}: find the stores into the returned struct value
			var pa, pb ssa.Value
			if u, ok := k.(*ssa.UnOp); ok {
				if a, ok := u.X.(*ssa.Alloc); ok {
					for _, bl := range an.ScanBlocks(nk) {
						for _, ins := range bl.Instrs {
							if st, ok := ins.(*ssa.Store); ok {
								if fa, ok := st.Addr.(*ssa.FieldAddr); ok && fa.X == ssa.Value(a) {
									if fa.Field == 0 {
										pa = st.Val
									} else {
										pb = st.Val
									}
								}
							}
						}
					}
				}
			}
			if pa == nil || pb == nil {
				return "cannot resolve the key's components"
			}
			lt := s.AnyFact(func(s *an.State, x, y ssa.Value, r an.Rel) bool {
				call := an.ResultCallTo(x, an.X("strings", "", "Compare"))
				return call != nil && an.IsIntConst(y, 0) && r == an.LT && an.IsParam(call.Call.Args[0], 0) && an.IsParam(call.Call.Args[1], 1)
			})
			flag := s.RetVal(ret, 1)
			if lt {
				if an.IsParam(pa, 0) && an.IsParam(pb, 1) && s.IsTrue(flag) {
					return ""
				}
				return "p1 < p2 but the key is not (p1,p2) with flag true"
			}
			if an.IsParam(pa, 1) && an.IsParam(pb, 0) && s.IsFalse(flag) {
				return ""
			}
			return "p1 >= p2 but the key is not (p2,p1) with flag false"
		})
	}
	epochSections(c)
	releaseGates(c, "both")
	serverLockset(c)
}

func init() {
	register(&Def{ID: "C22", Run: c22,
		Explain:     "Decides on SSA for the relay's Session: (MUSTCALL) every critical section that changes a peer slot (attach; detach in the deferred cleanup) increments the epoch, wakes the waiters and clears the partner's pending delivery before it unlocks; (WAITCH) the attaching call obtains its wait channel before broadcasting its own registration, so it evaluates the session state instead of sleeping through its own event; (PTRCMP) the Opened/Closed announcement decision does not compare pointers into the shared epoch field (value-blind change detection); (LOCKSET) the epoch and all tracker fields, including dereferences of pointers to them, are touched only under Server.mtx. (PTRCMP) the saved epoch compared against the current one cannot alias the current epoch variable (a shared cell must be allocated per loop iteration); (MUSTCALL) the client's open handler discards the previous epoch's inbox; (GATE) a session tracker is dropped only when both endpoints are detached. broadcast() closes an existing wait channel unconditionally and the epoch / nonce counters are 64 bits wide; the client's close handler is armed as a deferred call.",
		NotCov:      "the announcement-order history over all interleavings, and delivery across epochs end-to-end.",
		Assumptions: commonAssumptions})
	register(&Def{ID: "C23", Run: c23,
		Explain:     "Decides a necessary condition of progress only (no lost wake-up): every blocking wait in the server's Session/Listen and the client's execute/Send/Recv takes a channel that comes from the wait-channel getter of the guarded state and, inside loops, is re-obtained (or the variable reset) in every iteration; the attaching server call takes its channel before its own broadcast; guarded state is only touched under its guard on both sides (LOCKSET). (OWNCHECK) the client mailbox protocol: Send keeps 'I transmitted' across a re-open and the close handler empties the slot; (GATE) a session tracker is dropped only with both endpoints detached and a peer tracker only when it neither listens nor is wanted. (CALLARG) per-peer client routines are built with keyed.WithBackoff; (MUSTCALL) the controller deletes a listen-session entry whenever it releases it; wake helpers as in C22; no lock leak. (PTRCMP) the relay's saved epoch does not alias the current epoch variable and epoch values, not pointers, are compared; (MUSTCALL) the client's open handler resets recv, recvProcessed, outSent and outAcked; (OWNCHECK) an acknowledgement is consumed only for the call's own message.",
		NotCov:      "liveness itself: fairness and eventualities are outside static analysis. The client Send stall after a re-open with a message in flight (DESIGN D6) is NOT detected by these rules.",
		Assumptions: commonAssumptions})
	register(&Def{ID: "C24", Run: c24,
		Explain:     "Decides on SSA: (CONSTFIELD) the 'listening' flag that keeps a live listener's tracker from being released is assigned true by Listen before it first unlocks; (R1) the release helper deletes a peer tracker only when listening is false and nobody wants the peer; (WHO) Server.peers is mutated only by the get-or-create and release helpers; Listen's diff loop tests sent[id] for ids ranged from wantPeers and wantPeers[id] for ids ranged from the sent set, and updates the sent set only after the corresponding Send succeeded; Session inserts its want once and deletes it in its cleanup; waits are lost-wake-up free; LOCKSET on Server.mtx. (GATE) the cleanup withdraws the want only while this call is still the registered one; a peer tracker is dropped only when it neither listens nor is wanted. Signaling codec sanity (a withdrawal never travels as an announcement); client retry/reset obligations as in C23. (GATE/ORDER) Listen's cleanup clears the listening flag only while it is still the registered call (same tracker, same nonce) and before it offers the tracker for release.",
		NotCov:      "eventual equality of announced and wanting sets over all histories (a liveness/model statement).",
		Assumptions: commonAssumptions})
	register(&Def{ID: "C25", Run: c25,
		Explain:     "Decides on SSA: an older Listen returns an error once the tracker's nonce differs from the one it registered, and a new Listen bumps the nonce of an existing tracker before unlocking; Session returns an error once its peer slot holds another call; both deferred cleanups call the release helpers only when still the registered call and under Server.mtx; peers/sessions maps are mutated only through get-or-create / maybe-release helpers (WHO); a session tracker is deleted only when both slots are empty; (ROLE) the session key is the (min,max) ordered pair under strings.Compare with a flag telling the caller's side; LOCKSET. (GATE) the Listen cleanup acts only when the registered tracker is the very tracker of this call and the nonce is unchanged; (PROVENANCE) the tracker released by Session's cleanup is the destination's; release predicates as in C23. wake helpers (unconditional broadcast, 64-bit counters) and epoch sections shared with C22/C23. (GATE/ORDER) Listen's cleanup clears the listening flag only while it is still the registered call and before it offers the tracker for release.",
		NotCov:      "emptiness of the maps at quiescence for all histories.",
		Assumptions: commonAssumptions})
}

// releaseGates decides the two tracker-release predicates of the signaling server: a session tracker is dropped only when
// neither endpoint is attached, a peer tracker only when it neither listens nor is wanted by anyone.
func releaseGates(c *an.Check, which string) {
	p := c.P
	fieldLoads := func(fn *ssa.Function, f *types.Var) []ssa.Value {
		var out []ssa.Value
		for _, b := range an.ScanBlocks(fn) {
			for _, ins := range b.Instrs {
				if u, ok := ins.(*ssa.UnOp); ok && u.Op == token.MUL && an.IsFieldLoad(u, f) {
					out = append(out, u)
				}
			}
		}
		return out
	}
	some := func(vs []ssa.Value, pred func(ssa.Value) bool) bool {
		for _, v := range vs {
			if pred(v) {
				return true
			}
		}
		return false
	}
	isDeleteOn := func(f *types.Var) func(*an.State, ssa.Instruction) bool {
		return func(s *an.State, ins ssa.Instruction) bool {
			call, ok := ins.(*ssa.Call)
			return ok && an.BuiltinName(call) == "delete" && an.IsFieldLoad(call.Call.Args[0], f)
		}
	}
	if which == "session" || which == "both" {
		fn := p.Func("signaling/rpc/server", "Server", "maybeReleaseSession")
		sessF := fv(c, "signaling/rpc/server", "Server", "sessions")
		aF, bF := fv(c, "signaling/rpc/server", "sessionTracker", "peerA"), fv(c, "signaling/rpc/server", "sessionTracker", "peerB")
		if fn == nil || sessF == nil || aF == nil || bF == nil {
			c.Undecided("GATE", "signaling server maybeReleaseSession", nil, "unresolved anchor")
		} else {
			c.Gate(an.GateSpec{Construct: "signaling server drops a session tracker", Fn: fn, Sink: isDeleteOn(sessF), Reqs: []an.Req{
				{Name: "endpoint A detached", Holds: func(s *an.State, at ssa.Instruction) bool { return some(fieldLoads(fn, aF), s.IsNil) }},
				{Name: "endpoint B detached", Holds: func(s *an.State, at ssa.Instruction) bool { return some(fieldLoads(fn, bF), s.IsNil) }},
			}})
		}
	}
	if which == "peer" || which == "both" {
		fn := p.Func("signaling/rpc/server", "Server", "maybeReleasePeer")
		peersF := fv(c, "signaling/rpc/server", "Server", "peers")
		lF, wF := fv(c, "signaling/rpc/server", "serverPeerTracker", "listening"), fv(c, "signaling/rpc/server", "serverPeerTracker", "wantPeers")
		if fn == nil || peersF == nil || lF == nil || wF == nil {
			c.Undecided("GATE", "signaling server maybeReleasePeer", nil, "unresolved anchor")
		} else {
			c.Gate(an.GateSpec{Construct: "signaling server drops a peer tracker", Fn: fn, Sink: isDeleteOn(peersF), Reqs: []an.Req{
				{Name: "no Listen call attached", Holds: func(s *an.State, at ssa.Instruction) bool { return some(fieldLoads(fn, lF), s.IsFalse) }},
				an.FactReq("nobody wants this peer (len(wantPeers)==0)", func(s *an.State, x, y ssa.Value, r an.Rel) bool {
					return r == an.EQ && an.IsIntConst(y, 0) && an.LenOf(s, x, func(a ssa.Value) bool { return an.IsFieldLoad(a, wF) })
				}),
			}})
		}
	}
}

// clientCloseOnExit: the client's per-peer session routine arms, before its read loop, a deferred call that runs the
// close handler (the critical section that forgets the open epoch and empties both mailboxes). Without it a stream
// failure leaves the stale epoch behind; when the relay's epoch counter restarts at the same number the open handler
// sees "nothing changed" and a pending Send waits forever.
func clientCloseOnExit(c *an.Check) {
	p := c.P
	ex := p.Func(cliPkg, "clientPeerTracker", "execute")
	openF := fv(c, cliPkg, "clientPeerTracker", "open")
	if ex == nil || openF == nil {
		c.Undecided("MUSTCALL", "signaling client runs its close handler on every exit", nil, "unresolved anchor")
		return
	}
	// the close handler: the literal (possibly nesting a HoldLock literal) that stores nil to open
	var closeFns []*ssa.Function
	for _, g := range an.WithClosures(ex) {
		if g.Parent() != ex {
			continue
		}
		for _, h := range an.WithClosures(g) {
			if storesField(h, openF, isNilConst) {
				closeFns = append(closeFns, g)
				break
			}
		}
	}
	okD, why := false, "close handler not found"
	if len(closeFns) == 1 {
		why = "no deferred call in the session routine runs the close handler: a failing stream leaves the open epoch and both mailboxes as they were"
		callsClose := func(g *ssa.Function) bool {
			for _, b := range an.ScanBlocks(g) {
				for _, ins := range b.Instrs {
					call, ok := ins.(*ssa.Call)
					if !ok {
						continue
					}
					v := call.Call.Value
					if u, isLoad := v.(*ssa.UnOp); isLoad {
						v = u.X
					}
					if fvv, isFV := v.(*ssa.FreeVar); isFV {
						v = p.Binding(fvv)
						if a, isAlloc := v.(*ssa.Alloc); isAlloc {
							v = p.SingleStore(a)
						}
					}
					if mc, isMC := v.(*ssa.MakeClosure); isMC && mc.Fn == ssa.Value(closeFns[0]) {
						return true
					}
				}
			}
			return false
		}
		for _, b := range an.ScanBlocks(ex) {
			for _, ins := range b.Instrs {
				d, ok := ins.(*ssa.Defer)
				if !ok {
					continue
				}
				switch v := d.Call.Value.(type) {
				case *ssa.MakeClosure:
					if v.Fn == ssa.Value(closeFns[0]) || callsClose(v.Fn.(*ssa.Function)) {
						okD = true
					}
				}
			}
		}
	}
	c.Require(okD, "MUSTCALL", "signaling client runs its close handler on every exit of the session routine", ex, "", 1, "defer { …; handleClose() } armed in execute", why)
}

// clientRetryAndReset: the client keeps trying while the application holds a reference — its per-peer session routines
// are constructed with a backoff (not "no retry") option — and when the Listen stream restarts the controller forgets
// the sessions it had opened for the previous stream (entry removed, not merely released), so the wants re-announced
// by the new stream are acted upon.
func clientRetryAndReset(c *an.Check) {
	p := c.P
	nc := p.Func(cliPkg, "", "NewClient")
	okB, whyB := false, "NewClient not found"
	if nc != nil {
		whyB = "the per-peer session tracker container is not constructed with keyed.WithBackoff: with the default (nil) backoff configuration a failed session call is never retried"
		for _, b := range an.ScanBlocks(nc) {
			for _, ins := range b.Instrs {
				call, ok := ins.(*ssa.Call)
				if !ok {
					continue
				}
				if fo := an.CallObj(call.Common()); fo != nil && fo.Name() == "WithBackoff" && fo.Pkg() != nil && strings.HasSuffix(fo.Pkg().Path(), "/keyed") {
					okB = true
				}
			}
		}
	}
	c.Require(okB, "CALLARG", "signaling client retries failed session calls (backoff option, nil-safe)", nc, "", 1, "keyed.WithBackoff(func → backoffConf.Construct())", whyB)
	hp := p.Func(cliPkg, "Controller", "handlePeerWantsSession")
	lsF := fv(c, cliPkg, "Controller", "listenSessions")
	if hp == nil || lsF == nil {
		c.Undecided("MUSTCALL", "signaling client controller forgets sessions on a Listen reset", nil, "unresolved anchor")
		return
	}
	// every Release() of a tracked listen-session reference is accompanied by the deletion of its map entry (same function)
	nRel, bad := 0, ""
	for _, g := range an.WithClosures(hp) {
		rel, del := false, false
		for _, b := range an.ScanBlocks(g) {
			for _, ins := range b.Instrs {
				call, ok := ins.(*ssa.Call)
				if !ok {
					continue
				}
				if fo := an.CallObj(call.Common()); fo != nil && fo.Name() == "Release" {
					if p.DependsOn(an.CallArgs(call.Common())[0], func(v ssa.Value) bool {
						switch x := v.(type) {
						case *ssa.Lookup:
							return an.IsFieldLoad(x.X, lsF)
						case *ssa.Next:
							return true
						}
						return false
					}) {
						rel = true
					}
				}
				if an.BuiltinName(call) == "delete" && an.IsFieldLoad(call.Call.Args[0], lsF) {
					del = true
				}
			}
		}
		if rel {
			nRel++
			if !del {
				bad = fmt.Sprintf("%s releases listen-session references without deleting their map entries: after a Listen restart the re-announced peer 'already exists' and its session is never re-opened", an.FuncName(g))
			}
		}
	}
	c.Require(bad == "" && nRel >= 1, "MUSTCALL", "signaling client controller deletes a listen-session entry whenever it releases it", hp, "", nRel, "Release() and delete(listenSessions, id) in the same helper", func() string {
		if bad != "" {
			return bad
		}
		return "no release of a tracked listen session found (anchor drift)"
	}())
}

// wakeHelpers: the relay's condition-variable helpers do what every wake-up rule above assumes — broadcast() closes the
// wait channel whenever one exists (no further condition) and forgets it; and the counters that distinguish "my call" from
// "a later call" (listen nonce, session epoch) are 64 bits wide, so they cannot wrap back to a value an old call holds.
func wakeHelpers(c *an.Check) {
	p := c.P
	n := 0
	for _, T := range []string{"serverPeerTracker", "sessionTracker"} {
		bc := trackerMethod(p, T, closesChan)
		waitF := fv(c, srvPkg, T, "wait")
		if bc == nil || waitF == nil {
			c.Undecided("MUSTCALL", "signaling server "+T+".broadcast", nil, "unresolved anchor")
			continue
		}
		n++
		c.EachReturn("MUSTCALL", "signaling server "+T+".broadcast wakes every waiter", bc, "every return: wait channel closed and forgotten, or there was none", func(s *an.State, ret *ssa.Return) string {
			closed := s.Executed(ret, func(i ssa.Instruction) bool {
				call, ok := i.(*ssa.Call)
				return ok && an.BuiltinName(call) == "close"
			})
			if closed {
				cleared := s.Executed(ret, func(i ssa.Instruction) bool { v, _, ok := storeTo(i, waitF); return ok && isNilConst(v) })
				if !cleared {
					return "the closed wait channel is kept: the next broadcast closes it again (panic) or waiters obtain an already closed channel"
				}
				return ""
			}
			for _, b := range an.ScanBlocks(bc) {
				for _, ins := range b.Instrs {
					if u, ok := ins.(*ssa.UnOp); ok && an.IsFieldLoad(u, waitF) && s.IsNil(u) {
						return ""
					}
				}
			}
			return "broadcast returns without closing an existing wait channel (it is conditioned on something else): a call waiting on it is never woken — e.g. a replaced Listen call never learns it was replaced"
		})
	}
	okW, whyW := true, ""
	for _, fr := range [][2]string{{"serverPeerTracker", "listenNonce"}, {"sessionTracker", "seqno"}} {
		f := fv(c, srvPkg, fr[0], fr[1])
		if f == nil {
			okW, whyW = false, "unresolved anchor: "+fr[0]+"."+fr[1]
			continue
		}
		b, isB := f.Type().Underlying().(*types.Basic)
		if !isB || (b.Kind() != types.Uint64 && b.Kind() != types.Int64) {
			okW, whyW = false, fmt.Sprintf("%s.%s is declared %s: after a wrap-around an old call's remembered value matches again and it keeps running next to the newest call", fr[0], fr[1], f.Type())
		}
	}
	c.Require(okW && n == 2, "CONSTFIELD", "signaling server call-identity counters are 64 bits wide", nil, "", 2, "listenNonce, seqno: uint64", whyW)
}

func ownCheck(c *an.Check) {
	p := c.P
	send := p.Func(cliPkg, "ClientPeerRef", "Send")
	outF := fv(c, cliPkg, "clientPeerTracker", "out")
	openF := fv(c, cliPkg, "clientPeerTracker", "open")
	if send == nil || outF == nil || openF == nil {
		c.Undecided("OWNCHECK", "signaling client Send ownership flag", nil, "unresolved anchor")
		return
	}
	// the critical section that places the message: stores a non-nil value into out
	lit := one(closuresWhere(send, func(g *ssa.Function) bool {
		return g.Parent() == send && storesField(g, outF, func(v ssa.Value) bool { return !isNilConst(v) })
	}))
	if lit == nil {
		c.Undecided("OWNCHECK", "signaling client Send ownership flag", send, "unresolved anchor: placing critical section not found")
		return
	}
	// the ownership flag: the captured bool cell set to true in the block that places the message
	var flag *ssa.Alloc
	for _, b := range an.ScanBlocks(lit) {
		places := false
		for _, ins := range b.Instrs {
			if v, _, ok := storeTo(ins, outF); ok && !isNilConst(v) {
				places = true
			}
		}
		if !places {
			continue
		}
		for _, ins := range b.Instrs {
			if st, ok := ins.(*ssa.Store); ok && isTrueConst(st.Val) {
				if a := p.CellOf(st.Addr); a != nil && a.Parent() == send {
					flag = a
				}
			}
		}
	}
	if flag == nil {
		c.Undecided("OWNCHECK", "signaling client Send ownership flag", lit, "unresolved anchor: ownership flag not found")
		return
	}
	isOutSeqno := func(s *an.State, v ssa.Value) bool {
		u, ok := v.(*ssa.UnOp)
		if !ok {
			return false
		}
		fa, ok := u.X.(*ssa.FieldAddr)
		return ok && an.FieldOfAddr(fa) != nil && an.FieldOfAddr(fa).Name() == "Seqno" && an.IsFieldLoad(s.Canon(fa.X), outF)
	}
	c.Gate(an.GateSpec{Rule: "OWNCHECK", Construct: "signaling client Send clears its ownership flag", Fn: lit,
		Sink: func(s *an.State, ins ssa.Instruction) bool {
			st, ok := ins.(*ssa.Store)
			if !ok || p.CellOf(st.Addr) != flag {
				return false
			}
			k, isK := st.Val.(*ssa.Const)
			return isK && k.Value != nil && k.Value.String() == "false"
		},
		Reqs: []an.Req{{Name: "the outgoing slot is known empty or known to hold another message", Holds: func(s *an.State, at ssa.Instruction) bool {
			for _, b := range an.ScanBlocks(lit) {
				for _, ins := range b.Instrs {
					if u, ok := ins.(*ssa.UnOp); ok && an.IsFieldLoad(u, outF) && s.IsNil(u) {
						return true
					}
				}
			}
			if s.AnyFact(func(s *an.State, x, y ssa.Value, r an.Rel) bool { return r == an.NE && isOutSeqno(s, x) }) {
				return true
			}
			// session closed: the close handler (the only writer of open=nil) empties the slot in the same critical section
			for _, b := range an.ScanBlocks(lit) {
				for _, ins := range b.Instrs {
					if u, ok := ins.(*ssa.UnOp); ok && an.IsFieldLoad(u, openF) && s.IsNil(u) {
						return true
					}
				}
			}
			return false
		}}}})
	// Send consumes an acknowledgement (empties the outgoing slot and reports success) only when the slot holds its own
	// message: a queued Send that has not placed its message must not take the ack of the one in flight
	c.Gate(an.GateSpec{Rule: "OWNCHECK", Construct: "signaling client Send consumes an acknowledgement", Fn: lit,
		Sink: func(s *an.State, ins ssa.Instruction) bool {
			v, _, ok := storeTo(ins, outF)
			return ok && isNilConst(v)
		},
		Reqs: []an.Req{an.FactReq("the outgoing slot holds this call's message (out.Seqno == seqno)", func(s *an.State, x, y ssa.Value, r an.Rel) bool {
			return r == an.EQ && (isOutSeqno(s, x) || isOutSeqno(s, y))
		})}})
	// side obligation for the "session closed" case: whoever sets open=nil leaves the outgoing slot empty
	ex := p.Func(cliPkg, "clientPeerTracker", "execute")
	closers := closuresWhere(ex, func(g *ssa.Function) bool { return storesField(g, openF, isNilConst) })
	c.Require(len(closers) >= 1, "OWNCHECK", "signaling client: writers of open=nil found", ex, "", len(closers), "close handler located", "no function sets open=nil (anchor drift)")
	for _, g := range closers {
		g := g
		c.Gate(an.GateSpec{Rule: "OWNCHECK", Construct: "signaling client close handler leaves the outgoing slot empty", Fn: g,
			Sink: func(s *an.State, ins ssa.Instruction) bool { _, ok := ins.(*ssa.Return); return ok },
			Reqs: []an.Req{{Name: "out == nil when the critical section ends", Holds: func(s *an.State, at ssa.Instruction) bool {
				cleared := s.Executed(at, func(i ssa.Instruction) bool { v, _, ok := storeTo(i, outF); return ok && isNilConst(v) })
				if cleared {
					return true
				}
				for _, b := range an.ScanBlocks(g) {
					for _, ins := range b.Instrs {
						if u, ok := ins.(*ssa.UnOp); ok && an.IsFieldLoad(u, outF) && s.IsNil(u) {
							return true
						}
					}
				}
				return false
			}}}})
	}
}
