package props

import (
	"fmt"
	"go/token"
	"go/types"
	"sort"
	"strings"

	"bifrostverify/an"

	"golang.org/x/tools/go/ssa"
)

const (
	sigPkg = "signaling/rpc"
	srvPkg = "signaling/rpc/server"
	cliPkg = "signaling/rpc/client"
)

var (
	cSMEV      = an.R(sigPkg, "SessionMsg", "ExtractAndVerify")
	cIDString  = an.R("peer", "ID", "String")
	cSignedEAV = fnSMExtractAndVerify
)

func fv(c *an.Check, pkg, typ, field string) *types.Var {
	return c.P.FieldVar(an.FieldRef{Pkg: pkg, Type: typ, Field: field})
}

// storeTo: ins is a store to field f; returns the stored value.
func storeTo(ins ssa.Instruction, f *types.Var) (ssa.Value, *ssa.FieldAddr, bool) {
	st, ok := ins.(*ssa.Store)
	if !ok || f == nil {
		return nil, nil, false
	}
	fa, ok := st.Addr.(*ssa.FieldAddr)
	if !ok {
		return nil, nil, false
	}
	if g := an.FieldOfAddr(fa); g == nil || g.Origin() != f {
		return nil, nil, false
	}
	return st.Val, fa, true
}

// closuresWhere finds function literals nested in fn (any depth) satisfying pred.
func closuresWhere(fn *ssa.Function, pred func(*ssa.Function) bool) []*ssa.Function {
	return findClosures(fn, pred)
}

func storesField(g *ssa.Function, f *types.Var, valPred func(ssa.Value) bool) bool {
	for _, b := range an.ScanBlocks(g) {
		for _, ins := range b.Instrs {
			if v, _, ok := storeTo(ins, f); ok && (valPred == nil || valPred(v)) {
				return true
			}
		}
	}
	return false
}

func isNilConst(v ssa.Value) bool {
	k, ok := v.(*ssa.Const)
	return ok && k.Value == nil
}

func isTrueConst(v ssa.Value) bool {
	k, ok := v.(*ssa.Const)
	return ok && k.Value != nil && k.Value.String() == "true"
}

// typeSwitchSet returns the names of the concrete types a function (with closures) type-asserts v's interface type to,
// restricted to asserted types whose name has the given prefix.
func typeAssertSet(fns []*ssa.Function, prefix string) []string {
	set := map[string]bool{}
	for _, fn := range fns {
		for _, b := range an.ScanBlocks(fn) {
			for _, ins := range b.Instrs {
				if ta, ok := ins.(*ssa.TypeAssert); ok {
					t := ta.AssertedType
					if pt, ok := t.(*types.Pointer); ok {
						t = pt.Elem()
					}
					if n, ok := t.(*types.Named); ok && strings.HasPrefix(n.Obj().Name(), prefix) {
						set[n.Obj().Name()] = true
					}
				}
			}
		}
	}
	var out []string
	for k := range set {
		out = append(out, k)
	}
	sort.Strings(out)
	return out
}

// sessionMsgWrappers: SessionMsg.ExtractAndVerify / Validate / NewSessionMsg all use the one package constant context.
func sessionMsgWrappers(c *an.Check) {
	p := c.P
	loadConst(c, sigPkg, "encContext")
	eav := p.Func(sigPkg, "SessionMsg", "ExtractAndVerify")
	val := p.Func(sigPkg, "SessionMsg", "Validate")
	nsm := p.Func(sigPkg, "", "NewSessionMsg")
	ok, why := eav != nil && val != nil && nsm != nil, "unresolved anchor"
	if ok {
		cOwnEAV := an.R(sigPkg, "SessionMsg", "ExtractAndVerify")
		for _, f := range []*ssa.Function{eav, val} {
			// Validate may also delegate to the message's own ExtractAndVerify (which is held to the rule itself)
			if f == val {
				if own := an.Calls(f, cOwnEAV); len(own) == 1 && an.IsParam(own[0].Call.Args[0], 0) && len(an.Calls(f, cSignedEAV)) == 0 {
					continue
				}
			}
			cs := an.Calls(f, cSignedEAV)
			if len(cs) != 1 || !isNamedConst(cs[0].Call.Args[1], "encContext") || an.ResultCallTo(cs[0].Call.Args[0], an.R(sigPkg, "SessionMsg", "GetSignedMsg")) == nil {
				ok, why = false, an.FuncName(f)+" does not verify its own signed message under the package context constant"
			}
		}
		ns := an.Calls(nsm, an.R("peer", "", "NewSignedMsg"))
		if len(ns) != 1 || !isNamedConst(ns[0].Call.Args[0], "encContext") {
			ok, why = false, "NewSessionMsg does not sign under the package context constant"
		}
	}
	c.Require(ok, "MIRROR", "signaling session messages are signed and verified under one context constant", eav, "", 3, "NewSessionMsg / ExtractAndVerify / Validate all pass encContext", why)
	if eav != nil {
		c.EachReturn("PROVENANCE", "signaling SessionMsg.ExtractAndVerify forwards the verifier's verdict", eav, "returns SignedMsg.ExtractAndVerify's results", func(s *an.State, ret *ssa.Return) string {
			if an.ResultCallTo(s.RetVal(ret, -1), cSignedEAV) == nil {
				return "the returned error is not the verifier's error"
			}
			return ""
		})
	}
	if val != nil {
		c.EachReturn("PROVENANCE", "signaling SessionMsg.Validate forwards the verifier's verdict", val, "returns SignedMsg.ExtractAndVerify's error", func(s *an.State, ret *ssa.Return) string {
			if an.ResultCallTo(s.RetVal(ret, -1), cSignedEAV) == nil && an.ResultCallTo(s.RetVal(ret, -1), an.R(sigPkg, "SessionMsg", "ExtractAndVerify")) == nil {
				return "the returned error is not the verifier's error"
			}
			return ""
		})
	}
}

func c19(c *an.Check) {
	p := c.P
	ex := p.Func(cliPkg, "clientPeerTracker", "execute")
	recvF := fv(c, cliPkg, "clientPeerTracker", "recv")
	keyF := fv(c, cliPkg, "clientPeerTracker", "key")
	if ex == nil || recvF == nil || keyF == nil {
		c.Undecided("GATE", "signaling client receive handler", nil, "unresolved anchor")
		return
	}
	hr := one(closuresWhere(ex, func(g *ssa.Function) bool { return callsAny(g, cSMEV) }))
	if hr == nil {
		c.Undecided("GATE", "signaling client receive handler", ex, "unresolved anchor: expected exactly one closure calling SessionMsg.ExtractAndVerify")
		return
	}
	c.Gate(an.GateSpec{Construct: "signaling client accepts an incoming message (recv = msg)", Fn: hr, Descend: true,
		Sink: func(s *an.State, ins ssa.Instruction) bool {
			v, _, ok := storeTo(ins, recvF)
			return ok && !s.IsNil(v)
		},
		Reqs: []an.Req{
			an.CallOK("ExtractAndVerify ok", cSMEV),
			an.FactReq("verified sender == the session's peer", func(s *an.State, x, y ssa.Value, r an.Rel) bool {
				if r != an.EQ || !an.IsFieldLoad(x, keyF) {
					return false
				}
				sc := an.ResultCallTo(y, cIDString)
				if sc == nil {
					return false
				}
				e, ok := s.Canon(sc.Call.Args[0]).(*ssa.Extract)
				return ok && e.Index == 1 && an.ResultCallTo(e, cSMEV) != nil
			}),
			{Name: "the stored message is the verified one", Holds: func(s *an.State, at ssa.Instruction) bool {
				v, _, _ := storeTo(at, recvF)
				cv := s.Canon(v)
				ev := an.Calls(hr, cSMEV)
				return len(ev) == 1 && an.IsParam(cv, 0) && cv.Parent() == hr && s.Key(ev[0].Call.Args[0]) == s.Key(cv)
			}},
		}})
	c.ErrProp(an.ErrPropSpec{Construct: "signaling client receive handler propagates verification failure", Fn: hr, Failing: an.CallFailed(cSMEV), ErrIdx: -1})
	// only that handler stores a message into recv
	n, bad := 0, ""
	for _, a := range p.FieldAccesses(recvF, p.PkgFuncs(cliPkg)) {
		if a.Kind == an.Write && !isNilConst(a.Val) {
			n++
			if !an.InFuncs(hr)(a.Fn) {
				bad = an.FuncName(a.Fn)
			}
		}
	}
	c.Require(bad == "" && n == 1, "WHO", "signaling client: only the verifying handler stores a received message", hr, "", n, "single non-nil store to recv, inside the verifying handler", "a message is stored into recv outside the verifying handler: "+bad)
	// the read loop hands RecvMsg bodies to that handler, and a handler failure ends the session
	var loop *ssa.Function
	for _, g := range an.WithClosures(ex)[1:] {
		if g.Parent() == ex && len(typeAssertSet([]*ssa.Function{g}, "SessionResponse_")) > 0 {
			loop = g
		}
	}
	if loop == nil {
		c.Undecided("SIBLING", "signaling client read loop", ex, "unresolved anchor: read loop closure not found")
	} else {
		got := typeAssertSet([]*ssa.Function{loop}, "SessionResponse_")
		want := typeAssertSet([]*ssa.Function{p.Func(sigPkg, "SessionResponse", "Validate")}, "SessionResponse_")
		c.Require(strings.Join(got, ",") == strings.Join(want, ",") && len(got) >= 5, "SIBLING", "signaling client read loop handles exactly the response bodies Validate knows", loop, "", len(got)+len(want),
			fmt.Sprintf("both switch over %v", got), fmt.Sprintf("read loop handles %v but SessionResponse.Validate knows %v", got, want))
	}
	sessionMsgWrappers(c)
	signedMsgCore(c)
	c.Note("not decided: that a message was submitted for delivery to this peer — the signed bytes contain neither the recipient nor the session epoch, so re-targeting by the relay cannot be excluded by any check on this code (DESIGN §4 C19)")
	clientLockset(c)
}

// serverSession resolves the server's Session function and its handler closures by content.
type srvHandlers struct {
	sess                  *ssa.Function
	send, ack, clear      *ssa.Function
	check                 *ssa.Function
	recvF, recvSentF      *types.Var
	recvClearF, outAckedF *types.Var
	seqnoF                *types.Var
}

func serverHandlers(c *an.Check) *srvHandlers {
	p := c.P
	h := &srvHandlers{sess: p.Func(srvPkg, "Server", "Session")}
	h.recvF = fv(c, srvPkg, "sessionPeerTracker", "recv")
	h.recvSentF = fv(c, srvPkg, "sessionPeerTracker", "recvSent")
	h.recvClearF = fv(c, srvPkg, "sessionPeerTracker", "recvClear")
	h.outAckedF = fv(c, srvPkg, "sessionPeerTracker", "outAcked")
	h.seqnoF = fv(c, srvPkg, "sessionTracker", "seqno")
	if h.sess == nil || h.recvF == nil || h.recvSentF == nil || h.recvClearF == nil || h.outAckedF == nil || h.seqnoF == nil {
		c.Undecided("GATE", "signaling server session handlers", nil, "unresolved anchor: Session or tracker fields not found")
		return nil
	}
	h.send = one(closuresWhere(h.sess, func(g *ssa.Function) bool { return callsAny(g, cSMEV) }))
	h.ack = one(closuresWhere(h.sess, func(g *ssa.Function) bool {
		return storesField(g, h.outAckedF, func(v ssa.Value) bool { return !isNilConst(v) })
	}))
	h.clear = one(closuresWhere(h.sess, func(g *ssa.Function) bool {
		return storesField(g, h.recvClearF, func(v ssa.Value) bool { return !isNilConst(v) })
	}))
	// the dispatch in the read loop says which closure handles which request body (more stable than what they store: a
	// clear handler that files its value in the ack slot is still the clear handler, and must be judged as one)
	byField := func(field string) *ssa.Function {
		var found []*ssa.Function
		for _, g := range an.WithClosures(h.sess) {
			for _, b := range an.ScanBlocks(g) {
				for _, ins := range b.Instrs {
					call, ok := ins.(*ssa.Call)
					if !ok || call.Call.IsInvoke() || call.Call.StaticCallee() != nil && call.Call.StaticCallee().Parent() == nil {
						continue
					}
					hit := false
					for _, a := range call.Call.Args {
						if u, isLoad := a.(*ssa.UnOp); isLoad {
							if fa, isFA := u.X.(*ssa.FieldAddr); isFA && an.FieldOfAddr(fa) != nil && an.FieldOfAddr(fa).Name() == field {
								hit = true
							}
						}
					}
					if !hit {
						continue
					}
					if f := call.Call.StaticCallee(); f != nil {
						found = append(found, f)
						continue
					}
					for _, src := range waitSources(p, call.Call.Value) {
						if mc, isMC := src.(*ssa.MakeClosure); isMC {
							found = append(found, mc.Fn.(*ssa.Function))
						}
					}
				}
			}
		}
		if len(found) == 1 {
			return found[0]
		}
		return nil
	}
	if f := byField("AckMsg"); f != nil {
		h.ack = f
	}
	if f := byField("ClearMsg"); f != nil {
		h.clear = f
	}
	h.check = one(pkgFuncsWhere(p, srvPkg, func(f *ssa.Function) bool {
		sig := f.Signature
		return sig.Recv() != nil && sig.Params().Len() == 1 && sig.Results().Len() == 2 && sig.Results().At(0).Type().String() == "bool" && sig.Results().At(1).Type().String() == "error" && isNamedPtr(sig.Recv().Type(), "sessionTracker")
	}))
	if h.send == nil || h.ack == nil || h.clear == nil || h.check == nil {
		c.Undecided("GATE", "signaling server session handlers", h.sess, "unresolved anchor: expected one send, one ack, one clear handler closure and the epoch check method")
		return nil
	}
	return h
}

// epochAndOwnership: the requirements shared by the three server handlers.
func (h *srvHandlers) common(fn *ssa.Function) []an.Req {
	cCheck := an.Callee{Pkg: "./" + srvPkg, Recv: "sessionTracker", Name: h.check.Name()}
	return []an.Req{
		{Name: "session epoch is current (check true, no error)", Holds: func(s *an.State, at ssa.Instruction) bool {
			for _, call := range an.Calls(fn, cCheck) {
				if r0, r1 := an.ErrResult(call, 0), an.ErrResult(call, 1); r0 != nil && r1 != nil && s.IsTrue(r0) && s.IsNil(r1) && an.IsParam(call.Call.Args[1], 0) {
					return true
				}
			}
			return false
		}},
		an.FactReq("this call is still the registered peer", func(s *an.State, x, y ssa.Value, r an.Rel) bool {
			if r != an.EQ {
				return false
			}
			e, ok := x.(*ssa.Extract)
			if !ok || e.Index != 0 {
				return false
			}
			a, isAlloc := y.(*ssa.Alloc)
			return isAlloc && a.Parent() == h.sess && isNamedPtr(a.Type(), "sessionPeerTracker")
		}),
	}
}

func remoteOf(s *an.State, fa *ssa.FieldAddr) (*ssa.Extract, bool) {
	e, ok := s.Canon(fa.X).(*ssa.Extract)
	return e, ok && e.Index == 1
}

func c20(c *an.Check) {
	p := c.P
	h := serverHandlers(c)
	if h == nil {
		return
	}
	identF := fv(c, srvPkg, "Server", "ident")
	reqs := append([]an.Req{
		an.CallOK("ExtractAndVerify ok", cSMEV),
		an.FactReq("verified sender == authenticated stream identity", func(s *an.State, x, y ssa.Value, r an.Rel) bool {
			if r != an.EQ {
				return false
			}
			sc := an.ResultCallTo(x, cIDString)
			if sc == nil {
				return false
			}
			e, ok := s.Canon(sc.Call.Args[0]).(*ssa.Extract)
			if !ok || e.Index != 1 || an.ResultCallTo(e, cSMEV) == nil {
				return false
			}
			// the other side is exactly String() of the identity returned by s.ident(ctx)
			yc := an.ResultCallTo(y, cIDString)
			if yc == nil {
				return false
			}
			ie, ok := s.Canon(yc.Call.Args[0]).(*ssa.Extract)
			if !ok || ie.Index != 0 {
				return false
			}
			ic, ok := ie.Tuple.(*ssa.Call)
			return ok && an.IsFieldLoad(ic.Call.Value, identF)
		}),
	}, h.common(h.send)...)
	reqs = append(reqs, an.Req{Name: "partner attached and the message goes to the partner's slot", Holds: func(s *an.State, at ssa.Instruction) bool {
		v, fa, _ := storeTo(at, h.recvF)
		e, ok := remoteOf(s, fa)
		if !ok || !s.NonNil(e) {
			return false
		}
		cv := s.Canon(v)
		ev := an.Calls(h.send, cSMEV)
		return len(ev) == 1 && an.IsParam(cv, 1) && s.Key(ev[0].Call.Args[0]) == s.Key(cv)
	}})
	c.Gate(an.GateSpec{Construct: "signaling server forwards a message (partner.recv = msg)", Fn: h.send,
		Sink: func(s *an.State, ins ssa.Instruction) bool {
			v, _, ok := storeTo(ins, h.recvF)
			return ok && !s.IsNil(v)
		}, Reqs: reqs})
	c.ErrProp(an.ErrPropSpec{Construct: "signaling server send handler propagates verification failure", Fn: h.send, Failing: an.CallFailed(cSMEV), ErrIdx: -1})
	// only the send handler places a message
	n, bad := 0, ""
	for _, a := range p.FieldAccesses(h.recvF, p.PkgFuncs(srvPkg)) {
		if a.Kind == an.Write && !isNilConst(a.Val) {
			n++
			if !an.InFuncs(h.send)(a.Fn) {
				bad = an.FuncName(a.Fn)
			}
		}
	}
	c.Require(bad == "" && n == 1, "WHO", "signaling server: only the verifying send handler stores a message for delivery", h.send, "", n, "single non-nil store to recv", "a message is queued for delivery outside the verifying handler: "+bad)
	// the epoch check itself
	c.Gate(an.GateSpec{Construct: "signaling server epoch check reports current", Fn: h.check,
		Sink: func(s *an.State, ins ssa.Instruction) bool {
			ret, ok := ins.(*ssa.Return)
			return ok && !s.IsFalse(s.RetVal(ret, 0))
		},
		Reqs: []an.Req{{Name: "result is (stored epoch == message epoch)", Holds: func(s *an.State, at ssa.Instruction) bool {
			ret := at.(*ssa.Return)
			bo, ok := s.RetVal(ret, 0).(*ssa.BinOp)
			if !ok || bo.Op != token.EQL {
				return s.AnyFact(func(s *an.State, x, y ssa.Value, r an.Rel) bool {
					return r == an.EQ && an.IsFieldLoad(x, h.seqnoF) && an.IsParam(y, 1)
				})
			}
			x, y := s.Canon(bo.X), s.Canon(bo.Y)
			return (an.IsFieldLoad(x, h.seqnoF) && an.IsParam(y, 1)) || (an.IsFieldLoad(y, h.seqnoF) && an.IsParam(x, 1))
		}}}})
	c.ErrProp(an.ErrPropSpec{Construct: "signaling server epoch check rejects epochs from the future", Fn: h.check, ErrIdx: -1, Failing: func(s *an.State) (bool, string) {
		return s.AnyFact(func(s *an.State, x, y ssa.Value, r an.Rel) bool {
			return r == an.LT && an.IsFieldLoad(x, h.seqnoF) && an.IsParam(y, 1)
		}), "stored epoch < message epoch"
	}})
	// session registration only past a well-formed init
	cNewKey := one(pkgFuncsWhere(p, srvPkg, func(f *ssa.Function) bool {
		return f.Signature.Recv() == nil && f.Signature.Params().Len() == 2 && f.Signature.Results().Len() == 2 && strings.HasSuffix(f.Signature.Results().At(0).Type().String(), "sessionKey")
	}))
	if cNewKey == nil {
		c.Undecided("GATE", "signaling server session registration", h.sess, "unresolved anchor: session key constructor not found")
	} else {
		keyCallee := an.Callee{Pkg: "./" + srvPkg, Name: cNewKey.Name()}
		c.Gate(an.GateSpec{Construct: "signaling server session registration", Fn: h.sess,
			Sink: func(s *an.State, ins ssa.Instruction) bool { return an.IsCallTo(ins, keyCallee) },
			Reqs: []an.Req{
				{Name: "identity of the stream determined", Holds: func(s *an.State, at ssa.Instruction) bool {
					for _, b := range an.ScanBlocks(h.sess) {
						for _, ins := range b.Instrs {
							if call, ok := ins.(*ssa.Call); ok && an.IsFieldLoad(call.Call.Value, identF) {
								if e := an.ErrResult(call, -1); e != nil && s.IsNil(e) {
									return true
								}
							}
						}
					}
					return false
				}},
				an.FactReq("init carries epoch 0", func(s *an.State, x, y ssa.Value, r an.Rel) bool {
					return r == an.EQ && an.IsIntConst(y, 0) && an.ResultCallTo(x, an.R(sigPkg, "SessionRequest", "GetSessionSeqno")) != nil
				}),
				an.CallOK("destination peer id parses", an.R(sigPkg, "SessionInit", "ParsePeerID")),
				lenNonZero("destination peer id non-empty", func(s *an.State, v ssa.Value) bool {
					return an.ResultCallTo(s.Canon(an.ConvOf(v)), an.R(sigPkg, "SessionInit", "ParsePeerID")) != nil
				}),
				an.FactReq("destination != self", func(s *an.State, x, y ssa.Value, r an.Rel) bool {
					return r == an.NE && an.ResultCallTo(x, cIDString) != nil && an.ResultCallTo(y, cIDString) != nil
				}),
			}})
	}
	// request dispatch covers the bodies Validate knows (Init is consumed before the loop)
	var loop *ssa.Function
	for _, g := range an.WithClosures(h.sess)[1:] {
		if g.Parent() == h.sess && len(typeAssertSet([]*ssa.Function{g}, "SessionRequest_")) > 0 {
			loop = g
		}
	}
	if loop == nil {
		c.Undecided("SIBLING", "signaling server read loop", h.sess, "unresolved anchor")
	} else {
		got := append(typeAssertSet([]*ssa.Function{loop}, "SessionRequest_"), "SessionRequest_Init")
		sort.Strings(got)
		want := typeAssertSet([]*ssa.Function{p.Func(sigPkg, "SessionRequest", "Validate")}, "SessionRequest_")
		c.Require(strings.Join(got, ",") == strings.Join(want, ",") && len(want) >= 4, "SIBLING", "signaling server read loop handles exactly the request bodies Validate knows", loop, "", len(got)+len(want),
			fmt.Sprintf("loop ∪ init = %v", got), fmt.Sprintf("read loop (∪ init) handles %v but SessionRequest.Validate knows %v", got, want))
	}
	sessionMsgWrappers(c)
	signedMsgCore(c)
	epochSections(c)
	serverLockset(c)
}

// noLockLeak: no handler of the relay returns while still holding Server.mtx — a leaked lock stalls every other call of
// the relay for good (all sends, acks and re-opens of every session).
func noLockLeak(c *an.Check) {
	p := c.P
	mtx := fv(c, srvPkg, "Server", "mtx")
	if mtx == nil {
		c.Undecided("LOCKSET", "signaling server returns with its mutex released", nil, "unresolved anchor")
		return
	}
	lockCall := func(i ssa.Instruction, name string) bool {
		call, ok := i.(*ssa.Call)
		if !ok {
			return false
		}
		fo := an.CallObj(call.Common())
		if fo == nil || fo.Name() != name || len(call.Call.Args) == 0 {
			return false
		}
		f := an.FieldOfAddr(call.Call.Args[0])
		return f != nil && f.Origin() == mtx
	}
	for _, name := range []string{"Listen", "Session"} {
		fn := p.Func(srvPkg, "Server", name)
		if fn == nil {
			c.Undecided("LOCKSET", "signaling server "+name+" returns with its mutex released", nil, "unresolved anchor")
			continue
		}
		for _, g := range an.WithClosures(fn) {
			has := false
			for _, b := range an.ScanBlocks(g) {
				for _, ins := range b.Instrs {
					if lockCall(ins, "Lock") {
						has = true
					}
				}
			}
			if !has {
				continue
			}
			// may-hold dataflow: bit 1 = "may be held", bit 2 = "may be released"; a deferred Unlock anywhere covers all returns
			deferred := false
			for _, b := range an.ScanBlocks(g) {
				for _, ins := range b.Instrs {
					if d, ok := ins.(*ssa.Defer); ok {
						if fo := an.CallObj(&d.Call); fo != nil && fo.Name() == "Unlock" && len(d.Call.Args) > 0 {
							if f := an.FieldOfAddr(d.Call.Args[0]); f != nil && f.Origin() == mtx {
								deferred = true
							}
						}
					}
				}
			}
			out := map[*ssa.BasicBlock]int{}
			in := map[*ssa.BasicBlock]int{}
			in[g.Blocks[0]] = 2
			changed := true
			for changed {
				changed = false
				for _, b := range an.ScanBlocks(g) {
					st := in[b]
					for _, pr := range b.Preds {
						st |= out[pr]
					}
					if st != in[b] {
						in[b] = st
						changed = true
					}
					for _, ins := range b.Instrs {
						if lockCall(ins, "Lock") {
							st = 1
						}
						if lockCall(ins, "Unlock") {
							st = 2
						}
					}
					if st != out[b] {
						out[b] = st
						changed = true
					}
				}
			}
			nRet, bad := 0, ""
			for _, b := range an.ScanBlocks(g) {
				ret, ok := b.Instrs[len(b.Instrs)-1].(*ssa.Return)
				if !ok {
					continue
				}
				nRet++
				if out[b]&1 != 0 && !deferred {
					bad = fmt.Sprintf("a return of %s at %s can be reached with Server.mtx still held (a Lock without a matching Unlock on that path): every other call of the relay blocks forever", an.FuncName(g), p.Pos(ret.Pos()))
				}
			}
			c.Require(bad == "", "LOCKSET", "signaling server "+an.FuncName(g)+" returns with Server.mtx released", g, "", nRet, "no return is reachable with the mutex held", bad)
		}
	}
}

func serverLockset(c *an.Check) {
	noLockLeak(c)
	// the wire codec of the signaling RPCs is part of every property about what the relay and the clients tell each other
	pbCodecSanity(c, func(rel string) bool { return rel == "signaling/rpc" })
	p := c.P
	guard := fv(c, srvPkg, "Server", "mtx")
	var guarded []*types.Var
	for _, fr := range [][2]string{{"Server", "peers"}, {"Server", "sessions"}, {"sessionTracker", "wait"}, {"sessionTracker", "seqno"}, {"sessionTracker", "peerA"}, {"sessionTracker", "peerB"},
		{"sessionPeerTracker", "recv"}, {"sessionPeerTracker", "recvSent"}, {"sessionPeerTracker", "recvClear"}, {"sessionPeerTracker", "outAcked"},
		{"serverPeerTracker", "wait"}, {"serverPeerTracker", "listening"}, {"serverPeerTracker", "listenNonce"}, {"serverPeerTracker", "wantPeers"}} {
		guarded = append(guarded, fv(c, srvPkg, fr[0], fr[1]))
	}
	c.LockSet(an.LockSpec{Construct: "signaling server state (Server.mtx)", Guard: guard, Guarded: guarded, Funcs: p.PkgFuncs(srvPkg), Min: 40})
}

func c21(c *an.Check) {
	p := c.P
	h := serverHandlers(c)
	if h == nil {
		return
	}
	// client Send: an acknowledgement is consumed only by the call whose message occupies the outgoing slot
	ownCheck(c)
	// server: ack
	ackReqs := append(h.common(h.ack), an.FactReq("pending delivered seqno == acked seqno", func(s *an.State, x, y ssa.Value, r an.Rel) bool {
		u, ok := x.(*ssa.UnOp)
		return r == an.EQ && ok && an.IsFieldLoad(s.Canon(u.X), h.recvSentF) && an.IsParam(y, 1)
	}))
	c.Gate(an.GateSpec{Construct: "signaling server relays an ack (partner.outAcked = ack)", Fn: h.ack,
		Sink: func(s *an.State, ins ssa.Instruction) bool {
			v, _, ok := storeTo(ins, h.outAckedF)
			return ok && !s.IsNil(v)
		}, Reqs: append(ackReqs, an.Req{Name: "ack goes to the partner and carries the acked seqno", Holds: func(s *an.State, at ssa.Instruction) bool {
			v, fa, _ := storeTo(at, h.outAckedF)
			e, ok := remoteOf(s, fa)
			if !ok || !s.NonNil(e) {
				return false
			}
			// &ack : the address of the (spilled) parameter
			return p.DependsOn(v, func(x ssa.Value) bool { return an.IsParam(x, 1) }) || isParamCell(p, v, h.ack, 1)
		}})})
	c.Gate(an.GateSpec{Construct: "signaling server ack handler clears the delivered marker", Fn: h.ack,
		Sink: func(s *an.State, ins ssa.Instruction) bool { _, _, ok := storeTo(ins, h.recvSentF); return ok }, Reqs: ackReqs})
	// server: clear
	clearCommon := h.common(h.clear)
	seqnoOfMsg := func(s *an.State, x ssa.Value) bool {
		// load of field Seqno of (load of recv)
		u, ok := x.(*ssa.UnOp)
		if !ok {
			return false
		}
		fa, ok := u.X.(*ssa.FieldAddr)
		if !ok || an.FieldOfAddr(fa) == nil || an.FieldOfAddr(fa).Name() != "Seqno" {
			return false
		}
		return an.IsFieldLoad(s.Canon(fa.X), h.recvF)
	}
	c.Gate(an.GateSpec{Construct: "signaling server drops an undelivered message on clear (partner.recv = nil)", Fn: h.clear,
		Sink: func(s *an.State, ins ssa.Instruction) bool { _, _, ok := storeTo(ins, h.recvF); return ok },
		Reqs: append(clearCommon, an.FactReq("queued message seqno == cleared seqno", func(s *an.State, x, y ssa.Value, r an.Rel) bool {
			return r == an.EQ && seqnoOfMsg(s, x) && an.IsParam(y, 1)
		}))})
	c.Gate(an.GateSpec{Construct: "signaling server relays a clear (partner.recvClear = clear)", Fn: h.clear,
		Sink: func(s *an.State, ins ssa.Instruction) bool {
			v, _, ok := storeTo(ins, h.recvClearF)
			return ok && !s.IsNil(v)
		},
		Reqs: append(clearCommon, an.FactReq("delivered seqno == cleared seqno", func(s *an.State, x, y ssa.Value, r an.Rel) bool {
			u, ok := x.(*ssa.UnOp)
			return r == an.EQ && ok && an.IsFieldLoad(s.Canon(u.X), h.recvSentF) && an.IsParam(y, 1)
		}))})
	// server: outAcked / recvClear non-nil only from those handlers
	for _, w := range []struct {
		f  *types.Var
		fn *ssa.Function
		nm string
	}{{h.outAckedF, h.ack, "outAcked"}, {h.recvClearF, h.clear, "recvClear"}} {
		n, bad := 0, ""
		for _, a := range p.FieldAccesses(w.f, p.PkgFuncs(srvPkg)) {
			if a.Kind == an.Write && !isNilConst(a.Val) {
				n++
				if !an.InFuncs(w.fn)(a.Fn) {
					bad = an.FuncName(a.Fn)
				}
			}
		}
		c.Require(bad == "" && n == 1, "WHO", "signaling server: "+w.nm+" is set only by its handler", w.fn, "", n, "single non-nil store", "set outside its handler: "+bad)
	}
	// client side
	ex := p.Func(cliPkg, "clientPeerTracker", "execute")
	outF, outAckedF := fv(c, cliPkg, "clientPeerTracker", "out"), fv(c, cliPkg, "clientPeerTracker", "outAcked")
	recvF, recvProcF := fv(c, cliPkg, "clientPeerTracker", "recv"), fv(c, cliPkg, "clientPeerTracker", "recvProcessed")
	if ex == nil || outF == nil || outAckedF == nil || recvF == nil || recvProcF == nil {
		c.Undecided("GATE", "signaling client ack/clear handlers", nil, "unresolved anchor")
		return
	}
	msgSeqnoOf := func(s *an.State, x ssa.Value, f *types.Var) bool {
		u, ok := x.(*ssa.UnOp)
		if !ok {
			return false
		}
		fa, ok := u.X.(*ssa.FieldAddr)
		if !ok || an.FieldOfAddr(fa) == nil || an.FieldOfAddr(fa).Name() != "Seqno" {
			return false
		}
		return an.IsFieldLoad(s.Canon(fa.X), f)
	}
	isOuterParam := func(s *an.State, y ssa.Value) bool {
		pv, ok := s.Canon(y).(*ssa.Parameter)
		return ok && pv.Parent() != nil && pv.Parent().Parent() == ex
	}
	ackLit := one(closuresWhere(ex, func(g *ssa.Function) bool { return storesField(g, outAckedF, isTrueConst) }))
	if ackLit == nil {
		c.Undecided("GATE", "signaling client ack handler", ex, "unresolved anchor: expected one literal setting outAcked = true")
	} else {
		c.Gate(an.GateSpec{Construct: "signaling client records an ack (outAcked = true / cancelled message dropped)", Fn: ackLit,
			Sink: func(s *an.State, ins ssa.Instruction) bool {
				if v, _, ok := storeTo(ins, outAckedF); ok && isTrueConst(v) {
					return true
				}
				_, _, ok := storeTo(ins, outF)
				return ok
			},
			Reqs: []an.Req{an.FactReq("outgoing message seqno == acked seqno", func(s *an.State, x, y ssa.Value, r an.Rel) bool {
				return r == an.EQ && msgSeqnoOf(s, x, outF) && isOuterParam(s, y)
			})}})
	}
	// the client clear handler: literal that clears recv and compares recv.Seqno with a parameter of its parent
	var clearLit *ssa.Function
	for _, g := range closuresWhere(ex, func(g *ssa.Function) bool {
		return storesField(g, recvF, isNilConst) && g.Parent() != nil && g.Parent().Parent() == ex
	}) {
		if len(g.Parent().Params) == 1 && g.Parent().Params[0].Type().String() == "uint64" && g != ackLit {
			clearLit = g
		}
	}
	if clearLit == nil {
		c.Undecided("GATE", "signaling client clear handler", ex, "unresolved anchor: clear handler literal not found")
	} else {
		c.Gate(an.GateSpec{Construct: "signaling client drops a cleared incoming message (recv = nil)", Fn: clearLit,
			Sink: func(s *an.State, ins ssa.Instruction) bool { _, _, ok := storeTo(ins, recvF); return ok },
			Reqs: []an.Req{an.FactReq("incoming message seqno == cleared seqno", func(s *an.State, x, y ssa.Value, r an.Rel) bool {
				return r == an.EQ && msgSeqnoOf(s, x, recvF) && isOuterParam(s, y)
			})}})
	}
	// the client acks a message only after the application took it (recvProcessed), and only Recv marks it taken
	var mainLit *ssa.Function
	for _, g := range an.WithClosures(ex)[1:] {
		if g.Parent() == ex && storesField(g, recvF, isNilConst) && storesField(g, fv(c, cliPkg, "clientPeerTracker", "outSent"), isTrueConst) {
			mainLit = g
		}
	}
	if mainLit == nil {
		c.Undecided("GATE", "signaling client main loop", ex, "unresolved anchor: main-loop critical section not found")
	} else {
		c.Gate(an.GateSpec{Construct: "signaling client schedules an ack for an incoming message", Fn: mainLit,
			Sink: func(s *an.State, ins ssa.Instruction) bool {
				st, ok := ins.(*ssa.Store)
				if !ok {
					return false
				}
				if _, isFV := st.Addr.(*ssa.FreeVar); !isFV {
					return false
				}
				return msgSeqnoOf(s, s.Canon(st.Val), recvF) || msgSeqnoOf(s, st.Val, recvF)
			},
			Reqs: []an.Req{
				{Name: "the application already received it (recvProcessed)", Holds: func(s *an.State, at ssa.Instruction) bool {
					for _, b := range an.ScanBlocks(mainLit) {
						for _, ins := range b.Instrs {
							if u, ok := ins.(*ssa.UnOp); ok && an.IsFieldLoad(u, recvProcF) && s.IsTrue(u) {
								return true
							}
						}
					}
					return false
				}},
			}})
	}
	rcv := p.Func(cliPkg, "ClientPeerRef", "Recv")
	n, bad := 0, ""
	for _, a := range p.FieldAccesses(recvProcF, p.PkgFuncs(cliPkg)) {
		if a.Kind == an.Write && isTrueConst(a.Val) {
			n++
			if !an.InFuncs(rcv)(a.Fn) {
				bad = an.FuncName(a.Fn)
			}
		}
	}
	c.Require(bad == "" && n == 1, "WHO", "signaling client: only Recv marks a message as taken", rcv, "", n, "single recvProcessed = true, in ClientPeerRef.Recv", "recvProcessed is set outside Recv: "+bad)
	clientEpochReset(c)
	clientLockset(c)
	serverLockset(c)
}

func isParamCell(p *an.Prog, v ssa.Value, fn *ssa.Function, idx int) bool {
	a, ok := v.(*ssa.Alloc)
	if !ok {
		return false
	}
	sv := p.SingleStore(a)
	return sv != nil && an.IsParam(sv, idx) && sv.Parent() == fn
}

// clientEpochReset: the client's open handler — the critical section that records a new session epoch — discards
// everything that belongs to the previous epoch: the inbox (recv, recvProcessed) and the transmit flags (outSent,
// outAcked). When the partner's call is usurped the server announces only Opened(new), never Closed, so this is the one
// place the old epoch's pending message is dropped.
func clientEpochReset(c *an.Check) {
	p := c.P
	ex := p.Func(cliPkg, "clientPeerTracker", "execute")
	openF := fv(c, cliPkg, "clientPeerTracker", "open")
	if ex == nil || openF == nil {
		c.Undecided("MUSTCALL", "signaling client open handler", nil, "unresolved anchor")
		return
	}
	isOpenStore := func(ins ssa.Instruction) bool {
		v, _, ok := storeTo(ins, openF)
		return ok && !isNilConst(v)
	}
	var lits []*ssa.Function
	for _, g := range an.WithClosures(ex) {
		for _, b := range an.ScanBlocks(g) {
			for _, ins := range b.Instrs {
				if isOpenStore(ins) {
					lits = append(lits, g)
				}
			}
		}
	}
	if len(lits) != 1 {
		c.Undecided("MUSTCALL", "signaling client open handler", ex, fmt.Sprintf("unresolved anchor: %d literals record a new epoch", len(lits)))
		return
	}
	g := lits[0]
	cleared := func(field string, pred func(ssa.Value) bool) an.Req {
		f := fv(c, cliPkg, "clientPeerTracker", field)
		return an.Req{Name: field + " reset in the same critical section", Holds: func(s *an.State, at ssa.Instruction) bool {
			return s.Executed(at, func(i ssa.Instruction) bool { v, _, ok := storeTo(i, f); return ok && pred(v) })
		}}
	}
	isFalseConst := func(v ssa.Value) bool {
		k, ok := v.(*ssa.Const)
		return ok && k.Value != nil && k.Value.String() == "false"
	}
	c.Gate(an.GateSpec{Rule: "MUSTCALL", Construct: "signaling client open handler discards the previous epoch's state", Fn: g,
		Sink: func(s *an.State, ins ssa.Instruction) bool {
			_, isRet := ins.(*ssa.Return)
			return isRet && s.Executed(ins, isOpenStore)
		},
		Reqs: []an.Req{cleared("recv", isNilConst), cleared("recvProcessed", isFalseConst), cleared("outSent", isFalseConst), cleared("outAcked", isFalseConst)}})
}

func clientLockset(c *an.Check) {
	// a session handed out for SignalPeer(A) is A's: the directive's equivalence compares local peer, remote peer and
	// signaling id like with like
	equivCheck(c, func(f *ssa.Function) bool { return strings.Contains(an.FuncName(f), "signaling.signalPeer") })
	p := c.P
	guard := fv(c, cliPkg, "clientPeerTracker", "bcast")
	var guarded []*types.Var
	for _, f := range []string{"open", "out", "outSent", "outAcked", "outCancel", "recv", "recvProcessed"} {
		guarded = append(guarded, fv(c, cliPkg, "clientPeerTracker", f))
	}
	c.LockSet(an.LockSpec{Construct: "signaling client tracker state (bcast)", Guard: guard, Guarded: guarded, Funcs: p.PkgFuncs(cliPkg), Min: 40})
}

func init() {
	register(&Def{ID: "C19", Run: c19,
		Explain:     "Decides on SSA (closures explored with the facts of their creation site): the client stores an incoming message into its receive slot only inside the handler that (R1) saw SessionMsg.ExtractAndVerify succeed and the verified sender's string equal the session's peer key, the stored message being the verified one; verification failure is returned as an error (R2a); no other function stores a message there (WHO); the read loop's switch covers exactly the response bodies SessionResponse.Validate knows (SIBLING); NewSessionMsg / ExtractAndVerify / Validate use one context constant and forward SignedMsg.ExtractAndVerify's verdict (MIRROR). Inherits C01 for the verifier itself. VerifyWithPublic verifies with the caller's key; EQUIV obligations of the SignalPeer directive; signaling codec sanity; no relay handler returns with Server.mtx held.",
		NotCov:      "recipient/epoch binding of the signed bytes (a protocol-design fact: the signature covers neither), Ed25519 soundness.",
		Assumptions: commonAssumptions})
	register(&Def{ID: "C20", Run: c20,
		Explain:     "Decides on SSA: the relay stores a message for delivery only in the send handler, on paths where (R1) ExtractAndVerify succeeded, the verified sender equals the identity s.ident(ctx) of the submitting stream, the epoch check returned (true,nil) for the message's epoch, this call is still the registered peer, the partner is attached, and the slot written is the partner's with the verified message; the epoch check returns true only as (stored epoch == message epoch) and errors on future epochs; registration happens only past a well-formed init (identity ok, epoch 0, parsable non-empty destination != self); the request switch covers exactly Validate's bodies; all tracker state is touched only under Server.mtx (LOCKSET). (MUSTCALL) every critical section of the relay that changes a peer slot bumps the epoch, wakes the waiters and clears the partner's pending delivery, so a message queued in an older epoch does not survive into the next. Signaling codec sanity (tags, guards); no relay handler returns with Server.mtx held.",
		NotCov:      "end-to-end history statements; the verifier itself is C01.",
		Assumptions: commonAssumptions})
	register(&Def{ID: "C21", Run: c21,
		Explain:     "Decides on SSA: every store made by the four ack/clear handlers is dominated by equality of the named seqno with the stored message's seqno (server: *recvSent==ack → partner.outAcked, recv.Seqno==clear → drop, *recvSent==clear → partner.recvClear, each also behind current-epoch / still-registered / partner-attached; client: out.Seqno==ack, recv.Seqno==clear); the client schedules an AckMsg only for a message whose recvProcessed is true, which only ClientPeerRef.Recv sets; outAcked/recvClear are set only by their handlers (WHO); server state only under Server.mtx and client tracker state only under its broadcast lock (LOCKSET). (MUSTCALL) the client's open handler discards the previous epoch's inbox and transmit flags in the critical section that records the new epoch. Signaling codec sanity: each oneof arm is encoded under and decoded from its own schema number (a clear never travels as an ack); EQUIV of SignalPeer. (OWNCHECK) ClientPeerRef.Send empties the outgoing slot for an acknowledgement only on paths where out.Seqno == its own seqno; the relay's handlers are identified by the read loop's dispatch.",
		NotCov:      "the end-to-end history statement (ack observed ⇒ partner received) — needs a model of both sides and the transport.",
		Assumptions: commonAssumptions})
}

func isFalseConst(v ssa.Value) bool {
	k, ok := v.(*ssa.Const)
	return ok && k.Value != nil && k.Value.String() == "false"
}

func isBoolType(t types.Type) bool {
	b, ok := t.Underlying().(*types.Basic)
	return ok && b.Kind() == types.Bool
}
