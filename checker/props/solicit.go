package props

import (
	"fmt"
	"go/token"
	"go/types"
	"strings"

	"bifrostverify/an"

	"golang.org/x/tools/go/ssa"
)

const (
	solPkg  = "link/solicit"
	solcPkg = "link/solicit/controller"
)

var (
	cProtoHash = an.R(solPkg, "", "ComputeProtocolHash")
	cSessID    = an.R(solPkg, "", "ComputeSessionID")
)

// hashWrites lists the operands written to the single blake3 hasher of fn in program order.
func hashWrites(fn *ssa.Function) []ssa.Value {
	var out []ssa.Value
	for _, b := range an.ScanBlocks(fn) {
		for _, ins := range b.Instrs {
			if call, ok := ins.(*ssa.Call); ok && an.IsCallTo(call, an.X(blake3Pkg, "Hasher", "Write")) {
				out = append(out, call.Call.Args[1])
			}
		}
	}
	return out
}

func isPeerIDValue(v ssa.Value) bool {
	t := an.ConvOf(v).Type()
	n, ok := t.(*types.Named)
	return ok && n.Obj().Name() == "ID" && n.Obj().Pkg() != nil && strings.HasSuffix(n.Obj().Pkg().Path(), "/peer")
}

// lengthPrefixOf: v is an encoding of len(x) (uvarint bytes or decimal) — returns x.
func lengthPrefixOf(p *an.Prog, v ssa.Value) ssa.Value {
	var found ssa.Value
	p.DependsOn(v, func(x ssa.Value) bool {
		call, ok := x.(*ssa.Call)
		if ok && an.BuiltinName(call) == "len" {
			found = an.ConvOf(call.Call.Args[0])
			return true
		}
		return false
	})
	if found == nil {
		return nil
	}
	// must pass through an integer encoder
	enc := p.DependsOn(v, func(x ssa.Value) bool {
		return an.ResultCallTo(x, cPutUvarint, an.X("strconv", "", "Itoa"), an.X("encoding/binary", "", "AppendUvarint"), an.X("encoding/binary", "littleEndian", "PutUint32"), an.X("encoding/binary", "bigEndian", "PutUint32")) != nil
	})
	if !enc {
		return nil
	}
	// the encoding must be injective in the length: no narrowing of len(x) below 32 bits on the way to the encoder
	// (byte(len(x)) makes lengths that differ by a multiple of 256 indistinguishable)
	isLen := func(x ssa.Value) bool {
		call, ok := x.(*ssa.Call)
		return ok && an.BuiltinName(call) == "len"
	}
	narrowed := p.DependsOn(v, func(x ssa.Value) bool {
		cv, ok := x.(*ssa.Convert)
		if !ok {
			return false
		}
		b, isB := cv.Type().Underlying().(*types.Basic)
		if !isB {
			return false
		}
		switch b.Kind() {
		case types.Int8, types.Uint8, types.Int16, types.Uint16:
			return isLen(cv.X) || p.DependsOn(cv.X, isLen)
		}
		return false
	})
	if narrowed {
		return nil
	}
	return found
}

func c30(c *an.Check) {
	mountedLinkForwarding(c)
	recvMsgFreshness(c)
	sendMsgAlwaysFrames(c)
	p := c.P
	ph := p.Func(solPkg, "", "ComputeProtocolHash")
	if ph == nil {
		c.Undecided("CONCAT", "solicit.ComputeProtocolHash", nil, "unresolved anchor")
		return
	}
	w := hashWrites(ph)
	st := p.NewState(ph)
	ok, why := len(w) >= 3, "fewer than three digest operands"
	// every operand except the last must be framed
	for i := 0; i < len(w)-1 && ok; i++ {
		op := an.ConvOf(w[i])
		// a length prefix itself is framed (fixed by its content: varint is self-delimiting)
		if lengthPrefixOf(p, w[i]) != nil {
			if i+1 >= len(w) || an.ConvOf(w[i+1]) != lengthPrefixOf(p, w[i]) {
				ok, why = false, "a length prefix is not immediately followed by the operand whose length it encodes"
			}
			continue
		}
		if _, fixed := st.FixedLen(w[i]); fixed {
			continue
		}
		if i > 0 && lengthPrefixOf(p, w[i-1]) == op {
			continue
		}
		// parameter with fixed-length provenance at every call site
		if pv, isParam := op.(*ssa.Parameter); isParam && paramFixedAtCallSites(c, ph, pv) {
			continue
		}
		ok, why = false, fmt.Sprintf("digest operand #%d (%s) is variable-length and unframed but is not the last operand: (a‖b) collides across different splits", i, p.Describe(op))
	}
	// all three inputs are bound
	for idx, nm := range []string{"session id", "protocol id", "context"} {
		bound := false
		for _, v := range w {
			if an.IsParam(an.ConvOf(v), idx) {
				bound = true
			}
		}
		if ok && !bound {
			ok, why = false, nm+" never enters the digest"
		}
	}
	c.Require(ok, "CONCAT", "solicit.ComputeProtocolHash digests an unambiguous encoding of (session, protocol id, context)", ph, "", len(w), fmt.Sprintf("%d operands; all but the last are fixed-length or length-prefixed", len(w)), why)
	// sibling filters
	ge := one(pkgFuncsWhere(p, solcPkg, func(f *ssa.Function) bool {
		return f.Signature.Results().Len() == 1 && strings.HasSuffix(f.Signature.Results().At(0).Type().String(), "SolicitEntry") && f.Signature.Recv() != nil
	}))
	rm := one(pkgFuncsWhere(p, solcPkg, func(f *ssa.Function) bool { return len(an.CallsDeep(f, cProtoHash)) > 0 && f.Signature.Recv() != nil }))
	if ge == nil || rm == nil {
		c.Undecided("GATE", "solicit controller constraint filters", nil, "unresolved anchor: entry builder / match resolver not found")
		return
	}
	cPeer := an.R(solPkg, "SolicitProtocol", "SolicitProtocolPeerID")
	cTpt := an.R(solPkg, "SolicitProtocol", "SolicitProtocolTransportID")
	constraintReqs := func() []an.Req {
		return []an.Req{
			an.AnyOf("peer constraint empty or equal to the link's remote peer",
				an.FactReq("len(peer constraint)==0", func(s *an.State, x, y ssa.Value, r an.Rel) bool {
					return r == an.EQ && an.IsIntConst(y, 0) && an.LenOf(s, x, func(a ssa.Value) bool { return an.ResultCallTo(s.Canon(a), cPeer) != nil })
				}),
				an.FactReq("peer constraint == link remote peer", func(s *an.State, x, y ssa.Value, r an.Rel) bool {
					yc, ok := y.(*ssa.Call)
					return r == an.EQ && an.ResultCallTo(x, cPeer) != nil && ok && yc.Call.IsInvoke() && yc.Call.Method.Name() == "GetRemotePeer"
				})),
			an.AnyOf("transport constraint zero or equal to the link's transport",
				an.FactReq("transport constraint == 0", func(s *an.State, x, y ssa.Value, r an.Rel) bool {
					return r == an.EQ && an.IsIntConst(y, 0) && an.ResultCallTo(x, cTpt) != nil
				}),
				an.FactReq("transport constraint == link transport uuid", func(s *an.State, x, y ssa.Value, r an.Rel) bool {
					yc, ok := y.(*ssa.Call)
					return r == an.EQ && an.ResultCallTo(x, cTpt) != nil && ok && yc.Call.IsInvoke() && yc.Call.Method.Name() == "GetTransportUUID"
				})),
		}
	}
	isAppendOf := func(ins ssa.Instruction, suffix string) bool {
		call, ok := ins.(*ssa.Call)
		return ok && an.BuiltinName(call) == "append" && strings.HasSuffix(call.Type().String(), suffix)
	}
	c.Gate(an.GateSpec{Construct: "solicit controller advertises a solicitation on a link", Fn: ge,
		Sink: func(s *an.State, ins ssa.Instruction) bool { return isAppendOf(ins, "SolicitEntry") }, Reqs: constraintReqs()})
	rmLit := one(closuresWhere(rm, func(g *ssa.Function) bool { return callsAny(g, cProtoHash) }))
	target := rm
	if rmLit != nil {
		target = rmLit
	}
	reqs := append(constraintReqs(), an.Req{Name: "recomputed hash of this directive equals the stream's hash", Holds: func(s *an.State, at ssa.Instruction) bool {
		for _, call := range an.Calls(target, an.X("bytes", "", "Equal")) {
			if !s.IsTrue(call) {
				continue
			}
			h := an.ResultCallTo(s.Canon(call.Call.Args[0]), cProtoHash)
			if h == nil {
				h = an.ResultCallTo(s.Canon(call.Call.Args[1]), cProtoHash)
			}
			if h == nil {
				continue
			}
			a := h.Call.Args
			if an.ResultCallTo(s.Canon(a[1]), an.R(solPkg, "SolicitProtocol", "SolicitProtocolID")) != nil && an.ResultCallTo(s.Canon(a[2]), an.R(solPkg, "SolicitProtocol", "SolicitProtocolContext")) != nil {
				return true
			}
		}
		return false
	}})
	c.Gate(an.GateSpec{Construct: "solicit controller records a local match for a solicited stream", Fn: target,
		Sink: func(s *an.State, ins ssa.Instruction) bool { return isAppendOf(ins, "solicitState") }, Reqs: reqs})
	// the advertised entry is the directive's own (protocol id, context)
	c.Sites(2)
	// session id used for hashing is the link's own, written once from ComputeSessionID(local, remote)
	sidF := fv(c, solcPkg, "linkState", "sessionID")
	okSid, n := true, 0
	for _, a := range p.FieldAccesses(sidF, p.PkgFuncs(solcPkg)) {
		if a.Kind == an.Write {
			n++
			if an.ResultCallTo(a.Val, cSessID) == nil {
				okSid = false
			}
		}
	}
	c.Require(okSid && n == 1, "WHO", "solicit linkState.sessionID is written once from ComputeSessionID", nil, "", n, "single store of ComputeSessionID(local, remote)", "the link's session id is not (only) the computed session id")
	solicitLockset(c)
	// the directive bus merges equivalent SolicitProtocol directives: one that differs in protocol id, context, peer or
	// transport constraint must not be folded into another (EQUIV obligations of that directive, as in C37)
	equivCheck(c, func(f *ssa.Function) bool { return strings.Contains(an.FuncName(f), "solicit.solicitProtocol") })
}

// paramFixedAtCallSites: every repository call site passes a value of statically fixed length for the parameter
// (directly, or a struct field whose only writers store fixed-length values, or the caller's own parameter with the same property).
func paramFixedAtCallSites(c *an.Check, fn *ssa.Function, pv *ssa.Parameter) bool {
	p := c.P
	idx := -1
	for i, q := range fn.Params {
		if q == pv {
			idx = i
		}
	}
	callee := an.Callee{Pkg: "./" + strings.TrimPrefix(fn.Pkg.Pkg.Path(), an.Mod+"/"), Name: fn.Name()}
	n := 0
	var check func(v ssa.Value, holder *ssa.Function, depth int) bool
	check = func(v ssa.Value, holder *ssa.Function, depth int) bool {
		st := p.NewState(holder)
		if _, ok := st.FixedLen(v); ok {
			return true
		}
		if an.ResultCallTo(v, cSessID) != nil {
			return true // returns sum[:HashSize]; decided in C32/below
		}
		if u, ok := v.(*ssa.UnOp); ok {
			if f := an.FieldOfAddr(u.X); f != nil {
				okAll, w := true, 0
				for _, a := range p.FieldAccesses(f.Origin(), p.AllRepoFuncs()) {
					if a.Kind == an.Write {
						w++
						if !check(a.Val, a.Fn, depth+1) {
							okAll = false
						}
					}
				}
				return okAll && w > 0
			}
		}
		if q, ok := v.(*ssa.Parameter); ok && depth < 3 {
			return paramFixedAtCallSites(c, holder, q)
		}
		return false
	}
	okAll := true
	for _, f := range p.AllRepoFuncs() {
		for _, call := range an.Calls(f, callee) {
			n++
			if !check(call.Call.Args[idx], f, 0) {
				okAll = false
			}
		}
	}
	return okAll && n > 0
}

func solicitLockset(c *an.Check) {
	p := c.P
	c.LockSet(an.LockSpec{Construct: "solicit stream ownership (solicitMountedStream.mu)", Guard: fv(c, solPkg, "solicitMountedStream", "mu"),
		Guarded: []*types.Var{fv(c, solPkg, "solicitMountedStream", "accepted"), fv(c, solPkg, "solicitMountedStream", "err")}, Funcs: p.PkgFuncs(solPkg), Min: 5})
	var g []*types.Var
	g = append(g, fv(c, solcPkg, "Controller", "solicitations"), fv(c, solcPkg, "Controller", "links"), fv(c, solcPkg, "linkState", "remoteHashes"), fv(c, solcPkg, "linkState", "matched"))
	c.LockSet(an.LockSpec{Construct: "solicit controller state (Controller.bcast)", Guard: fv(c, solcPkg, "Controller", "bcast"), Guarded: g, Funcs: p.PkgFuncs(solcPkg), Min: 8})
}

func c31(c *an.Check) {
	solicitedHandlerHandsOver(c)
	p := c.P
	acc := p.Func(solPkg, "solicitMountedStream", "AcceptMountedStream")
	cl := p.Func(solPkg, "solicitMountedStream", "Close")
	accF, errF, msF := fv(c, solPkg, "solicitMountedStream", "accepted"), fv(c, solPkg, "solicitMountedStream", "err"), fv(c, solPkg, "solicitMountedStream", "ms")
	if acc == nil || cl == nil || accF == nil || errF == nil || msF == nil {
		c.Undecided("GATE", "solicit stream ownership", nil, "unresolved anchor")
		return
	}
	c.Gate(an.GateSpec{Construct: "solicit AcceptMountedStream hands out the stream", Fn: acc,
		Sink: func(s *an.State, ins ssa.Instruction) bool {
			ret, ok := ins.(*ssa.Return)
			return ok && !s.IsNil(s.RetVal(ret, 0))
		},
		Reqs: []an.Req{
			{Name: "not accepted before", Holds: func(s *an.State, at ssa.Instruction) bool {
				for _, b := range an.ScanBlocks(acc) {
					for _, ins := range b.Instrs {
						if u, ok := ins.(*ssa.UnOp); ok && an.IsFieldLoad(u, accF) && s.IsFalse(u) {
							return true
						}
					}
				}
				return false
			}},
			{Name: "not closed (err == nil)", Holds: func(s *an.State, at ssa.Instruction) bool {
				for _, b := range an.ScanBlocks(acc) {
					for _, ins := range b.Instrs {
						if u, ok := ins.(*ssa.UnOp); ok && an.IsFieldLoad(u, errF) && s.IsNil(u) {
							return true
						}
					}
				}
				return false
			}},
			{Name: "accepted set before returning", Holds: func(s *an.State, at ssa.Instruction) bool {
				return s.Executed(at, func(ins ssa.Instruction) bool { v, _, ok := storeTo(ins, accF); return ok && isTrueConst(v) })
			}},
		}})
	c.Gate(an.GateSpec{Construct: "solicit Close closes the underlying stream", Fn: cl,
		Sink: func(s *an.State, ins ssa.Instruction) bool { return isInvokeOf(ins, "", "Close") },
		Reqs: []an.Req{
			{Name: "not accepted", Holds: func(s *an.State, at ssa.Instruction) bool {
				for _, b := range an.ScanBlocks(cl) {
					for _, ins := range b.Instrs {
						if u, ok := ins.(*ssa.UnOp); ok && an.IsFieldLoad(u, accF) && s.IsFalse(u) {
							return true
						}
					}
				}
				return false
			}},
		}})
	// the stream is closed inside the critical section that saw "not accepted": an accept cannot slip in between
	muF := fv(c, solPkg, "solicitMountedStream", "mu")
	c.Gate(an.GateSpec{Rule: "LOCKSET", Construct: "solicit Close closes the underlying stream under the ownership mutex", Fn: cl,
		Sink: func(s *an.State, ins ssa.Instruction) bool { return isInvokeOf(ins, "", "Close") },
		Reqs: []an.Req{{Name: "mu held (locked, not unlocked since)", Holds: func(s *an.State, at ssa.Instruction) bool {
			var lastLock ssa.Instruction
			s.Executed(at, func(i ssa.Instruction) bool {
				if isMtxCall(i, muF, "Lock") {
					lastLock = i
				}
				return false
			})
			if lastLock == nil {
				return false
			}
			return !s.ExecutedSince(at, lastLock, func(i ssa.Instruction) bool { return isMtxCall(i, muF, "Unlock") })
		}}}})
	c.Gate(an.GateSpec{Rule: "MUSTCALL", Construct: "solicit Close marks the value closed", Fn: cl,
		Sink: func(s *an.State, ins ssa.Instruction) bool {
			// whenever Close reports success, and also whenever it has closed the underlying stream (whatever that
			// returned): a closed stream must never be handed out by a later accept
			ret, ok := ins.(*ssa.Return)
			return ok && (s.IsTrue(s.RetVal(ret, 0)) || s.Executed(ins, func(i ssa.Instruction) bool { return isInvokeOf(i, "", "Close") }))
		},
		Reqs: []an.Req{{Name: "err set", Holds: func(s *an.State, at ssa.Instruction) bool {
			return s.Executed(at, func(ins ssa.Instruction) bool { v, _, ok := storeTo(ins, errF); return ok && !isNilConst(v) })
		}}}})
	// one wrapper per stream: constructions of the wrapper are not inside a loop over claimants
	cNew := an.R(solPkg, "", "NewSolicitMountedStream")
	n, bad := 0, ""
	for _, fn := range p.PkgFuncs(solcPkg) {
		for _, call := range an.Calls(fn, cNew) {
			n++
			if an.InnermostLoop(fn, call.Block()) != nil {
				bad = fmt.Sprintf("%s constructs the ownership wrapper inside a loop (one wrapper — and one accepted flag — per matching solicitation) at %s", an.FuncName(fn), p.Pos(call.Pos()))
			}
		}
	}
	c.Sites(n)
	c.Require(bad == "" && n >= 1, "LOOPALLOC", "solicit controller builds one ownership wrapper per stream", nil, "", n, "NewSolicitMountedStream is called once per stream, outside the loop over matching solicitations", bad)
	solicitLockset(c)
}

func c32(c *an.Check) {
	// the session id concatenates two peer ids without a separator: it is injective only because accepted ids are
	// self-delimiting (exact-length multihash decode)
	peerIDIdentityClause = false
	peerIDDecodeObligations(c)
	peerIDIdentityClause = true
	recvMsgFreshness(c)
	p := c.P
	sid := p.Func(solPkg, "", "ComputeSessionID")
	fm := p.Func(solPkg, "", "FindMatchingHashes")
	if sid == nil || fm == nil {
		c.Undecided("ROLE", "solicit.ComputeSessionID", nil, "unresolved anchor")
		return
	}
	// R10: the two digest operands are (min,max) of the parameters under an order comparison
	var writes []*ssa.Call
	for _, b := range an.ScanBlocks(sid) {
		for _, ins := range b.Instrs {
			if call, ok := ins.(*ssa.Call); ok && an.IsCallTo(call, an.X(blake3Pkg, "Hasher", "Write")) {
				writes = append(writes, call)
			}
		}
	}
	c.EachReturn("ROLE", "solicit.ComputeSessionID hashes the ordered pair (min,max) of the two peer ids", sid, "first operand <= second operand on every path, operands are the two parameters", func(s *an.State, ret *ssa.Return) string {
		if len(writes) != 2 {
			return "expected exactly two digest operands"
		}
		a, b := s.Canon(an.ConvOf(writes[0].Call.Args[1])), s.Canon(an.ConvOf(writes[1].Call.Args[1]))
		a, b = s.Canon(an.ConvOf(a)), s.Canon(an.ConvOf(b))
		if !((an.IsParam(a, 0) && an.IsParam(b, 1)) || (an.IsParam(a, 1) && an.IsParam(b, 0))) {
			return "the digest operands are not the two peer id parameters"
		}
		r := s.Rel(a, b)
		if r == an.ANY || r&an.GT != 0 {
			return "on some path the first digest operand is not known to be <= the second: the result depends on argument order"
		}
		return ""
	})
	c.Require(len(writes) == 2 && isPeerIDValue(writes[0].Call.Args[1]) && isPeerIDValue(writes[1].Call.Args[1]), "CONCAT", "solicit.ComputeSessionID concatenates two self-delimiting peer ids", sid, "", len(writes), "operands are peer.ID multihashes (varint code, varint length, digest: prefix-free)", "session id operands are not two peer IDs")
	c.EachReturn("PROVENANCE", "solicit.ComputeSessionID returns a 32-byte digest prefix", sid, "sum[:HashSize]", func(s *an.State, ret *ssa.Return) string {
		if n, ok := s.FixedLen(s.RetVal(ret, 0)); !ok || n != 32 {
			return "the session id does not have a fixed length of 32"
		}
		return ""
	})
	// FindMatchingHashes
	var app *ssa.Call
	for _, b := range an.ScanBlocks(fm) {
		for _, ins := range b.Instrs {
			if call, ok := ins.(*ssa.Call); ok && an.BuiltinName(call) == "append" {
				app = call
			}
		}
	}
	if app == nil {
		c.Undecided("GATE", "solicit.FindMatchingHashes", fm, "unresolved anchor: append not found")
		return
	}
	elemOf := func(s *an.State, v ssa.Value, param int) (ssa.Value, bool) {
		u, ok := s.Canon(v).(*ssa.UnOp)
		if !ok {
			return nil, false
		}
		ia, ok := u.X.(*ssa.IndexAddr)
		if !ok || !an.IsParam(ia.X, param) {
			return nil, false
		}
		return ia.Index, true
	}
	c.Gate(an.GateSpec{Construct: "solicit.FindMatchingHashes records a match", Fn: fm,
		Sink: func(s *an.State, ins ssa.Instruction) bool { return ins == ssa.Instruction(app) },
		Reqs: []an.Req{
			{Name: "bytes.Compare(local[i], remote[j]) == 0 and the element recorded is a clone of local[i]", Holds: func(s *an.State, at ssa.Instruction) bool {
				for _, cmp := range an.Calls(fm, an.X("bytes", "", "Compare")) {
					if s.Rel(cmp, ssa.NewConst(zeroInt(), cmp.Type())) != an.EQ {
						continue
					}
					i1, ok1 := elemOf(s, cmp.Call.Args[0], 0)
					_, ok2 := elemOf(s, cmp.Call.Args[1], 1)
					if !ok1 || !ok2 {
						continue
					}
					el := p.SliceLitElems(app.Call.Args[1])
					if len(el) != 1 {
						continue
					}
					cl := an.ResultCallTo(s.Canon(el[0]), an.X("slices", "", "Clone"), an.X("bytes", "", "Clone"))
					if cl == nil {
						return false
					}
					i2, ok3 := elemOf(s, cl.Call.Args[0], 0)
					return ok3 && s.Key(i1) == s.Key(i2)
				}
				return false
			}},
		}})
	// both cursors advance on a match, exactly one otherwise
	okAdv := false
	for _, b := range an.ScanBlocks(fm) {
		adds := 0
		hasApp := false
		for _, ins := range b.Instrs {
			if ins == ssa.Instruction(app) {
				hasApp = true
			}
			if bo, ok := ins.(*ssa.BinOp); ok && bo.Op == token.ADD && an.IsIntConst(bo.Y, 1) {
				if _, isPhi := bo.X.(*ssa.Phi); isPhi {
					adds++
				}
			}
		}
		if hasApp && adds == 2 {
			okAdv = true
		}
	}
	c.Require(okAdv, "PROVENANCE", "solicit.FindMatchingHashes advances both cursors on a match", fm, "", 1, "i++ and j++ in the match branch", "the match branch does not advance both cursors")
	// merge discipline: on every way back to the loop head the cursors move exactly as the comparison says —
	// equal: both; local element smaller: only the local cursor; remote element smaller: only the remote cursor
	{
		st := p.NewState(fm)
		var cmpCall *ssa.Call
		for _, cc := range an.Calls(fm, an.X("bytes", "", "Compare")) {
			cmpCall = cc
		}
		var phiI, phiJ *ssa.Phi
		if cmpCall != nil {
			if ix, ok := elemOf(st, cmpCall.Call.Args[0], 0); ok {
				phiI, _ = ix.(*ssa.Phi)
			}
			if jx, ok := elemOf(st, cmpCall.Call.Args[1], 1); ok {
				phiJ, _ = jx.(*ssa.Phi)
			}
		}
		okM, whyM, nBack := phiI != nil && phiJ != nil && phiI.Block() == phiJ.Block(), "cursor variables of the merge loop not resolved", 0
		if okM {
			head := phiI.Block()
			step := func(ph *ssa.Phi, e ssa.Value) int {
				if e == ssa.Value(ph) {
					return 0
				}
				if bo, ok := e.(*ssa.BinOp); ok && bo.Op == token.ADD && bo.X == ssa.Value(ph) && an.IsIntConst(bo.Y, 1) {
					return 1
				}
				return -1
			}
			for pi, pred := range head.Preds {
				if !head.Dominates(pred) {
					continue // loop entry
				}
				nBack++
				di, dj := step(phiI, phiI.Edges[pi]), step(phiJ, phiJ.Edges[pi])
				rel := an.ANY
				for _, dc := range an.DominatingConds(pred.Instrs[0]) {
					x, y, r, isCmp := st.CondRel(dc.Cond, dc.Want)
					if isCmp && x == ssa.Value(cmpCall) && an.IsIntConst(y, 0) {
						rel &= r
					}
				}
				want := [2]int{-1, -1}
				switch rel {
				case an.EQ:
					want = [2]int{1, 1}
				case an.LT:
					want = [2]int{1, 0}
				case an.GT:
					want = [2]int{0, 1}
				default:
					okM, whyM = false, "a way back to the loop head is not under a definite outcome of the comparison"
					continue
				}
				if di != want[0] || dj != want[1] {
					okM, whyM = false, fmt.Sprintf("on the branch where Compare(local[i], remote[j]) is %s the cursors move by (%d,%d), expected (%d,%d): elements are skipped or compared twice and the two ends compute different sets", relName(rel), di, dj, want[0], want[1])
				}
			}
			if nBack != 3 && okM {
				okM, whyM = false, fmt.Sprintf("%d ways back to the loop head (expected 3: equal / smaller / greater)", nBack)
			}
		}
		c.Require(okM, "ORDER", "solicit.FindMatchingHashes moves its cursors as a sorted merge", fm, "", nBack, "(==: i++,j++) (<: i++) (>: j++)", whyM)
	}
	// the merge's precondition on the local side: the list every end advertises and merges is sorted, with the very
	// comparator the merge uses
	{
		cph := p.Func(solPkg, "", "ComputeProtocolHashes")
		sh := p.Func(solPkg, "", "SortHashes")
		okS, whyS := cph != nil, "ComputeProtocolHashes not found"
		if cph != nil {
			c.EachReturn("ORDER", "solicit.ComputeProtocolHashes returns its list sorted", cph, "sort of the returned slice executed after it was filled", func(s *an.State, ret *ssa.Return) string {
				rv := s.RetVal(ret, 0)
				sorted := s.Executed(ret, func(i ssa.Instruction) bool {
					call, ok := i.(*ssa.Call)
					if !ok {
						return false
					}
					if an.IsCallTo(call, an.R(solPkg, "", "SortHashes")) || an.IsCallTo(call, an.X("slices", "", "SortFunc")) {
						return s.Key(call.Call.Args[0]) == s.Key(rv)
					}
					return false
				})
				if !sorted {
					return "the advertised hash list is returned without having been sorted: the peer's merge (which assumes sorted input) misses matches, and the two ends disagree"
				}
				return ""
			})
		}
		// the sort uses bytes.Compare — the merge's comparator
		sortFn := sh
		if sortFn == nil {
			sortFn = cph
		}
		if sortFn != nil {
			okS, whyS = false, "no slices.SortFunc call found"
			for _, call := range an.Calls(sortFn, an.X("slices", "", "SortFunc")) {
				okS, whyS = true, ""
				if f, isF := call.Call.Args[1].(*ssa.Function); !isF || f.Name() != "Compare" || f.Pkg == nil || f.Pkg.Pkg.Path() != "bytes" {
					if mc, isMC := call.Call.Args[1].(*ssa.MakeClosure); !isMC || mc.Fn.Name() != "Compare" {
						okS, whyS = false, "the hash list is sorted with a comparator other than bytes.Compare, which the merge uses"
					}
				}
				if !an.IsParam(call.Call.Args[0], 0) && sortFn == sh {
					okS, whyS = false, "SortHashes does not sort its argument"
				}
			}
		}
		c.Require(okS, "ORDER", "solicit hash lists are sorted with the merge's comparator (bytes.Compare)", sortFn, "", 1, "slices.SortFunc(hashes, bytes.Compare)", whyS)
	}
	c.Note("not decided: that the merge equals set intersection for all sorted inputs (value-level)")
}

func init() {
	register(&Def{ID: "C30", Run: c30,
		Explain:     "Decides on SSA: (CONCAT) ComputeProtocolHash digests (session id, protocol id, context) such that every operand except the last is fixed-length by provenance (the session id is ComputeSessionID's 32-byte result at every call site / the once-written linkState.sessionID) or immediately preceded by an encoding of its own length, and all three inputs are bound; (R1/SIBLING) both the advertising filter and the match resolver accept a solicitation only past (peer constraint empty or == link remote peer) and (transport constraint 0 or == link transport), and the resolver additionally only when the hash recomputed from that directive's own (protocol id, context) equals the stream's hash; solicitation state only under its guards (LOCKSET). The length prefix must be an injective encoding of len (recognised integer encoder, no narrowing below 32 bits). (PROVENANCE) mounted-link accessors forward to the same-named link accessor; RecvMsg freshness and SendMsg framing shared with C08.",
		NotCov:      "collision resistance of BLAKE3 and the remote side's behaviour.",
		Assumptions: commonAssumptions})
	register(&Def{ID: "C31", Run: c31,
		Explain:     "Decides on SSA: AcceptMountedStream returns the stream only on paths where, under the mutex, accepted was false and err nil, having set accepted=true; Close closes the stream only when not accepted and marks the value closed; (LOOPALLOC) the controller constructs the ownership wrapper once per stream, not once per matching solicitation; (LOCKSET) accepted and err are touched only under mu (including the closed-error check), controller state only under its broadcast lock. Every return of Close past the underlying stream's Close has the value marked closed, whatever that Close returned. (ORDER/WHO) the solicited-stream handler reports success once it handed the stream over and closes no stream itself.",
		NotCov:      "scheduling-level outcomes beyond lock discipline; handler-side behaviour after acceptance.",
		Assumptions: commonAssumptions})
	register(&Def{ID: "C32", Run: c32,
		Explain:     "Decides on SSA: (ROLE) ComputeSessionID hashes exactly its two parameters with the first operand <= the second on every path (phi-swapped min/max), so both argument orders give one digest; operands are self-delimiting peer IDs and the result is a fixed 32-byte prefix; FindMatchingHashes records an element only on the bytes.Compare(local[i],remote[j])==0 edge, as a clone of local[i], and advances both cursors there. (ORDER) on the three ways back to the merge loop's head the cursors move as a sorted merge (==: both, <: local, >: remote); ComputeProtocolHashes returns its list sorted, with bytes.Compare — the merge's comparator. The premise that peer ids are self-delimiting: exact-length multihash decode obligations (C10's, without the identity-only clause); RecvMsg freshness.",
		NotCov:      "that the merge equals set intersection for all sorted inputs with duplicates (value-level algorithm).",
		Assumptions: commonAssumptions})
}

func relName(r an.Rel) string {
	switch r {
	case an.EQ:
		return "== 0"
	case an.LT:
		return "< 0"
	case an.GT:
		return "> 0"
	}
	return "?"
}

// mountedLinkForwarding: the mounted-link wrapper (the only link.MountedLink implementation; constraints are evaluated
// against it) forwards every accessor to the link method of the same meaning.
func mountedLinkForwarding(c *an.Check) {
	p := c.P
	want := map[string]string{"GetLinkUUID": "GetUUID", "GetTransportUUID": "GetTransportUUID", "GetRemoteTransportUUID": "GetRemoteTransportUUID", "GetLocalPeer": "GetLocalPeer", "GetRemotePeer": "GetRemotePeer"}
	n, bad := 0, ""
	for m, inner := range want {
		fn := p.Func("transport/controller", "mountedLink", m)
		if fn == nil {
			bad = "unresolved anchor: mountedLink." + m
			continue
		}
		n++
		for _, b := range an.ScanBlocks(fn) {
			ret, ok := b.Instrs[len(b.Instrs)-1].(*ssa.Return)
			if !ok {
				continue
			}
			call, isCall := ret.Results[0].(*ssa.Call)
			if !isCall || !call.Call.IsInvoke() || call.Call.Method.Name() != inner {
				bad = fmt.Sprintf("mountedLink.%s does not return link.%s(): constraints on the local transport / peer are evaluated against the wrong end of the link", m, inner)
			}
		}
	}
	c.Require(bad == "" && n == len(want), "PROVENANCE", "mounted link accessors forward to the link accessor of the same meaning", nil, "", n, "GetX() = link.GetX()", bad)
}

// solicitedHandlerHandsOver: the mounted-stream handler for incoming solicit:<hash> streams only hands the stream to
// the controller and reports success — it returns no error after the hand-over (the transport controller closes a stream
// whose handler returned an error, i.e. a stream a caller may already have accepted) and closes no stream itself: the
// only code that closes a solicited stream is the ownership wrapper's Close.
func solicitedHandlerHandsOver(c *an.Check) {
	p := c.P
	h := p.Func(solcPkg, "solicitedStreamMountedHandler", "HandleMountedStream")
	if h == nil {
		c.Undecided("ORDER", "solicited-stream handler", nil, "unresolved anchor")
		return
	}
	cHand := an.R(solcPkg, "Controller", "handleIncomingSolicitedStream")
	c.EachReturn("ORDER", "solicited-stream handler reports success once the stream was handed over", h, "no error return after handleIncomingSolicitedStream", func(s *an.State, ret *ssa.Return) string {
		handed := s.Executed(ret, func(i ssa.Instruction) bool { return an.IsCallTo(i, cHand) })
		if handed && !s.IsNil(s.RetVal(ret, 0)) {
			return "the handler returns an error after it handed the stream to the controller: the transport closes a stream that a caller may already own"
		}
		return ""
	})
	closes := ""
	for _, g := range an.WithClosures(h) {
		for _, b := range an.ScanBlocks(g) {
			for _, ins := range b.Instrs {
				var cc *ssa.CallCommon
				switch x := ins.(type) {
				case *ssa.Call:
					cc = x.Common()
				case *ssa.Defer:
					cc = x.Common()
				case *ssa.Go:
					cc = x.Common()
				}
				if cc != nil && cc.IsInvoke() && cc.Method.Name() == "Close" {
					closes = fmt.Sprintf("the solicited-stream handler closes a stream itself at %s: it cannot know whether that stream was accepted", p.Pos(ins.Pos()))
				}
			}
		}
	}
	n := len(an.Calls(h, cHand))
	c.Require(closes == "" && n == 1, "WHO", "solicited streams are closed only through their ownership wrapper", h, "", n, "handler hands over exactly once and never calls Close", func() string {
		if closes != "" {
			return closes
		}
		return "the handler does not hand the stream to the controller exactly once (anchor drift)"
	}())
}
