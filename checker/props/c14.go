package props

import (
	"encoding/hex"
	"fmt"
	"go/ast"
	"go/constant"
	"go/token"
	"go/types"
	"math/big"
	"sort"
	"strings"

	"bifrostverify/an"

	"golang.org/x/tools/go/ssa"
)

// smallOrderEncodings derives, from the curve equation alone, every 32-byte little-endian encoding (sign bit
// cleared, values < 2^255, non-canonical y+p included) of the y-coordinate of a point of edwards25519 whose
// order divides 8.
func smallOrderEncodings() ([]string, error) {
	p := new(big.Int).Sub(new(big.Int).Lsh(big.NewInt(1), 255), big.NewInt(19))
	mod := func(x *big.Int) *big.Int { return x.Mod(x, p) }
	inv := func(x *big.Int) *big.Int { return new(big.Int).ModInverse(x, p) }
	d := mod(new(big.Int).Mul(big.NewInt(-121665), inv(big.NewInt(121666))))
	type pt struct{ x, y *big.Int }
	add := func(a, b pt) pt {
		// a=-1 twisted Edwards addition (complete on this curve)
		x1y2 := new(big.Int).Mul(a.x, b.y)
		y1x2 := new(big.Int).Mul(a.y, b.x)
		y1y2 := new(big.Int).Mul(a.y, b.y)
		x1x2 := new(big.Int).Mul(a.x, b.x)
		dxy := mod(new(big.Int).Mul(d, mod(new(big.Int).Mul(x1x2, y1y2))))
		x3 := mod(new(big.Int).Mul(mod(new(big.Int).Add(x1y2, y1x2)), inv(mod(new(big.Int).Add(big.NewInt(1), dxy)))))
		y3 := mod(new(big.Int).Mul(mod(new(big.Int).Add(y1y2, x1x2)), inv(mod(new(big.Int).Sub(big.NewInt(1), dxy)))))
		return pt{x3, y3}
	}
	onCurve := func(q pt) bool {
		x2 := mod(new(big.Int).Mul(q.x, q.x))
		y2 := mod(new(big.Int).Mul(q.y, q.y))
		l := mod(new(big.Int).Sub(y2, x2))
		r := mod(new(big.Int).Add(big.NewInt(1), mod(new(big.Int).Mul(d, mod(new(big.Int).Mul(x2, y2))))))
		return l.Cmp(r) == 0
	}
	// candidate y values: the y of all points with 8P = O. Find them by solving: order 1,2: y=±1 (x=0);
	// order 4: y=0; order 8: x^2 = -y^2 with d*y^4 + 2*y^2 - 1 = 0.
	cands := []*big.Int{big.NewInt(1), new(big.Int).Sub(p, big.NewInt(1)), big.NewInt(0)}
	disc := new(big.Int).ModSqrt(mod(new(big.Int).Add(big.NewInt(1), d)), p)
	if disc == nil {
		return nil, fmt.Errorf("1+d is not a square: curve constants wrong")
	}
	for _, sgn := range []int64{1, -1} {
		num := mod(new(big.Int).Add(big.NewInt(-1), new(big.Int).Mul(big.NewInt(sgn), disc)))
		y2 := mod(new(big.Int).Mul(num, inv(d)))
		if y := new(big.Int).ModSqrt(y2, p); y != nil {
			cands = append(cands, y, mod(new(big.Int).Neg(y)))
		}
	}
	ys := map[string]*big.Int{}
	for _, y := range cands {
		// recover x from the curve equation: x^2 = (y^2-1)/(d*y^2+1)
		y2 := mod(new(big.Int).Mul(y, y))
		den := mod(new(big.Int).Add(mod(new(big.Int).Mul(d, y2)), big.NewInt(1)))
		x2 := mod(new(big.Int).Mul(mod(new(big.Int).Sub(y2, big.NewInt(1))), inv(den)))
		x := new(big.Int).ModSqrt(x2, p)
		if x == nil {
			continue
		}
		q := pt{x, new(big.Int).Set(y)}
		if !onCurve(q) {
			continue
		}
		// verify 8q == identity
		r := q
		for i := 0; i < 3; i++ {
			r = add(r, r)
		}
		if r.x.Sign() == 0 && r.y.Cmp(big.NewInt(1)) == 0 {
			ys[y.String()] = y
		}
	}
	if len(ys) != 5 {
		return nil, fmt.Errorf("derived %d distinct small-order y coordinates, expected 5 (1, -1, 0, ±y8)", len(ys))
	}
	enc := map[string]bool{}
	two255 := new(big.Int).Lsh(big.NewInt(1), 255)
	for _, y := range ys {
		for _, v := range []*big.Int{y, new(big.Int).Add(y, p)} {
			if v.Cmp(two255) >= 0 {
				continue
			}
			b := v.Bytes() // big endian
			le := make([]byte, 32)
			for i := range b {
				le[i] = b[len(b)-1-i]
			}
			enc[hex.EncodeToString(le)] = true
		}
	}
	var out []string
	for k := range enc {
		out = append(out, k)
	}
	sort.Strings(out)
	return out, nil
}

// lowOrderClassifier decides the small-order classifier itself (shared by C14 and by every property whose signature
// verification rejects small-order keys through it): (TABLE) the rejection table equals the derived 8-torsion encodings;
// (SIGNBIT) the classifier ignores the sign bit of the input's last byte.
func lowOrderClassifier(c *an.Check) {
	p := c.P
	tp := p.TPkg("util/extra25519")
	if tp == nil {
		c.Undecided("TABLE", "extra25519 small-order table", nil, "unresolved anchor: package not loaded")
		return
	}
	// locate the table by role: the package-level [N][32]byte variable
	var rows []string
	nTables := 0
	for _, f := range tp.Syntax {
		ast.Inspect(f, func(n ast.Node) bool {
			vs, ok := n.(*ast.ValueSpec)
			if !ok {
				return true
			}
			for i, nm := range vs.Names {
				obj := tp.TypesInfo.Defs[nm]
				if obj == nil || obj.Parent() != tp.Types.Scope() || i >= len(vs.Values) {
					continue
				}
				at, ok := obj.Type().Underlying().(*types.Array)
				if !ok {
					continue
				}
				et, ok := at.Elem().Underlying().(*types.Array)
				if !ok || et.Len() != 32 {
					continue
				}
				cl, ok := vs.Values[i].(*ast.CompositeLit)
				if !ok {
					continue
				}
				nTables++
				for _, re := range cl.Elts {
					rl, ok := re.(*ast.CompositeLit)
					if !ok {
						continue
					}
					row := make([]byte, 0, 32)
					for _, be := range rl.Elts {
						if tv, ok := tp.TypesInfo.Types[be]; ok && tv.Value != nil {
							v, _ := constant.Uint64Val(tv.Value)
							row = append(row, byte(v))
						}
					}
					for len(row) < 32 {
						row = append(row, 0)
					}
					rows = append(rows, hex.EncodeToString(row))
				}
			}
			return true
		})
	}
	if nTables != 1 {
		c.Undecided("TABLE", "extra25519 small-order table", nil, fmt.Sprintf("unresolved anchor: expected one package-level [N][32]byte table, found %d", nTables))
		return
	}
	want, err := smallOrderEncodings()
	if err != nil {
		c.Undecided("TABLE", "extra25519 small-order table", nil, "internal derivation failed: "+err.Error())
		return
	}
	got := map[string]bool{}
	for _, r := range rows {
		got[r] = true
	}
	var missing, extra []string
	for _, w := range want {
		if !got[w] {
			missing = append(missing, w)
		}
	}
	wm := map[string]bool{}
	for _, w := range want {
		wm[w] = true
	}
	for _, r := range rows {
		if !wm[r] {
			extra = append(extra, r)
		}
	}
	c.Require(len(missing) == 0 && len(extra) == 0 && len(rows) == len(want), "TABLE", "extra25519 small-order table equals the derived set of 8-torsion encodings", p.Func("util/extra25519", "", "IsEdLowOrder"), "", len(rows)+len(want),
		fmt.Sprintf("%d rows == %d encodings derived from the curve equation with math/big", len(rows), len(want)),
		fmt.Sprintf("table differs from the derived set: missing %v, not small-order %v (rows %d, derived %d)", missing, extra, len(rows), len(want)))
	lo := p.Func("util/extra25519", "", "IsEdLowOrder")
	if lo == nil {
		c.Undecided("SIGNBIT", "extra25519.IsEdLowOrder", nil, "unresolved anchor")
		return
	}
	// SIGNBIT: the table holds encodings with the sign bit cleared, so the classifier may only look at the input's
	// last byte through a 0x7f mask: every read ge[idx] for which the path does not establish idx < 31 must be
	// masked before use (a necessary condition; the accumulate/compare idiom itself is not pattern-matched).
	nReads, nMasked, badRead := 0, 0, ""
	ex := &an.Explorer{P: p}
	seenRead := map[ssa.Instruction]bool{}
	ex.OnInstr = func(s *an.State, ins ssa.Instruction) bool {
		u, ok := ins.(*ssa.UnOp)
		if !ok {
			return true
		}
		ia, ok := u.X.(*ssa.IndexAddr)
		if !ok || !an.IsParam(ia.X, 0) {
			return true
		}
		if !seenRead[ins] {
			seenRead[ins] = true
			nReads++
		}
		r := s.Rel(ia.Index, ssa.NewConst(constant.MakeInt64(31), ia.Index.Type()))
		if r == an.LT {
			return true // provably not the last byte
		}
		// must be masked: every use of the loaded byte is `& 0x7f`
		masked := u.Referrers() != nil && len(*u.Referrers()) > 0
		if masked {
			for _, ref := range *u.Referrers() {
				if _, dbg := ref.(*ssa.DebugRef); dbg {
					continue
				}
				bo, isBin := ref.(*ssa.BinOp)
				if !isBin || bo.Op != token.AND || !(isByteConst(bo.X, 0x7f) || isByteConst(bo.Y, 0x7f)) {
					masked = false
				}
			}
		}
		if masked {
			nMasked++
		} else if badRead == "" {
			badRead = fmt.Sprintf("the input byte read at %s may be the last byte (index not known < 31 on this path) and is used without the 0x7f mask", p.Pos(u.Pos()))
		}
		return true
	}
	ex.Run(lo, nil)
	c.Touch(lo)
	c.Require(badRead == "" && nReads >= 2 && nMasked >= 1 && !ex.Truncated, "SIGNBIT", "extra25519 classifier ignores the sign bit of the input's last byte", lo, "", ex.States,
		fmt.Sprintf("%d input reads; every read that may be byte 31 is masked with 0x7f", nReads), func() string {
			if badRead != "" {
				return badRead
			}
			return "input reads not found / no masked read of the last byte (anchor drift)"
		}())
	// ACCUMULATE: the verdict must depend on every byte compared: inside the comparison loops the accumulator cell's new
	// value is computed from its old value (c[i] |= …), never overwritten (c[i] = …), otherwise only the last bytes count
	nAcc, badAcc := 0, ""
	for _, b := range an.ScanBlocks(lo) {
		if an.InnermostLoop(lo, b) == nil {
			continue
		}
		for _, ins := range b.Instrs {
			st, ok := ins.(*ssa.Store)
			if !ok {
				continue
			}
			ia, ok := st.Addr.(*ssa.IndexAddr)
			if !ok {
				continue
			}
			if _, isLocal := ia.X.(*ssa.Alloc); !isLocal {
				continue
			}
			nAcc++
			usesOld := p.DependsOn(st.Val, func(v ssa.Value) bool {
				u, ok := v.(*ssa.UnOp)
				if !ok || u.Op != token.MUL {
					return false
				}
				oa, ok := u.X.(*ssa.IndexAddr)
				return ok && oa.X == ia.X && oa.Index == ia.Index
			})
			if !usesOld {
				badAcc = fmt.Sprintf("the accumulator element stored at %s is overwritten instead of combined with its previous value: bytes compared in earlier iterations no longer influence the verdict (ordinary keys are misclassified, or small-order ones missed)", p.Pos(st.Pos()))
			}
		}
	}
	c.Require(badAcc == "" && nAcc >= 2, "ACCUMULATE", "extra25519 classifier accumulates the comparison over all 32 bytes", lo, "", nAcc, "every accumulator store inside the loops depends on the element's previous value", func() string {
		if badAcc != "" {
			return badAcc
		}
		return "accumulator stores not found (anchor drift)"
	}())
}

func c14(c *an.Check) {
	privateScalarProvenance(c)
	noUseAfterScrub(c, []*ssa.Function{c.P.Func("peer", "", "DeriveKey"), c.P.Func("peer", "", "EncryptToEd25519"), c.P.Func("peer", "", "DecryptWithEd25519")}, map[string]int{"Decode": 0})
	ed25519PrivateKeyDecodeGates(c)
	p := c.P
	lowOrderClassifier(c)
	// the classifier consults the table for all 32 bytes: it reads the table (structure only, no idiom matching)
	lo := p.Func("util/extra25519", "", "IsEdLowOrder")
	conv := p.Func("util/extra25519", "", "PublicKeyToCurve25519")
	if lo == nil || conv == nil {
		c.Undecided("GATE", "extra25519.PublicKeyToCurve25519", nil, "unresolved anchor")
		return
	}
	c.Gate(an.GateSpec{Construct: "extra25519.PublicKeyToCurve25519 valid-return", Fn: conv,
		Sink: func(s *an.State, ins ssa.Instruction) bool {
			ret, ok := ins.(*ssa.Return)
			return ok && !s.IsFalse(s.RetVal(ret, 1))
		},
		Reqs: []an.Req{
			{Name: "IsEdLowOrder(input) is false", Holds: func(s *an.State, at ssa.Instruction) bool {
				for _, call := range an.Calls(conv, an.R("util/extra25519", "", "IsEdLowOrder")) {
					if s.IsFalse(call) && an.IsParam(an.Strip(call.Call.Args[0]), 0) {
						return true
					}
				}
				return false
			}},
			an.CallOK("edwards25519 SetBytes ok", an.X("filippo.io/edwards25519", "Point", "SetBytes")),
		}})
	c.EachReturn("PROVENANCE", "extra25519.PublicKeyToCurve25519 converts the decoded input point", conv, "BytesMontgomery of SetBytes(input)", func(s *an.State, ret *ssa.Return) string {
		if s.IsFalse(s.RetVal(ret, 1)) {
			if !s.IsNil(s.RetVal(ret, 0)) {
				return "an invalid verdict is returned together with key bytes"
			}
			return ""
		}
		bm := an.ResultCallTo(s.RetVal(ret, 0), an.X("filippo.io/edwards25519", "Point", "BytesMontgomery"))
		if bm == nil {
			return "valid return does not yield BytesMontgomery of the decoded point"
		}
		sb := an.ResultCallTo(s.Canon(bm.Call.Args[0]), an.X("filippo.io/edwards25519", "Point", "SetBytes"))
		if sb == nil || !an.IsParam(an.Strip(sb.Call.Args[1]), 0) {
			return "the converted point is not decoded from the input parameter"
		}
		return ""
	})
	// every caller hands over exactly 32 bytes (IsEdLowOrder indexes ge[0..31])
	n := 0
	for _, fn := range p.AllRepoFuncs() {
		for _, call := range an.Calls(fn, cPubToCurve, an.R("util/extra25519", "", "IsEdLowOrder")) {
			if fn == conv {
				continue
			}
			n++
			call := call
			fn := fn
			name := fmt.Sprintf("extra25519 caller %s passes a 32-byte key", an.FuncName(fn))
			arg := call.Call.Args[0]
			ok := false
			why := ""
			reached := 0
			ex := &an.Explorer{P: p}
			ex.OnInstr = func(s *an.State, ins ssa.Instruction) bool {
				if ins != ssa.Instruction(call) {
					return true
				}
				reached++
				good := false
				if l, okl := s.FixedLen(arg); okl && l == 32 {
					good = true
				} else if s.AnyFact(func(s *an.State, x, y ssa.Value, r an.Rel) bool {
					return r == an.EQ && an.IsIntConst(y, 32) && an.LenOf(s, x, func(a ssa.Value) bool { return s.Key(a) == s.Key(arg) })
				}) {
					good = true
				}
				if reached == 1 {
					ok = good
				} else {
					ok = ok && good
				}
				if !good {
					why = "argument length is not established as 32 on a path"
				}
				return true
			}
			ex.Run(fn, nil)
			c.Touch(fn)
			c.Require(ok && reached > 0, "CALLARG", name, fn, p.Pos(call.Pos()), ex.States, "fixed 32-byte operand or len==32 guard on every path", why)
		}
	}
	c.Sites(n)
	c.Require(n >= 4, "CALLARG", "extra25519 conversion call sites found", conv, "", n, "call sites enumerated", "anchor drift: fewer than 4 call sites")
	// the conversions return storage of their own: nothing they return aliases a buffer they have handed back to a pool,
	// and (value, error) results are dereferenced only behind err == nil
	var xfns []*ssa.Function
	for _, f := range p.PkgFuncs("util/extra25519") {
		if f.Parent() == nil {
			xfns = append(xfns, f)
		}
	}
	nRel := c.ReleasedNotReturned("OWNERSHIP", "extra25519: returned values do not alias released pool storage", xfns)
	// the private-key conversion result is a fresh digest: produced by Sum(nil) (or another allocation), never by appending
	// to shared storage
	pk := p.Func("util/extra25519", "", "PrivateKeyToCurve25519")
	okFresh, whyFresh := pk != nil, "unresolved anchor"
	if pk != nil {
		for _, call := range an.WithClosures(pk)[0].Blocks {
			for _, ins := range call.Instrs {
				cl, ok := ins.(*ssa.Call)
				if !ok || !cl.Call.IsInvoke() || cl.Call.Method.Name() != "Sum" {
					continue
				}
				fresh := true
				for r := range an.AliasRoots(cl.Call.Args[0]) {
					switch r.(type) {
					case *ssa.Const, *ssa.MakeSlice, *ssa.Alloc, *ssa.Slice:
					default:
						fresh = false
					}
				}
				if !fresh {
					okFresh, whyFresh = false, "the digest is appended to caller-independent storage that outlives the call (Sum(b) with b from a pool, global or parameter): two conversion results alive at once overwrite each other"
				}
			}
		}
	}
	c.Require(okFresh, "OWNERSHIP", "extra25519.PrivateKeyToCurve25519 returns a freshly allocated scalar", pk, "", 1+nRel, "digest = h.Sum(nil) or Sum into storage allocated in the call", whyFresh)
	c.NilDerefGuard("NILDEREF", "extra25519: (value, error) results dereferenced only when err==nil", xfns, nil)
	c.Trust("filippo.io/edwards25519 point decoding / Montgomery conversion", "math/big modular arithmetic used by the checker's own derivation")
}

func init() {
	register(&Def{ID: "C14", Run: c14,
		Explain:     "Decides: (TABLE) the rejection table in util/extra25519 (located by type: the package-level [N][32]byte literal, read from the type-checked AST by constant evaluation) equals, as a set, the encodings the checker derives itself with math/big from the curve equation: y-coordinates (sign bit cleared, values below 2^255, non-canonical y+p included) of all points P with 8P=O — 7 rows; (R1) PublicKeyToCurve25519 reports valid only past IsEdLowOrder(input)==false and SetBytes ok, converting exactly the decoded input, and returns nil bytes with an invalid verdict; (SIGNBIT) in the classifier every read of an input byte whose index is not known < 31 on the path is used only through a 0x7f mask (the table rows have the sign bit cleared, so the input's sign bit must not influence the verdict); (CALLARG) every caller passes a 32-byte operand (fixed-size value or len==32 guard on every path), which IsEdLowOrder's indexing needs. (OWNERSHIP) nothing the conversions return aliases storage released to a pool and the private-key scalar is a freshly allocated digest; (NILDEREF) as in C12. (ACCUMULATE) every accumulator store of the classifier depends on the element's previous value; seed provenance, use-after-scrub and private-key decode gates as in C13.",
		NotCov:      "functional correctness of the constant-time classifier loop for all 2^256 inputs given the table (a solver/proof task — deliberately not pattern-matched), and the shared-secret symmetry clause (runtime values).",
		Technique:   "static analysis: constant evaluation of the type-checked table literal compared with a set derived from the curve equation; SSA must-pass gates and call-site argument-length rule",
		Assumptions: commonAssumptions})
}

func isByteConst(v ssa.Value, n int64) bool {
	k, ok := v.(*ssa.Const)
	return ok && k.Value != nil && k.Value.Kind() == constant.Int && k.Int64() == n
}

// privateScalarProvenance: the private-key conversion hashes exactly the 32-byte seed (privateKey[:32]) — for every key
// length it can be handed — and returns the clamped digest.
func privateScalarProvenance(c *an.Check) {
	p := c.P
	pk := p.Func("util/extra25519", "", "PrivateKeyToCurve25519")
	ok, why := pk != nil, "unresolved anchor"
	if pk != nil {
		ok, why = false, "no hash Write of the key found"
		for _, b := range an.ScanBlocks(pk) {
			for _, ins := range b.Instrs {
				call, isCall := ins.(*ssa.Call)
				if !isCall {
					continue
				}
				// h.Write(x) on a hash, or the one-shot sha512.Sum512(x)
				isWrite := call.Call.IsInvoke() && call.Call.Method.Name() == "Write"
				isSum := an.IsCallTo(call, an.X("crypto/sha512", "", "Sum512"))
				if !isWrite && !isSum {
					continue
				}
				sl, isSl := an.ConvOf(call.Call.Args[0]).(*ssa.Slice)
				if isSl && an.IsParam(an.ConvOf(sl.X), 0) && (sl.Low == nil || an.IsIntConst(sl.Low, 0)) && sl.High != nil && an.IsIntConst(sl.High, 32) {
					ok, why = true, ""
				} else {
					ok, why = false, "the bytes hashed into the scalar are not privateKey[:32] (the seed): keys of other lengths hash a different — possibly empty — prefix and collide"
				}
			}
		}
	}
	c.Require(ok, "PROVENANCE", "extra25519.PrivateKeyToCurve25519 hashes exactly the 32-byte seed", pk, "", 1, "h.Write(privateKey[:32])", why)
}

// noUseAfterScrub: in the secret-key paths a buffer handed to scrub.Scrub (not deferred) is not read again by a later
// call in the same function. writeOnlyDst names (callee, argument index) pairs that only write into the buffer.
func noUseAfterScrub(c *an.Check, fns []*ssa.Function, writeOnlyDst map[string]int) {
	p := c.P
	n, bad := 0, ""
	for _, fn := range fns {
		if fn == nil {
			continue
		}
		for _, b := range an.ScanBlocks(fn) {
			for idx, ins := range b.Instrs {
				sc, ok := ins.(*ssa.Call)
				if !ok {
					continue
				}
				fo := an.CallObj(sc.Common())
				if fo == nil || fo.Name() != "Scrub" || len(sc.Call.Args) == 0 {
					continue
				}
				n++
				roots := map[ssa.Value]bool{}
				for r := range an.AliasRoots(sc.Call.Args[0]) {
					switch r.(type) {
					case *ssa.Alloc, *ssa.Call, *ssa.MakeSlice:
						roots[r] = true
					}
				}
				// forward reachability from right after the scrub
				seen := map[*ssa.BasicBlock]bool{}
				var scan func(blk *ssa.BasicBlock, from int)
				scan = func(blk *ssa.BasicBlock, from int) {
					for _, i2 := range blk.Instrs[from:] {
						cc, isCall := i2.(*ssa.Call)
						if !isCall || i2 == ins {
							continue
						}
						f2 := an.CallObj(cc.Common())
						name := ""
						if f2 != nil {
							name = f2.Name()
						} else if bi, isB := cc.Call.Value.(*ssa.Builtin); isB {
							name = bi.Name()
						}
						if name == "Scrub" {
							continue
						}
						redefined := false
						for ai, a := range an.CallArgs(cc.Common()) {
							if wi, isW := writeOnlyDst[name]; isW && wi == ai {
								for r := range an.AliasRoots(a) {
									if roots[r] {
										redefined = true // the buffer is reused as a pure destination: new content from here on
									}
								}
							}
						}
						if redefined {
							return
						}
						for ai, a := range an.CallArgs(cc.Common()) {
							if wi, isW := writeOnlyDst[name]; isW && wi == ai {
								continue
							}
							for r := range an.AliasRoots(a) {
								if roots[r] {
									bad = fmt.Sprintf("%s: the buffer wiped at %s is passed to %s at %s afterwards: the callee works on zeroes instead of the secret", an.FuncName(fn), p.Pos(sc.Pos()), name, p.Pos(cc.Pos()))
								}
							}
						}
					}
					for _, s := range blk.Succs {
						if !seen[s] {
							seen[s] = true
							scan(s, 0)
						}
					}
				}
				scan(b, idx+1)
			}
		}
	}
	c.Require(bad == "" && n >= 1, "ORDER", "secret buffers are not used after they were wiped", nil, "", n, fmt.Sprintf("%d scrub sites; no later call reads a wiped buffer", n), bad)
}

// scrubOwnStorage: a function wipes only storage it produced itself. The buffer handed to scrub.Scrub (direct or
// deferred) must be rooted in a local allocation or in the result of a producer that returns fresh storage; wiping a
// parameter, a view of the caller's key (crypto.PrivKeyToStdKey returns a pointer into the key object) or a package
// variable destroys the caller's data — e.g. append(callerKey[:], ctx...) aliases callerKey whenever ctx is empty.
// freshProducers lists the callees whose result is storage owned by the caller of that callee (each confirmed by reading).
var freshProducers = map[string]string{
	"util/extra25519.PrivateKeyToCurve25519": "returns h.Sum(nil): a fresh 64-byte digest (privateScalarProvenance decides it is derived from a copy)",
	"util/extra25519.PublicKeyToCurve25519":  "returns BytesMontgomery(): a fresh 32-byte slice",
	"crypto/ed25519.NewKeyFromSeed":          "allocates the 64-byte key it returns",
	"crypto/ed25519.GenerateKey":             "allocates both keys",
	"(crypto/ed25519.PrivateKey).Public":     "allocates the 32-byte public key it returns",
	"(*crypto/ecdh.PrivateKey).ECDH":         "returns a fresh shared-secret slice",
	"(*crypto/ecdh.PrivateKey).Bytes":        "returns a copy",
	"(*crypto/ecdh.PublicKey).Bytes":         "returns a copy",
}

func scrubOwnStorage(c *an.Check, construct string, fns []*ssa.Function) int {
	p := c.P
	n, bad := 0, ""
	for _, fn := range fns {
		if fn == nil {
			continue
		}
		c.Touch(fn)
		for _, g := range an.WithClosures(fn) {
			for _, b := range an.ScanBlocks(g) {
				for _, ins := range b.Instrs {
					var cc *ssa.CallCommon
					switch x := ins.(type) {
					case *ssa.Call:
						cc = x.Common()
					case *ssa.Defer:
						cc = x.Common()
					}
					if cc == nil {
						continue
					}
					fo := an.CallObj(cc)
					if fo == nil || fo.Name() != "Scrub" || fo.Pkg() == nil || !strings.HasSuffix(fo.Pkg().Path(), "/scrub") || len(cc.Args) == 0 {
						continue
					}
					n++
					for r := range an.AliasRoots(cc.Args[0]) {
						why := ""
						switch x := r.(type) {
						case *ssa.Parameter:
							why = "parameter " + x.Name()
						case *ssa.FreeVar:
							if _, isPtrToSlice := x.Type().Underlying().(*types.Pointer); !isPtrToSlice {
								why = "captured variable " + x.Name()
							}
						case *ssa.Global:
							why = "package variable " + x.Name()
						case *ssa.UnOp:
							if x.Op == token.MUL {
								switch base := x.X.(type) {
								case *ssa.Alloc:
								case *ssa.FreeVar:
									// a captured local of the enclosing function: judged through its binding
									if bnd := p.Binding(base); bnd != nil {
										if _, isAlloc := bnd.(*ssa.Alloc); !isAlloc {
											why = "storage reached through captured " + base.Name()
										}
									}
								default:
									why = "storage reached through the pointer " + x.X.Name() + " (a view of someone else's object)"
								}
							}
						case *ssa.Call:
							if bn := an.BuiltinName(x); bn != "" {
								break
							}
							name := ""
							if x.Call.IsInvoke() {
								name = "(" + x.Call.Value.Type().String() + ")." + x.Call.Method.Name()
							} else if f := x.Call.StaticCallee(); f != nil {
								name = strings.TrimPrefix(f.String(), an.Mod+"/")
								name = strings.ReplaceAll(name, an.Mod+"/", "")
							}
							switch {
							case freshProducers[name] != "":
							case aliasPassThrough(x):
							default:
								why = "the result of " + name + ", which is not known to return storage owned by this function"
							}
						}
						if why != "" {
							bad = fmt.Sprintf("%s wipes %s at %s", an.FuncName(g), why, p.Pos(ins.Pos()))
						}
					}
				}
			}
		}
	}
	c.Sites(n)
	c.Require(bad == "" && n > 0, "OWNERSHIP", construct, fns[0], "", n, "every scrub.Scrub argument is rooted in a local allocation or a fresh-storage producer", func() string {
		if bad != "" {
			return bad + ": the caller's data is destroyed (e.g. append(key[:], ctx...) aliases key when ctx is empty)"
		}
		return "no scrub call found (anchor drift)"
	}())
	return n
}

// aliasPassThrough: calls AliasRoots walks through (their result aliases the destination argument, which is judged itself).
func aliasPassThrough(x *ssa.Call) bool {
	name := ""
	if x.Call.IsInvoke() {
		name = x.Call.Method.Name()
	} else if fo := an.CallObj(x.Common()); fo != nil {
		name = fo.Name()
	}
	switch name {
	case "Sum", "Seal", "Open", "AppendBinary", "AppendUvarint", "AppendVarint", "Decode", "Encode":
		return true
	}
	return false
}
