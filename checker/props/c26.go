package props

import (
	"fmt"
	"go/token"
	"strings"

	"bifrostverify/an"

	"golang.org/x/tools/go/ssa"
)

const wrPkg = "transport/webrtc"

func c26(c *an.Check) {
	// signals are decrypted by the public-key decryption chain: arbitrary payload bytes reach it
	peerEncryptTotality(c, "webrtc signal decryption chain totality")
	// ... and a payload decodes to the same signal however often (and with whatever keys) it was tried before
	decryptInputUntouched(c)
	p := c.P
	// ---- ROLE: the offerer predicate is a strict order on (local, remote) in one encoding
	iso := one(pkgFuncsWhere(p, wrPkg, func(f *ssa.Function) bool {
		return f.Signature.Recv() == nil && f.Signature.Params().Len() == 2 && f.Signature.Results().Len() == 1 && f.Signature.Results().At(0).Type().String() == "bool" && callsAny(f, an.X("strings", "", "Compare"))
	}))
	if iso == nil {
		c.Undecided("ROLE", "webrtc offerer predicate", nil, "unresolved anchor: expected one (string,string) bool function using strings.Compare")
	} else {
		c.EachReturn("ROLE", "webrtc offerer predicate is a strict order comparison of its two arguments", iso, "strings.Compare(a,b) <op> 0 with a strict order operator", func(s *an.State, ret *ssa.Return) string {
			bo, ok := s.RetVal(ret, 0).(*ssa.BinOp)
			if !ok {
				return "the result is not a comparison"
			}
			if bo.Op != token.LSS && bo.Op != token.GTR {
				return "the comparison with 0 is not a strict order operator (<, >): for two distinct peers either both or neither could become offerer"
			}
			cmp := an.ResultCallTo(s.Canon(bo.X), an.X("strings", "", "Compare"))
			if cmp == nil || !an.IsIntConst(bo.Y, 0) {
				return "the result is not strings.Compare(...) compared with 0"
			}
			if !(an.IsParam(cmp.Call.Args[0], 0) && an.IsParam(cmp.Call.Args[1], 1)) {
				return "strings.Compare is not applied to (first, second) argument in that order"
			}
			return ""
		})
		isoC := an.Callee{Pkg: "./" + wrPkg, Name: iso.Name()}
		n, ok, why := 0, true, ""
		peerIDF := fv(c, wrPkg, "WebRTC", "peerID")
		for _, fn := range p.PkgFuncs(wrPkg) {
			for _, call := range an.Calls(fn, isoC) {
				n++
				loc := an.ResultCallTo(call.Call.Args[0], cIDString)
				if loc == nil || !an.IsFieldLoad(loc.Call.Args[0], peerIDF) {
					ok, why = false, "the first argument is not the local peer id's string form"
				}
				if !an.IsParam(call.Call.Args[1], 1) {
					ok, why = false, "the second argument is not the remote peer key the tracker is created for"
				}
			}
		}
		c.Sites(n)
		c.Require(ok && n == 1, "ROLE", "webrtc role decision uses (local id string, remote id string)", iso, "", n, "isOfferer(w.peerID.String(), remote key)", why)
	}
	offF := fv(c, wrPkg, "sessionTracker", "offerer")
	nst := p.Func(wrPkg, "WebRTC", "newSessionTracker")
	c.Who(an.WhoSpec{Construct: "webrtc sessionTracker.offerer is decided once, at construction", Field: offF, Kinds: []an.AccessKind{an.Write}, Allowed: an.InFuncs(nst), Min: 1, Funcs: p.PkgFuncs(wrPkg)})
	// ---- CALLARG: the QUIC session over the data channel is constrained to the signaled peer
	trkPeerF := fv(c, wrPkg, "sessionTracker", "peerID")
	n, ok, why := 0, true, ""
	for _, fn := range p.PkgFuncs(wrPkg) {
		for _, call := range an.Calls(fn, an.R("transport/common/quic", "", "DialSession"), an.R("transport/common/quic", "", "ListenSession")) {
			n++
			last := call.Call.Args[len(call.Call.Args)-1]
			if !an.IsFieldLoad(last, trkPeerF) {
				ok, why = false, fmt.Sprintf("%s at %s does not pass the tracker's peer id as the expected remote peer", an.FuncName(fn), p.Pos(call.Pos()))
			}
		}
	}
	c.Sites(n)
	c.Require(ok && n == 2, "CALLARG", "webrtc link handshakes require the signaled peer (never the empty id)", nil, "", n, "DialSession/ListenSession(..., s.peerID)", why)
	expectedPeerForwarding(c)
	c.Who(an.WhoSpec{Construct: "webrtc sessionTracker.peerID is set only at construction", Field: trkPeerF, Kinds: []an.AccessKind{an.Write}, Allowed: an.InFuncs(nst), Min: 1, Funcs: p.PkgFuncs(wrPkg)})
	if nst != nil && trkPeerF != nil {
		okP := false
		for _, a := range p.FieldAccesses(trkPeerF, []*ssa.Function{nst}) {
			if a.Kind == an.Write {
				pc := an.ResultCallTo(a.Val, an.R("peer", "", "ParsePeerIDWithPubKey"))
				okP = pc != nil && an.IsParam(pc.Call.Args[0], 1)
			}
		}
		c.Require(okP, "PROVENANCE", "webrtc sessionTracker.peerID is parsed from the tracker's key", nst, "", 1, "peerID = ParsePeerIDWithPubKey(key)", "the expected peer is not parsed from the key the tracker was created for")
	}
	// the role chooses listen vs dial
	// ---- MIRROR: encode / decode
	enc, dec := p.Func(wrPkg, "", "EncodeWebRtcSignal"), p.Func(wrPkg, "", "DecodeWebRtcSignal")
	okM, whyM := enc != nil && dec != nil, "unresolved anchor"
	if okM {
		ec := an.Calls(enc, an.R("peer", "", "EncryptToPubKey"))
		dc := an.Calls(dec, an.R("peer", "", "DecryptWithPrivKey"))
		um := an.Calls(dec, an.R(wrPkg, "WebRtcSignal", "UnmarshalVT"))
		if len(ec) != 1 || len(dc) != 1 || len(um) != 1 {
			okM, whyM = false, "expected one encrypt, one decrypt and one decode call"
		} else {
			ge, gd := globalLoad(ec[0].Call.Args[1]), globalLoad(dc[0].Call.Args[1])
			if ge == nil || ge != gd {
				okM, whyM = false, "encode and decode do not use the same context variable"
			} else if okInit, where := globalWrittenOnlyInInit(p, ge); !okInit {
				okM, whyM = false, "the signaling context variable is reassigned: "+where
			}
			if okM && !(an.IsParam(ec[0].Call.Args[0], 1) && an.ResultCallTo(ec[0].Call.Args[2], an.R(wrPkg, "WebRtcSignal", "MarshalVT")) != nil) {
				okM, whyM = false, "encode does not encrypt MarshalVT(signal) to the destination key"
			}
			if okM && !(an.IsParam(dc[0].Call.Args[0], 1) && an.IsParam(dc[0].Call.Args[2], 0) && an.ResultCallTo(um[0].Call.Args[1], an.R("peer", "", "DecryptWithPrivKey")) != nil) {
				okM, whyM = false, "decode does not decrypt the payload with the given key and decode the plaintext"
			}
		}
	}
	c.Require(okM, "MIRROR", "webrtc signal encode/decode: encrypt(marshal) / unmarshal(decrypt) under one init-only context", dec, "", 3, "same context variable, own keys, own payload", whyM)
	c.Gate(an.GateSpec{Construct: "webrtc.DecodeWebRtcSignal success-return", Fn: dec, Sink: successReturn, Reqs: []an.Req{
		an.CallOK("decrypt ok", an.R("peer", "", "DecryptWithPrivKey")), an.CallOK("protobuf decodes", an.R(wrPkg, "WebRtcSignal", "UnmarshalVT"))}})
	// ---- the handler validates before use
	var hnd *ssa.Function
	for _, f := range p.PkgFuncs(wrPkg) {
		if callsAny(f, an.R(wrPkg, "", "DecodeWebRtcSignal")) {
			hnd = f
		}
	}
	if hnd == nil {
		c.Undecided("GATE", "webrtc signal handler", nil, "unresolved anchor: caller of DecodeWebRtcSignal not found")
	} else {
		dcall := an.Calls(hnd, an.R(wrPkg, "", "DecodeWebRtcSignal"))
		c.Gate(an.GateSpec{Construct: "webrtc signal handler uses a decoded signal", Fn: hnd, Descend: true, MaxStates: 300000,
			Sink: func(s *an.State, ins ssa.Instruction) bool {
				if len(dcall) != 1 {
					return false
				}
				sig := an.ErrResult(dcall[0], 0)
				if _, v, isSend := an.SelectSend(ins); isSend && sig != nil && v != nil && s.Key(v) == s.Key(sig) {
					return true
				}
				call, ok := ins.(*ssa.Call)
				if !ok || an.IsCallTo(call, an.R(wrPkg, "WebRtcSignal", "Validate")) {
					return false
				}
				for _, a := range an.CallArgs(call.Common()) {
					if sig != nil && s.Key(a) == s.Key(sig) {
						return true
					}
				}
				return false
			},
			Reqs: []an.Req{an.CallOK("decode ok", an.R(wrPkg, "", "DecodeWebRtcSignal")), an.CallOK("Validate ok", an.R(wrPkg, "WebRtcSignal", "Validate"))}})
	}
	// ---- SIBLING: the dispatcher handles exactly the bodies Validate knows
	var disp []*ssa.Function
	for _, f := range p.PkgFuncs(wrPkg) {
		if f.Name() == "Validate" || p.IsGenerated(f.Pos()) {
			continue
		}
		if len(typeAssertSet([]*ssa.Function{f}, "WebRtcSignal_")) > 0 {
			disp = append(disp, f)
		}
	}
	want := typeAssertSet([]*ssa.Function{p.Func(wrPkg, "WebRtcSignal", "Validate")}, "WebRtcSignal_")
	got := typeAssertSet(disp, "WebRtcSignal_")
	c.Require(strings.Join(got, ",") == strings.Join(want, ",") && len(want) >= 3, "SIBLING", "webrtc signal dispatcher handles exactly the bodies Validate knows", nil, "", len(got)+len(want), fmt.Sprintf("both %v", want), fmt.Sprintf("dispatcher handles %v but Validate knows %v", got, want))
	// ---- PANIC on the decode path
	if bce := peerBCE(c, "./transport/webrtc"); bce != nil {
		var fns []*ssa.Function
		for _, f := range p.PkgFuncs(wrPkg) {
			if f.Parent() == nil && !p.IsGenerated(f.Pos()) && strings.HasSuffix(p.Fset.Position(f.Pos()).Filename, "signal.go") {
				fns = append(fns, f)
			}
		}
		c.Totality(an.PanicSpec{Construct: "webrtc signal codec totality", Funcs: fns, BCE: bce, Min: 8, Reviewed: map[string]string{}})
	}
	thoroughCallers(c, "webrtc signal decoding", 0, []string{"transport/webrtc"}, an.R(wrPkg, "", "DecodeWebRtcSignal"))
	c.Trust("peer.EncryptToPubKey/DecryptWithPrivKey (C12)", "pion sdp / json decoders never panic")
}

func init() {
	register(&Def{ID: "C26", Run: c26,
		Explain:     "Decides on SSA: (ROLE) the offerer predicate returns strings.Compare(a,b) strictly-ordered against 0 with (a,b) in argument order, is called once with (local id string, remote key), and its verdict is stored only at tracker construction; (CALLARG) both QUIC handshakes over the data channel pass the tracker's peer id (parsed from the tracker's key, written only at construction) as the required remote peer; (MIRROR) EncodeWebRtcSignal encrypts MarshalVT(signal) to the destination key and DecodeWebRtcSignal unmarshals the decryption, under the same init-only context variable; the handler passes a decoded signal on only past decode ok and Validate ok; the dispatcher's type switch equals Validate's; (PANIC) signal.go codec functions have no undischarged panic site. Inherits C12 for the cipher. The public-key decryption chain is in this check's totality scope (PANIC); expected-peer forwarding shared with C03. (OWNERSHIP) decryption leaves the caller's payload bytes untouched (a payload decodes the same however often it was tried).",
		NotCov:      "confidentiality as such, pion's SDP/ICE parsers, and acceptance of the QUIC link (C03).",
		Assumptions: commonAssumptions})
}

// expectedPeerForwarding: the quic session helpers hand the caller's expected-peer argument, unchanged, down to
// p2ptls.Identity.ConfigForPeer — the only place where the remote identity is pinned (shared by C26 and C03).
func expectedPeerForwarding(c *an.Check) {
	p := c.P
	const q = "transport/common/quic"
	peerParam := func(f *ssa.Function) int {
		for i, prm := range f.Params {
			if isPeerIDValue(prm) {
				return i
			}
		}
		return -1
	}
	cfp := an.R("crypto/tls", "Identity", "ConfigForPeer")
	n, bad := 0, ""
	for _, name := range []string{"DialSession", "DialSessionViaTransport", "ListenSession", "BuildIncomingTlsConf", "Transport.HandleConn"} {
		var f *ssa.Function
		if recv, m, isM := strings.Cut(name, "."); isM {
			f = p.Func(q, recv, m)
		} else {
			f = p.Func(q, "", name)
		}
		if f == nil {
			bad = "unresolved anchor: " + name
			continue
		}
		pi := peerParam(f)
		if pi < 0 {
			bad = name + " has no expected-peer parameter"
			continue
		}
		found := false
		for _, g := range an.WithClosures(f) {
			for _, call := range an.Calls(g, cfp, an.R(q, "", "BuildIncomingTlsConf"), an.R(q, "", "DialSession"), an.R(q, "", "ListenSession"), an.R(q, "", "DialSessionViaTransport")) {
				found = true
				n++
				args := an.CallArgs(call.Common())
				arg := args[len(args)-1]
				okArg := an.IsParam(arg, pi) && arg.Parent() == f
				if !okArg {
					if fvv, isFV := arg.(*ssa.FreeVar); isFV {
						if b := p.Binding(fvv); b != nil && an.IsParam(b, pi) {
							okArg = true
						}
					}
					if u, isLoad := arg.(*ssa.UnOp); isLoad {
						if cell := p.CellOf(u.X); cell != nil {
							if sv := p.SingleStore(cell); sv != nil && an.IsParam(sv, pi) {
								okArg = true
							}
						}
					}
				}
				if !okArg {
					bad = fmt.Sprintf("%s does not pass its expected-peer parameter on to %s at %s: the remote identity is not pinned although the caller asked for a specific peer", name, an.FuncName(call.Call.StaticCallee()), p.Pos(call.Pos()))
				}
			}
		}
		if !found {
			// the TLS configuration may be built by a private helper that receives the expected peer as an argument
			if viaHelper(p, f, pi, cfp, 0) {
				found = true
				n++
			}
		}
		if !found {
			bad = name + " never builds a TLS configuration for the expected peer"
		}
	}
	c.Require(bad == "" && n >= 6, "CALLARG", "quic session helpers forward the expected remote peer to the TLS identity check", nil, "", n, "DialSession*/ListenSession/BuildIncomingTlsConf → ConfigForPeer(expected peer)", bad)
}

// viaHelper: f passes its parameter #pi to an unexported same-package helper that hands the corresponding parameter on to
// target as the last argument (directly or through one more such helper).
func viaHelper(p *an.Prog, f *ssa.Function, pi int, target an.Callee, depth int) bool {
	if depth > 2 {
		return false
	}
	for _, g := range an.WithClosures(f) {
		for _, b := range g.Blocks {
			for _, ins := range b.Instrs {
				call, ok := ins.(*ssa.Call)
				if !ok {
					continue
				}
				h := call.Call.StaticCallee()
				if h == nil || h.Pkg == nil || h.Pkg != f.Pkg || len(h.Blocks) == 0 || h.Parent() != nil {
					continue
				}
				if n := h.Name(); n == "" || !(n[0] >= 'a' && n[0] <= 'z') {
					continue
				}
				for j, a := range call.Call.Args {
					if !(an.IsParam(a, pi) && a.Parent() == f) || j >= len(h.Params) {
						continue
					}
					for _, hc := range an.Calls(h, target) {
						args := an.CallArgs(hc.Common())
						if len(args) > 0 && args[len(args)-1] == ssa.Value(h.Params[j]) {
							return true
						}
					}
					if viaHelper(p, h, j, target, depth+1) {
						return true
					}
				}
			}
		}
	}
	return false
}
