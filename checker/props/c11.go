package props

import (
	"fmt"
	"go/ast"
	"go/constant"
	"sort"
	"strings"

	"bifrostverify/an"

	"golang.org/x/tools/go/ssa"
)

// mapLiteralKeys returns the constant integer keys of the package-level map literal named name.
func mapLiteralKeys(c *an.Check, pkgRel, name string) ([]int64, bool) {
	tp := c.P.TPkg(pkgRel)
	if tp == nil {
		return nil, false
	}
	var keys []int64
	found := false
	for _, f := range tp.Syntax {
		ast.Inspect(f, func(n ast.Node) bool {
			vs, ok := n.(*ast.ValueSpec)
			if !ok {
				return true
			}
			for i, nm := range vs.Names {
				if nm.Name != name || i >= len(vs.Values) {
					continue
				}
				cl, ok := vs.Values[i].(*ast.CompositeLit)
				if !ok {
					continue
				}
				found = true
				for _, e := range cl.Elts {
					if kv, ok := e.(*ast.KeyValueExpr); ok {
						if tv, ok := tp.TypesInfo.Types[kv.Key]; ok && tv.Value != nil {
							if v, ok := constant.Int64Val(tv.Value); ok {
								keys = append(keys, v)
							}
						}
					}
				}
			}
			return true
		})
	}
	sort.Slice(keys, func(i, j int) bool { return keys[i] < keys[j] })
	return keys, found
}

func c11(c *an.Check) {
	p := c.P
	// ---- SIBLING: key type registries and the generator switch agree
	pub, ok1 := mapLiteralKeys(c, "crypto", "PubKeyUnmarshallers")
	priv, ok2 := mapLiteralKeys(c, "crypto", "PrivKeyUnmarshallers")
	gen := p.Func("crypto", "", "GenerateKeyPairWithReader")
	enum := p.EnumConsts("crypto", "KeyType")
	var genSet []int64
	if gen != nil {
		var vals []int64
		for v := range enum {
			vals = append(vals, v)
		}
		vals = append(vals, 99)
		sort.Slice(vals, func(i, j int) bool { return vals[i] < vals[j] })
		for _, v := range vals {
			okv, n := 0, 0
			c.ReturnsWith(gen, map[int]int64{0: v}, func(s *an.State, ret *ssa.Return) {
				n++
				if !s.KnownNonNilErr(s.RetVal(ret, -1)) {
					okv++
				}
			})
			if n > 0 && okv == n {
				genSet = append(genSet, v)
			}
		}
	}
	same := ok1 && ok2 && gen != nil && fmt.Sprint(pub) == fmt.Sprint(priv) && fmt.Sprint(pub) == fmt.Sprint(genSet) && len(pub) >= 1
	c.Require(same, "SIBLING", "crypto key-type registries and the key generator support the same key types", gen, "", len(pub)+len(priv)+len(genSet),
		fmt.Sprintf("PubKeyUnmarshallers = PrivKeyUnmarshallers = generator = %v", pub), fmt.Sprintf("PubKeyUnmarshallers=%v PrivKeyUnmarshallers=%v generator accepts %v", pub, priv, genSet))
	// the registered unmarshallers are the Ed25519 ones of matching kind (a swapped entry would still compile only by type, so this is structural sanity)
	// ---- protobuf wrappers
	keyUnmarshalDispatchGates(c)
	// marshal side mirrors: message{KeyType: k.Type(), Data: k.Raw()}
	for _, w := range []struct{ fn, msg string }{{"PublicKeyToProto", "PublicKey"}, {"MarshalPrivateKey", "PrivateKey"}} {
		f := p.Func("crypto", "", w.fn)
		okm := false
		if f != nil {
			kt, dt := false, false
			for _, b := range an.ScanBlocks(f) {
				for _, ins := range b.Instrs {
					st, ok := ins.(*ssa.Store)
					if !ok {
						continue
					}
					fld := an.FieldOfAddr(st.Addr)
					if fld == nil {
						continue
					}
					if call, isCall := st.Val.(*ssa.Call); isCall && call.Call.IsInvoke() && an.IsParam(call.Call.Value, 0) {
						if fld.Name() == "KeyType" && call.Call.Method.Name() == "Type" {
							kt = true
						}
					}
					if fld.Name() == "Data" {
						if e, isE := st.Val.(*ssa.Extract); isE && e.Index == 0 {
							if call, isCall := e.Tuple.(*ssa.Call); isCall && call.Call.IsInvoke() && call.Call.Method.Name() == "Raw" && an.IsParam(call.Call.Value, 0) {
								dt = true
							}
						}
					}
				}
			}
			okm = kt && dt
		}
		c.Require(okm, "MIRROR", "crypto."+w.fn+" encodes {KeyType: k.Type(), Data: k.Raw()}", f, "", 2, "fields mirror what the unmarshal side reads", "the encoded message does not carry the key's own type and raw bytes")
	}
	// ---- Ed25519 decoders
	upk := p.Func("crypto", "", "UnmarshalEd25519PublicKey")
	c.Gate(an.GateSpec{Construct: "crypto.UnmarshalEd25519PublicKey success-return", Fn: upk, Sink: successReturn, Reqs: []an.Req{
		an.FactReq("len(data)==32", func(s *an.State, x, y ssa.Value, r an.Rel) bool {
			return r == an.EQ && an.IsIntConst(y, 32) && an.LenOf(s, x, func(a ssa.Value) bool { return an.IsParam(a, 0) })
		})}})
	usk := ed25519PrivateKeyDecodeGates(c)
	// and the redundancy check compares data[32:64] with data[64:]
	okCmp := false
	if usk != nil {
		for _, call := range an.Calls(usk, an.X("crypto/subtle", "", "ConstantTimeCompare")) {
			a, oka := call.Call.Args[0].(*ssa.Slice)
			b, okb := call.Call.Args[1].(*ssa.Slice)
			if oka && okb && an.IsParam(a.X, 0) && an.IsParam(b.X, 0) {
				lo := func(sl *ssa.Slice) int64 {
					if sl.Low == nil {
						return 0
					}
					if k, ok := sl.Low.(*ssa.Const); ok {
						return k.Int64()
					}
					return -1
				}
				l1, l2 := lo(a), lo(b)
				okCmp = (l1 == 32 && l2 == 64) || (l1 == 64 && l2 == 32)
			}
		}
	}
	c.Require(okCmp, "PROVENANCE", "crypto.UnmarshalEd25519PrivateKey compares the embedded public key with the redundant copy", usk, "", 1, "ConstantTimeCompare(data[32:64], data[64:])", "the redundancy check does not compare data[32:64] with data[64:]")
	// WHO: the private key's byte slice is only ever set by constructors that guarantee 64 bytes
	kf := p.FieldVar(an.FieldRef{Pkg: "crypto", Type: "Ed25519PrivateKey", Field: "k"})
	c.Who(an.WhoSpec{Construct: "crypto.Ed25519PrivateKey.k is set only by the three length-safe constructors", Field: kf, Kinds: []an.AccessKind{an.Write},
		Allowed: an.InFuncs(p.Func("crypto", "", "GenerateEd25519Key"), usk, p.Func("crypto", "", "KeyPairFromStdKey")), Min: 3})
	// ---- PEM: marshal and parse use the same block types
	loadConst(c, "keypem", "PrivPemType")
	loadConst(c, "keypem", "PubPemType")
	pemStoreType := func(fn *ssa.Function) string {
		if fn == nil {
			return ""
		}
		for _, b := range an.ScanBlocks(fn) {
			for _, ins := range b.Instrs {
				if st, ok := ins.(*ssa.Store); ok {
					if f := an.FieldOfAddr(st.Addr); f != nil && f.Name() == "Type" {
						if v, ok := an.StrConstOf(st.Val); ok {
							return v
						}
					}
				}
			}
		}
		return ""
	}
	comparedTypes := func(fn *ssa.Function) map[string]bool {
		out := map[string]bool{}
		if fn == nil {
			return out
		}
		for _, b := range an.ScanBlocks(fn) {
			for _, ins := range b.Instrs {
				if bo, ok := ins.(*ssa.BinOp); ok {
					for _, o := range []ssa.Value{bo.X, bo.Y} {
						if v, ok := an.StrConstOf(o); ok && strings.Contains(v, "KEY") {
							out[v] = true
						}
					}
				}
			}
		}
		return out
	}
	mpriv, mpub := pemStoreType(p.Func("keypem", "", "MarshalPrivKeyPem")), pemStoreType(p.Func("keypem", "", "MarshalPubKeyPem"))
	ppk := comparedTypes(p.Func("keypem", "", "ParsePrivKeyPem"))
	pk := comparedTypes(p.Func("keypem", "", "ParseKeyPem"))
	okPem := mpriv != "" && mpub != "" && mpriv != mpub && ppk[mpriv] && !ppk[mpub] && pk[mpriv] && pk[mpub]
	c.Require(okPem, "MIRROR", "keypem marshal and parse agree on the PEM block types", p.Func("keypem", "", "ParseKeyPem"), "", 4,
		fmt.Sprintf("private=%q public=%q on both sides", mpriv, mpub), fmt.Sprintf("marshal writes private=%q public=%q; ParsePrivKeyPem accepts %v; ParseKeyPem accepts %v", mpriv, mpub, ppk, pk))
	// PEM payloads are the protobuf encodings
	for _, w := range []struct{ m, enc string }{{"MarshalPrivKeyPem", "MarshalPrivateKey"}, {"MarshalPubKeyPem", "MarshalPublicKey"}} {
		f := p.Func("keypem", "", w.m)
		ok := f != nil && len(an.Calls(f, an.R("crypto", "", w.enc))) == 1
		c.Require(ok, "MIRROR", "keypem."+w.m+" wraps crypto."+w.enc, f, "", 1, "PEM body = protobuf key encoding", "PEM body is not the protobuf key encoding")
	}
	ppf := p.Func("keypem", "", "ParsePrivKeyPem")
	c.Gate(an.GateSpec{Construct: "keypem.ParsePrivKeyPem key return", Fn: ppf,
		Sink: func(s *an.State, ins ssa.Instruction) bool {
			ret, ok := ins.(*ssa.Return)
			return ok && !s.IsNil(s.RetVal(ret, 0))
		},
		Reqs: []an.Req{{Name: "block type is the private-key type and the body is decoded by UnmarshalPrivateKey", Holds: func(s *an.State, at ssa.Instruction) bool {
			typeOK := s.AnyFact(func(s *an.State, x, y ssa.Value, r an.Rel) bool {
				v, isC := an.StrConstOf(y)
				return r == an.EQ && isC && v == mpriv
			})
			return typeOK && an.ResultCallTo(s.RetVal(at.(*ssa.Return), 0), an.R("crypto", "", "UnmarshalPrivateKey")) != nil
		}}}})
	// ---- the generated codec of package crypto (the protobuf wrappers decode through it)
	pbCodecSanity(c, func(rel string) bool { return rel == "crypto" })
	privateKeyRawIsCopy(c)
	// ---- textual forms (base58 / PEM strings): a key or an error, never neither for non-empty input
	confparseKeyGates(c)
	// ---- PANIC
	if bce := peerBCE(c, "./crypto", "./keypem", "./peer"); bce != nil {
		var fns []*ssa.Function
		// the peer-id string form embeds the public key: its decode chain belongs to "decoding arbitrary text as a key"
		if dec := one(pkgFuncsWhere(p, "peer", func(f *ssa.Function) bool { return callsAny(f, cUvarint) })); dec != nil {
			fns = append(fns, dec, p.Func("peer", "", "IDB58Decode"), p.Func("peer", "", "IDFromBytes"), p.Func("peer", "ID", "ExtractPublicKey"))
		}
		for _, f := range append(p.PkgFuncs("crypto"), p.PkgFuncs("keypem")...) {
			if f.Parent() == nil && !p.IsGenerated(f.Pos()) {
				fns = append(fns, f)
			}
		}
		an.NilProducer = nilProducers
		nND := c.NilDerefGuard("NILDEREF", "key codec: (value, error) results and pem.Decode's block dereferenced only when known present", fns, nilSafeRecv(p))
		an.NilProducer = nil
		c.Note("NILDEREF examined %d (value, error) call sites in %d key codec functions", nND, len(fns))
		c.Totality(an.PanicSpec{Construct: "key codec totality", Funcs: fns, BCE: bce, Min: 25, Reviewed: map[string]string{
			"(*crypto.Ed25519PrivateKey).GetPublic: bounds k.k[ed25519.PrivateKeySize - ed25519.PublicKeySize:]": "k.k always holds 64 bytes: the WHO obligation above restricts writers of k to GenerateEd25519Key (std keygen), UnmarshalEd25519PrivateKey (length-switched, decided above) and KeyPairFromStdKey (typed std keys)",
		}})
	}
	thoroughCallers(c, "key decoding", 0, []string{"crypto", "keypem", "util/confparse", "peer"}, an.R("crypto", "", "UnmarshalPublicKey"), an.R("crypto", "", "UnmarshalPrivateKey"), an.R("keypem", "", "ParsePubKeyPem"))
	c.Trust("crypto/ed25519 key generation returns 64-byte private keys", "encoding/pem, base58 and protobuf-go-lite decoders never panic", "typed ed25519.PrivateKey values handed to KeyPairFromStdKey have 64 bytes (caller contract of crypto/ed25519)")
}

func init() {
	register(&Def{ID: "C11", Run: c11,
		Explain:     "Decides: (SIBLING) the two key-type registries (constant keys of the map literals) and the per-value abstract evaluation of GenerateKeyPairWithReader support the same key types; (R1) UnmarshalPublicKey/PrivateKey succeed only past protobuf decode and a successful registry lookup for the message's own key type, calling the registered unmarshaller on the message's own data; (MIRROR) the marshal side encodes {KeyType: k.Type(), Data: k.Raw()}; UnmarshalEd25519PublicKey succeeds only for 32 bytes; UnmarshalEd25519PrivateKey only for 64 bytes or 96 bytes whose redundant public key compares equal, storing exactly 64 key bytes; (WHO) Ed25519PrivateKey.k is written only by the three length-safe constructors; PEM marshal/parse agree on the two block types and wrap the protobuf encodings; (PANIC) every top-level function of crypto and keypem has no undischarged panic site. (GATE) the textual parsers (confparse) return a key only from the PEM wrapper or base58+protobuf decoding and (nil,nil) only for empty input; (NILDEREF) over all key codec functions. Generated codec sanity for package crypto; key-type dispatch and Ed25519 private-key decode gates shared with C39/C12–C14; (OWNERSHIP) Ed25519PrivateKey.Raw returns a copy; the peer-id decode chain is in the totality scope; pem.Decode's block is dereferenced only when non-nil. (OWNERSHIP) the key decoders unmarshal into a zero message (no preset field survives an encoding that omits it).",
		NotCov:      "round-trip equality as a value statement (follows from the mirrors under trusted codecs); confparse wrappers are decided under C38.",
		Assumptions: commonAssumptions})
}

// ed25519PrivateKeyDecodeGates: the Ed25519 private-key decoder accepts only the 64-byte form or the legacy 96-byte form
// with a matching redundant public key, and keeps exactly seed‖public key (shared by C11 and by the properties whose
// secret-key operations run on decoded keys: C12, C13, C14).
func ed25519PrivateKeyDecodeGates(c *an.Check) *ssa.Function {
	p := c.P
	usk := p.Func("crypto", "", "UnmarshalEd25519PrivateKey")
	c.Gate(an.GateSpec{Construct: "crypto.UnmarshalEd25519PrivateKey success-return", Fn: usk, Sink: successReturn, Reqs: []an.Req{
		an.AnyOf("64 bytes, or 96 bytes with a matching redundant public key",
			an.FactReq("len(data)==64", func(s *an.State, x, y ssa.Value, r an.Rel) bool {
				return r == an.EQ && an.IsIntConst(y, 64) && an.LenOf(s, x, func(a ssa.Value) bool { return an.IsParam(a, 0) })
			}),
			an.Req{Name: "len(data)==96 and ConstantTimeCompare(pk, redundant) != 0", Holds: func(s *an.State, at ssa.Instruction) bool {
				l96 := s.AnyFact(func(s *an.State, x, y ssa.Value, r an.Rel) bool {
					return r == an.EQ && an.IsIntConst(y, 96) && an.LenOf(s, x, func(a ssa.Value) bool { return an.IsParam(a, 0) })
				})
				cmp := s.AnyFact(func(s *an.State, x, y ssa.Value, r an.Rel) bool {
					return r&an.EQ == 0 && an.IsIntConst(y, 0) && an.ResultCallTo(x, an.X("crypto/subtle", "", "ConstantTimeCompare")) != nil
				})
				return l96 && cmp
			}}),
		{Name: "the key holds exactly 64 bytes", Holds: func(s *an.State, at ssa.Instruction) bool {
			// stored key bytes: the parameter itself (len==64 path) or a fresh 64-byte copy
			for _, b := range an.ScanBlocks(usk) {
				for _, ins := range b.Instrs {
					if st, ok := ins.(*ssa.Store); ok {
						if f := an.FieldOfAddr(st.Addr); f != nil && f.Name() == "k" {
							v := s.Canon(an.ConvOf(st.Val))
							if n, ok := s.FixedLen(v); ok && n == 64 {
								return true
							}
							if an.IsParam(v, 0) {
								return s.AnyFact(func(s *an.State, x, y ssa.Value, r an.Rel) bool {
									return r == an.EQ && an.IsIntConst(y, 64) && an.LenOf(s, x, func(a ssa.Value) bool { return an.IsParam(a, 0) })
								})
							}
						}
					}
				}
			}
			return false
		}},
	}})
	// the 96-byte form keeps the first 64 bytes (seed‖public key), not some other window
	okCopy, nCopy := false, 0
	if usk != nil {
		for _, b := range an.ScanBlocks(usk) {
			for _, ins := range b.Instrs {
				if cc, ok := ins.(*ssa.Call); ok && an.BuiltinName(cc) == "copy" {
					nCopy++
					if src, ok := cc.Call.Args[1].(*ssa.Slice); ok && an.IsParam(src.X, 0) && (src.Low == nil || an.IsIntConst(src.Low, 0)) && an.IsIntConst(src.High, 64) {
						okCopy = true
					}
				}
			}
		}
	}
	c.Require(okCopy && nCopy == 1, "PROVENANCE", "crypto.UnmarshalEd25519PrivateKey keeps data[:64] of the 96-byte form", usk, "", nCopy, "copy(newKey, data[:PrivateKeySize])", "the 64 key bytes kept from the 96-byte form are not the first 64 bytes (seed‖public key)")
	return usk
}

// privateKeyRawIsCopy: exporting a private key hands out a copy — callers wipe exported secrets (scrub.Scrub), which must
// not reach into the live key.
func privateKeyRawIsCopy(c *an.Check) {
	p := c.P
	raw := p.Func("crypto", "Ed25519PrivateKey", "Raw")
	kF := fv(c, "crypto", "Ed25519PrivateKey", "k")
	ok, why := raw != nil && kF != nil, "unresolved anchor"
	if ok {
		for _, b := range an.ScanBlocks(raw) {
			if ret, isRet := b.Instrs[len(b.Instrs)-1].(*ssa.Return); isRet {
				for r := range an.AliasRoots(ret.Results[0]) {
					if an.IsFieldLoad(r, kF) {
						ok, why = false, "Raw() returns the key's own storage: wiping the exported bytes zeroes the live private key"
					}
				}
			}
		}
	}
	c.Require(ok, "OWNERSHIP", "crypto.Ed25519PrivateKey.Raw returns a copy of the key bytes", raw, "", 1, "returned slice does not alias the key field", why)
}

// keyUnmarshalDispatchGates: the protobuf key wrappers succeed only past the protobuf decode and call a key-type specific
// unmarshaller only after a successful registry lookup for the message's own key type, on the message's own data (a
// known-but-unregistered type must be an error, not a call through a nil function). Shared by C11 and C39.
func keyUnmarshalDispatchGates(c *an.Check) {
	p := c.P
	decodeIntoZeroMessage(c, "crypto key decoders decode into a zero message", []*ssa.Function{p.Func("crypto", "", "UnmarshalPublicKey"), p.Func("crypto", "", "UnmarshalPrivateKey")})
	for _, w := range []struct{ un, msg, reg string }{{"UnmarshalPublicKey", "PublicKey", "PubKeyUnmarshallers"}, {"UnmarshalPrivateKey", "PrivateKey", "PrivKeyUnmarshallers"}} {
		f := p.Func("crypto", "", w.un)
		target := f
		if w.un == "UnmarshalPublicKey" {
			// delegates to PublicKeyFromProto
			c.Gate(an.GateSpec{Construct: "crypto.UnmarshalPublicKey success-return", Fn: f, Sink: successReturn, Reqs: []an.Req{
				an.CallOK("protobuf decodes", an.R("crypto", w.msg, "UnmarshalVT")), an.CallOK("PublicKeyFromProto ok", an.R("crypto", "", "PublicKeyFromProto"))}})
			target = p.Func("crypto", "", "PublicKeyFromProto")
		} else {
			c.Gate(an.GateSpec{Construct: "crypto.UnmarshalPrivateKey success-return", Fn: f, Sink: successReturn, Reqs: []an.Req{
				an.CallOK("protobuf decodes", an.R("crypto", w.msg, "UnmarshalVT"))}})
		}
		// the registry lookup must succeed before the unmarshaller (a func value) is called, with the message's own data
		if target == nil {
			c.Undecided("GATE", "crypto "+w.un+" registry dispatch", nil, "unresolved anchor")
			continue
		}
		c.Gate(an.GateSpec{Construct: "crypto " + w.un + " dispatches to a registered unmarshaller", Fn: target,
			Sink: func(s *an.State, ins ssa.Instruction) bool {
				call, ok := ins.(*ssa.Call)
				if !ok || call.Call.IsInvoke() {
					return false
				}
				_, isExtract := call.Call.Value.(*ssa.Extract)
				return isExtract
			},
			Reqs: []an.Req{{Name: "key type found in the registry; data is the message's own", Holds: func(s *an.State, at ssa.Instruction) bool {
				call := at.(*ssa.Call)
				e := call.Call.Value.(*ssa.Extract)
				lk, ok := e.Tuple.(*ssa.Lookup)
				if !ok || !lk.CommaOk {
					return false
				}
				g := globalLoad(lk.X)
				if g == nil || g.Name() != w.reg {
					return false
				}
				found := false
				for _, r := range *lk.Referrers() {
					if ex, ok := r.(*ssa.Extract); ok && ex.Index == 1 && s.IsTrue(ex) {
						found = true
					}
				}
				gk := an.ResultCallTo(s.Canon(lk.Index), an.R("crypto", w.msg, "GetKeyType"))
				gd := an.ResultCallTo(s.Canon(call.Call.Args[0]), an.R("crypto", w.msg, "GetData"))
				return found && gk != nil && gd != nil && s.Key(gk.Call.Args[0]) == s.Key(gd.Call.Args[0])
			}}}})
	}
}

// decodeIntoZeroMessage: a decoder that unmarshals into a message it allocates itself starts from the zero message —
// no field of it is assigned before UnmarshalVT. proto3 omits zero-valued scalars on the wire, so a pre-set field
// survives decoding of any encoding that leaves it out (a key of another type is dispatched as the preset type).
func decodeIntoZeroMessage(c *an.Check, construct string, fns []*ssa.Function) int {
	p := c.P
	n, bad := 0, ""
	for _, fn := range fns {
		if fn == nil {
			continue
		}
		for _, b := range an.ScanBlocks(fn) {
			for _, ins := range b.Instrs {
				call, ok := ins.(*ssa.Call)
				if !ok || call.Call.IsInvoke() {
					continue
				}
				fo := an.CallObj(call.Common())
				if fo == nil || fo.Name() != "UnmarshalVT" || len(call.Call.Args) == 0 {
					continue
				}
				al, isAlloc := call.Call.Args[0].(*ssa.Alloc)
				if !isAlloc {
					continue
				}
				n++
				for _, ob := range an.ScanBlocks(fn) {
					for _, oi := range ob.Instrs {
						st, isSt := oi.(*ssa.Store)
						if !isSt {
							continue
						}
						base := st.Addr
						for {
							if fa, ok := base.(*ssa.FieldAddr); ok {
								base = fa.X
								continue
							}
							if ia, ok := base.(*ssa.IndexAddr); ok {
								base = ia.X
								continue
							}
							break
						}
						if base != ssa.Value(al) || st.Addr == ssa.Value(al) {
							continue
						}
						if an.InstrDominates(call, st) {
							continue // assigned after decoding
						}
						bad = fmt.Sprintf("%s presets a field of the message at %s before decoding into it at %s: an encoding that omits the field (proto3 zero value) keeps the preset", an.FuncName(fn), p.Pos(st.Pos()), p.Pos(call.Pos()))
					}
				}
			}
		}
	}
	c.Sites(n)
	c.Require(bad == "" && n >= 1, "OWNERSHIP", construct, fns[0], "", n, "every locally allocated message is untouched before UnmarshalVT", func() string {
		if bad != "" {
			return bad
		}
		return "no UnmarshalVT into a local message found (anchor drift)"
	}())
	return n
}
