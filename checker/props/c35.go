package props

import (
	"fmt"
	"go/types"
	"strings"

	"bifrostverify/an"

	"golang.org/x/tools/go/ssa"
)

// nonNilResolverReturn selects returns whose first result (resolver list) is not known nil.
func nonNilResolverReturn(s *an.State, ins ssa.Instruction) bool {
	ret, ok := ins.(*ssa.Return)
	return ok && len(ret.Results) == 2 && !s.IsNil(s.RetVal(ret, 0))
}

// filterReq: the requested value (obtained through getter on the directive) satisfies one of the configured filters
// named by struct fields of the controller, or all of them are unset.
type filterCfg struct {
	prefixes, re, list string // field names ("" if absent)
}

// nilResolverReturn selects returns that offer no resolver and no error (the controller declines the lookup).
func nilResolverReturn(s *an.State, ins ssa.Instruction) bool {
	ret, ok := ins.(*ssa.Return)
	return ok && len(ret.Results) == 2 && s.IsNil(s.RetVal(ret, 0)) && !s.KnownNonNilErr(s.RetVal(ret, 1))
}

// declineGate: "exactly when" — the converse of the offer gate. A decline is a violation when, on that path, every
// positive requirement of the offer gate is known to hold and no rejecting condition is known.
func declineGate(c *an.Check, construct string, fn *ssa.Function, mark func(*an.State, ssa.Value, bool), pass []an.Req, rejects func(*an.State) bool) {
	c.Gate(an.GateSpec{Construct: construct, Fn: fn, Mark: mark, Sink: nilResolverReturn, Reqs: []an.Req{{
		Name: "some configured filter rejected the request (the lookup is not one this registration must answer)",
		Holds: func(s *an.State, at ssa.Instruction) bool {
			for _, r := range pass {
				if !r.Holds(s, at) {
					return true
				}
			}
			return rejects != nil && rejects(s)
		}}}})
}

func c35(c *an.Check) {
	// the bus merges equivalent lookups: LookupRpcService directives differing in service or server id stay apart, so the
	// filters below are evaluated for every distinct request
	equivCheck(c, func(f *ssa.Function) bool { return strings.Contains(an.FuncName(f), "rpc.lookupRpcService") })
	accessClientFilter(c)
	p := c.P
	// ---- RpcServiceController
	rs := p.Func("rpc", "RpcServiceController", "HandleDirective")
	if rs == nil {
		c.Undecided("GATE", "rpc.RpcServiceController.HandleDirective", nil, "unresolved anchor")
	} else {
		T := "RpcServiceController"
		preF, reF, listF, srvReF := fv(c, "rpc", T, "serviceIdPrefixes"), fv(c, "rpc", T, "serviceIdRe"), fv(c, "rpc", T, "serviceIdList"), fv(c, "rpc", T, "serverIdRe")
		isReq := func(s *an.State, v ssa.Value, getter string) bool {
			call, ok := s.Canon(v).(*ssa.Call)
			return ok && call.Call.IsInvoke() && call.Call.Method.Name() == getter
		}
		mark := func(s *an.State, cond ssa.Value, want bool) {
			if !want {
				return
			}
			if call := an.ResultCallTo(s.Canon(cond), an.X("strings", "", "HasPrefix")); call != nil && isReq(s, call.Call.Args[0], "LookupRpcServiceID") {
				// the prefix must be an element of the configured list
				if p.DependsOn(call.Call.Args[1], func(x ssa.Value) bool { return an.IsFieldLoad(x, preF) }) {
					s.SetMark("svc-prefix", nil)
				}
			}
		}
		reMatch := func(s *an.State, reField interface{ Name() string }, fld any, getter string) bool { return false }
		_ = reMatch
		rpcReqs := []an.Req{
			an.AnyOf("requested service id passes a configured filter (or no filter is configured)",
				an.Req{Name: "prefix", Holds: func(s *an.State, at ssa.Instruction) bool { return s.HasMark("svc-prefix") }},
				an.Req{Name: "regexp", Holds: func(s *an.State, at ssa.Instruction) bool {
					for _, call := range an.Calls(rs, an.X("regexp", "Regexp", "MatchString")) {
						if s.IsTrue(call) && an.IsFieldLoad(s.Canon(call.Call.Args[0]), reF) && isReq(s, call.Call.Args[1], "LookupRpcServiceID") {
							return true
						}
					}
					return false
				}},
				an.Req{Name: "list", Holds: func(s *an.State, at ssa.Instruction) bool {
					for _, call := range an.Calls(rs, an.X("slices", "", "Contains")) {
						if s.IsTrue(call) && an.IsFieldLoad(s.Canon(call.Call.Args[0]), listF) && isReq(s, call.Call.Args[1], "LookupRpcServiceID") {
							return true
						}
					}
					return false
				}},
				an.Req{Name: "no filter configured", Holds: func(s *an.State, at ssa.Instruction) bool {
					a := s.AnyFact(func(s *an.State, x, y ssa.Value, r an.Rel) bool {
						return r == an.EQ && an.IsIntConst(y, 0) && an.LenOf(s, x, func(v ssa.Value) bool { return an.IsFieldLoad(v, preF) })
					})
					b := false
					for _, bl := range an.ScanBlocks(rs) {
						for _, ins := range bl.Instrs {
							if u, ok := ins.(*ssa.UnOp); ok && an.IsFieldLoad(u, reF) && s.IsNil(u) {
								b = true
							}
						}
					}
					cc := s.AnyFact(func(s *an.State, x, y ssa.Value, r an.Rel) bool {
						return r == an.EQ && an.IsIntConst(y, 0) && an.LenOf(s, x, func(v ssa.Value) bool { return an.IsFieldLoad(v, listF) })
					})
					return a && b && cc
				}}),
			an.AnyOf("requested server id passes the server filter (or none is configured)",
				an.Req{Name: "server regexp nil", Holds: func(s *an.State, at ssa.Instruction) bool {
					for _, bl := range an.ScanBlocks(rs) {
						for _, ins := range bl.Instrs {
							if u, ok := ins.(*ssa.UnOp); ok && an.IsFieldLoad(u, srvReF) && s.IsNil(u) {
								return true
							}
						}
					}
					return false
				}},
				an.Req{Name: "server regexp matches", Holds: func(s *an.State, at ssa.Instruction) bool {
					for _, call := range an.Calls(rs, an.X("regexp", "Regexp", "MatchString")) {
						if s.IsTrue(call) && an.IsFieldLoad(s.Canon(call.Call.Args[0]), srvReF) && isReq(s, call.Call.Args[1], "LookupRpcServerID") {
							return true
						}
					}
					return false
				}}),
		}
		c.Gate(an.GateSpec{Construct: "rpc.RpcServiceController offers a resolver", Fn: rs, Mark: mark, Sink: nonNilResolverReturn, Reqs: rpcReqs})
		// converse: a lookup whose service id passes and whose server id is not rejected is never declined
		declineGate(c, "rpc.RpcServiceController declines a lookup", rs, mark, rpcReqs[:1], func(s *an.State) bool {
			for _, call := range an.Calls(rs, an.X("regexp", "Regexp", "MatchString")) {
				if s.IsFalse(call) && an.IsFieldLoad(s.Canon(call.Call.Args[0]), srvReF) {
					return true
				}
			}
			return false
		})
		// strip: the prefix invoker gets the same configured prefix list the filter used
		okStrip := false
		for _, g := range an.WithClosures(rs) {
			for _, call := range an.Calls(g, an.X("github.com/aperturerobotics/starpc/srpc", "", "NewPrefixInvoker")) {
				okStrip = an.IsFieldLoad(p.NewState(g).Canon(call.Call.Args[1]), preF) || p.DependsOn(call.Call.Args[1], func(x ssa.Value) bool { return an.IsFieldLoad(x, preF) })
			}
		}
		c.Require(okStrip, "PROVENANCE", "rpc.RpcServiceController strips with the configured prefix list it filtered by", rs, "", 1, "NewPrefixInvoker(invoker, c.serviceIdPrefixes)", "the stripping invoker is not given the configured service prefixes")
	}
	// ---- InvokerController
	ic := p.Func("rpc", "InvokerController", "HandleDirective")
	if ic == nil {
		c.Undecided("GATE", "rpc.InvokerController.HandleDirective", nil, "unresolved anchor")
	} else {
		mpF := fv(c, "rpc", "InvokerController", "matchServicePrefixes")
		cCheck := an.X("github.com/aperturerobotics/starpc/srpc", "", "CheckStripPrefix")
		icReqs := []an.Req{
			an.AnyOf("no prefixes configured, or the requested id has one of them",
				an.FactReq("len(prefixes)==0", func(s *an.State, x, y ssa.Value, r an.Rel) bool {
					return r == an.EQ && an.IsIntConst(y, 0) && an.LenOf(s, x, func(v ssa.Value) bool { return an.IsFieldLoad(v, mpF) })
				}),
				an.FactReq("CheckStripPrefix(requested id, prefixes) matched", func(s *an.State, x, y ssa.Value, r an.Rel) bool {
					if !(r&an.EQ == 0 && an.IsIntConst(y, 0)) {
						return false
					}
					return an.LenOf(s, x, func(v ssa.Value) bool {
						call := an.ResultCallTo(v, cCheck)
						if call == nil {
							return false
						}
						rq, ok := s.Canon(call.Call.Args[0]).(*ssa.Call)
						return ok && rq.Call.IsInvoke() && rq.Call.Method.Name() == "LookupRpcServiceID" && an.IsFieldLoad(s.Canon(call.Call.Args[1]), mpF)
					})
				})),
		}
		c.Gate(an.GateSpec{Construct: "rpc.InvokerController offers a resolver", Fn: ic, Sink: nonNilResolverReturn, Reqs: icReqs})
		declineGate(c, "rpc.InvokerController declines a lookup", ic, nil, icReqs, nil)
	}
	// ---- HTTPHandlerController
	hh := p.Func("http", "HTTPHandlerController", "HandleDirective")
	if hh == nil {
		c.Undecided("GATE", "http.HTTPHandlerController.HandleDirective", nil, "unresolved anchor")
		return
	}
	T := "HTTPHandlerController"
	ppF, preF := fv(c, "http", T, "pathPrefixes"), fv(c, "http", T, "pathRe")
	isPath := func(s *an.State, v ssa.Value) bool {
		// d.LookupHTTPHandlerURL().Path
		u, ok := s.Canon(v).(*ssa.UnOp)
		if !ok {
			return false
		}
		f := an.FieldOfAddr(u.X)
		if f == nil || f.Name() != "Path" {
			return false
		}
		fa := u.X.(*ssa.FieldAddr)
		call, ok := s.Canon(fa.X).(*ssa.Call)
		return ok && call.Call.IsInvoke() && call.Call.Method.Name() == "LookupHTTPHandlerURL"
	}
	markH := func(s *an.State, cond ssa.Value, want bool) {
		if !want {
			return
		}
		if call := an.ResultCallTo(s.Canon(cond), an.X("strings", "", "HasPrefix")); call != nil && isPath(s, call.Call.Args[0]) &&
			p.DependsOn(call.Call.Args[1], func(x ssa.Value) bool { return an.IsFieldLoad(x, ppF) }) {
			s.SetMark("path-prefix", nil)
		}
	}
	httpReqs := []an.Req{
		an.AnyOf("requested path passes a configured filter (or none is configured)",
			an.Req{Name: "prefix", Holds: func(s *an.State, at ssa.Instruction) bool { return s.HasMark("path-prefix") }},
			an.Req{Name: "regexp", Holds: func(s *an.State, at ssa.Instruction) bool {
				for _, call := range an.Calls(hh, an.X("regexp", "Regexp", "MatchString")) {
					if s.IsTrue(call) && an.IsFieldLoad(s.Canon(call.Call.Args[0]), preF) && isPath(s, call.Call.Args[1]) {
						return true
					}
				}
				return false
			}},
			an.Req{Name: "no filter configured", Holds: func(s *an.State, at ssa.Instruction) bool {
				a := s.AnyFact(func(s *an.State, x, y ssa.Value, r an.Rel) bool {
					return r == an.EQ && an.IsIntConst(y, 0) && an.LenOf(s, x, func(v ssa.Value) bool { return an.IsFieldLoad(v, ppF) })
				})
				b := false
				for _, bl := range an.ScanBlocks(hh) {
					for _, ins := range bl.Instrs {
						if u, ok := ins.(*ssa.UnOp); ok && an.IsFieldLoad(u, preF) && s.IsNil(u) {
							b = true
						}
					}
				}
				return a && b
			}}),
	}
	c.Gate(an.GateSpec{Construct: "http.HTTPHandlerController offers a resolver", Fn: hh, Mark: markH, Sink: nonNilResolverReturn, Reqs: httpReqs})
	declineGate(c, "http.HTTPHandlerController declines a lookup", hh, markH, httpReqs, nil)
	// the prefix stripped is the one whose HasPrefix test succeeded
	okStrip, why := false, "http.StripPrefix call not found"
	for _, g := range an.WithClosures(hh) {
		for _, call := range an.Calls(g, an.X("net/http", "", "StripPrefix")) {
			okStrip, why = true, ""
			// arg0: load of a captured variable; every non-empty store to it must be dominated by HasPrefix(path, thatValue)==true
			u, isLoad := call.Call.Args[0].(*ssa.UnOp)
			var cell *ssa.Alloc
			if isLoad {
				if fvv, ok := u.X.(*ssa.FreeVar); ok {
					cell, _ = p.Binding(fvv).(*ssa.Alloc)
				}
			}
			if cell == nil {
				okStrip, why = false, "the stripped prefix is not the handler's per-request matched-prefix variable"
				continue
			}
			st := p.NewState(hh)
			nStores := 0
			for _, sto := range p.Stores(cell) {
				if v, ok := an.StrConstOf(sto.Val); ok && v == "" {
					continue
				}
				nStores++
				guarded := false
				for _, dc := range an.DominatingConds(sto) {
					if !dc.Want {
						continue
					}
					hp := an.ResultCallTo(st.Canon(dc.Cond), an.X("strings", "", "HasPrefix"))
					if hp != nil && isPath(st, hp.Call.Args[0]) && st.Key(hp.Call.Args[1]) == st.Key(sto.Val) {
						guarded = true
					}
				}
				if !guarded {
					okStrip, why = false, fmt.Sprintf("the prefix stored for stripping at %s is not the one whose HasPrefix(path, prefix) test succeeded", p.Pos(sto.Pos()))
				}
				// first match wins (configured order): once recorded inside the scan loop, the scan is left — a later
				// matching prefix must not overwrite it
				if loop := an.InnermostLoop(hh, sto.Block()); loop != nil && okStrip {
					var head *ssa.BasicBlock
					for b := range loop {
						all := true
						for o := range loop {
							if !b.Dominates(o) {
								all = false
							}
						}
						if all {
							head = b
						}
					}
					seen := map[*ssa.BasicBlock]bool{}
					var reach func(b *ssa.BasicBlock) bool
					reach = func(b *ssa.BasicBlock) bool {
						if b == head {
							return true
						}
						if seen[b] || !loop[b] {
							return false
						}
						seen[b] = true
						for _, n := range b.Succs {
							if reach(n) {
								return true
							}
						}
						return false
					}
					again := false
					for _, n := range sto.Block().Succs {
						if reach(n) {
							again = true
						}
					}
					if again {
						okStrip, why = false, fmt.Sprintf("after recording the matched prefix at %s the scan over the configured prefixes continues: a later matching prefix overwrites it (the last match is stripped, not the first)", p.Pos(sto.Pos()))
					}
				}
			}
			if nStores == 0 {
				okStrip, why = false, "the matched prefix is never recorded"
			}
		}
	}
	c.Require(okStrip, "PROVENANCE", "http.HTTPHandlerController strips exactly the matched prefix", hh, "", 1, "StripPrefix(prefix whose HasPrefix(path, prefix) succeeded)", why)
	// default method for mux pattern matching
	mm := p.Func("http", "", "MatchServeMuxPattern")
	okM := false
	if mm != nil {
		for _, b := range an.ScanBlocks(mm) {
			for _, ins := range b.Instrs {
				if ph, ok := ins.(*ssa.Phi); ok {
					hasDefault, hasReq := false, false
					for _, e := range ph.Edges {
						if v, ok := an.StrConstOf(e); ok && strings.ToUpper(v) == v && v != "" {
							hasDefault = true
						}
						if call, ok := e.(*ssa.Call); ok && call.Call.IsInvoke() && call.Call.Method.Name() == "LookupHTTPHandlerMethod" {
							hasReq = true
						}
					}
					okM = okM || (hasDefault && hasReq)
				}
			}
		}
	}
	c.Require(okM, "PROVENANCE", "http.MatchServeMuxPattern uses the requested method, or a fixed default when empty", mm, "", 1, "method = requested or constant default", "the mux lookup does not use the requested method with a constant fallback")
	c.Note("not decided: the truth table of the filter combination as a value statement, regexp semantics, starpc's NewPrefixInvoker/CheckStripPrefix internals")
}

func init() {
	register(&Def{ID: "C35", Run: c35,
		Explain:     "Decides on SSA with sticky marks (flag/loop idioms are followed, not pattern-matched): RpcServiceController returns a resolver only on paths where the requested service id passed HasPrefix with a configured prefix, or serviceIdRe.MatchString, or slices.Contains on the configured list — or all three filters are unset — AND the server filter is unset or serverIdRe.MatchString(requested server id) was true; InvokerController only when no prefixes are configured or CheckStripPrefix(requested id, configured prefixes) matched; HTTPHandlerController only when the requested path passed a configured prefix / regexp or none is configured, and the prefix handed to http.StripPrefix is stored only under the HasPrefix(path, thatPrefix) success edge; MatchServeMuxPattern uses the requested method with a constant default. Converse (\"exactly when\"): a lookup is declined only on paths where some positive requirement is not known to hold or a rejecting filter result is known; (PROVENANCE) first match wins: once the matched prefix is recorded the scan over configured prefixes is left. EQUIV obligations of lookupRpcService; (GATE) the proxying registration (rpc/access ClientController) applies each pattern to its own request field.",
		NotCov:      "the 'exactly when' direction (no spurious rejection), regexp semantics, starpc prefix invoker internals.",
		Assumptions: commonAssumptions})
}

// accessClientFilter: the proxying registration (rpc/access ClientController) answers a lookup only when its service
// pattern is unset, the requested SERVICE id is empty or matches it, and likewise for the server pattern and the
// requested SERVER id — each pattern is applied to its own request field.
func accessClientFilter(c *an.Check) {
	p := c.P
	hd := p.Func("rpc/access", "ClientController", "HandleDirective")
	svcF, srvF := fv(c, "rpc/access", "ClientController", "serviceIDRe"), fv(c, "rpc/access", "ClientController", "serverIDRe")
	if hd == nil || svcF == nil || srvF == nil {
		c.Undecided("GATE", "rpc/access.ClientController.HandleDirective", nil, "unresolved anchor")
		return
	}
	isReq := func(s *an.State, v ssa.Value, getter string) bool {
		call, ok := s.Canon(v).(*ssa.Call)
		return ok && call.Call.IsInvoke() && call.Call.Method.Name() == getter
	}
	pass := func(f *types.Var, getter, what string) an.Req {
		return an.AnyOf(what,
			an.Req{Name: "pattern unset", Holds: func(s *an.State, at ssa.Instruction) bool {
				for _, b := range an.ScanBlocks(hd) {
					for _, ins := range b.Instrs {
						if u, ok := ins.(*ssa.UnOp); ok && an.IsFieldLoad(u, f) && s.IsNil(u) {
							return true
						}
					}
				}
				return false
			}},
			an.Req{Name: "requested id empty", Holds: func(s *an.State, at ssa.Instruction) bool {
				return s.AnyFact(func(s *an.State, x, y ssa.Value, r an.Rel) bool {
					return r == an.EQ && isReq(s, x, getter) && an.IsStrConst(an.ConvOf(y), "")
				})
			}},
			an.Req{Name: "pattern matches the requested id", Holds: func(s *an.State, at ssa.Instruction) bool {
				for _, call := range an.Calls(hd, an.X("regexp", "Regexp", "MatchString")) {
					if s.IsTrue(call) && an.IsFieldLoad(s.Canon(call.Call.Args[0]), f) && isReq(s, call.Call.Args[1], getter) {
						return true
					}
				}
				return false
			}})
	}
	c.Gate(an.GateSpec{Construct: "rpc/access.ClientController offers a resolver", Fn: hd, Sink: nonNilResolverReturn, Reqs: []an.Req{
		pass(svcF, "LookupRpcServiceID", "service pattern admits the requested service id"),
		pass(srvF, "LookupRpcServerID", "server pattern admits the requested server id"),
	}})
}
