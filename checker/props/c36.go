package props

import (
	"fmt"
	"go/types"
	"strings"

	"bifrostverify/an"

	"golang.org/x/tools/go/ssa"
)

const accPkg = "rpc/access"

func c36(c *an.Check) {
	// a lookup stream reports on ITS request: the directive it adds is never merged with one for another server id
	equivCheck(c, func(f *ssa.Function) bool { return strings.Contains(an.FuncName(f), "rpc.lookupRpcService") })
	accessResolverReset(c)
	p := c.P
	lk := p.Func(accPkg, "AccessRpcServiceServer", "LookupRpcService")
	if lk == nil {
		c.Undecided("GATE", "rpc/access LookupRpcService", nil, "unresolved anchor")
		return
	}
	// the local broadcast guard and the cells it guards
	var bcast *ssa.Alloc
	cells := map[*ssa.Alloc]string{}
	var vals *ssa.MakeMap
	for _, b := range an.ScanBlocks(lk) {
		for _, ins := range b.Instrs {
			switch x := ins.(type) {
			case *ssa.Alloc:
				if isNamedPtr(x.Type(), "Broadcast") {
					bcast = x
				} else if x.Heap && x.Comment != "" {
					switch x.Comment {
					case "sendQueue", "disposed", "resErr", "resIdle":
						cells[x] = x.Comment
					}
				}
			case *ssa.MakeMap:
				vals = x
			}
		}
	}
	// resolve the cells by role rather than by name when debug comments are absent: every heap cell of the function that
	// is written inside some HoldLock literal
	isHoldLit := func(g *ssa.Function) bool {
		sites := p.MakeClosureSites(g)
		if len(sites) != 1 || sites[0].Referrers() == nil {
			return false
		}
		for _, r := range *sites[0].Referrers() {
			call, ok := r.(*ssa.Call)
			if !ok {
				continue
			}
			fo := an.CallObj(call.Common())
			if fo != nil && fo.Name() == "HoldLock" && len(call.Call.Args) > 0 {
				// receiver is the local guard (possibly through a captured variable)
				if root := p.DependsOn(call.Call.Args[0], func(v ssa.Value) bool { return v == ssa.Value(bcast) }); root {
					return true
				}
			}
		}
		return false
	}
	if bcast == nil || vals == nil {
		c.Undecided("LOCKSET", "rpc/access LookupRpcService local state", lk, "unresolved anchor: local broadcast guard / value-id set not found")
		return
	}
	// shared state = heap cells of the function that are touched by at least two different function literals
	// (callbacks and the send loop's critical section); per-iteration snapshot variables written by one literal
	// and read by the function itself are hand-overs, not shared state.
	guarded := map[*ssa.Alloc]bool{}
	users := map[*ssa.Alloc]map[*ssa.Function]bool{}
	for _, g := range an.WithClosures(lk)[1:] {
		for _, b := range an.ScanBlocks(g) {
			for _, ins := range b.Instrs {
				var a *ssa.Alloc
				switch x := ins.(type) {
				case *ssa.Store:
					a = cellOfAddr(p, x.Addr)
				case *ssa.UnOp:
					a = cellOfAddr(p, x.X)
				}
				if a != nil && a.Parent() == lk {
					if users[a] == nil {
						users[a] = map[*ssa.Function]bool{}
					}
					users[a][g] = true
				}
			}
		}
	}
	for a, u := range users {
		if len(u) >= 2 && !isChanCell(a) && a != bcast {
			if _, isMapCell := p.SingleStore(a).(*ssa.MakeMap); !isMapCell {
				guarded[a] = true
			}
		}
	}
	// the wait channel variable is handed over by design (read outside after being set under the lock): exclude channel-typed cells
	for a := range guarded {
		if _, isChan := a.Type().Underlying().(interface{ Elem() interface{} }); isChan {
			_ = isChan
		}
	}
	nAcc, bad := 0, ""
	for _, g := range an.WithClosures(lk) {
		held := g != lk && isHoldLit(g)
		for _, b := range an.ScanBlocks(g) {
			for _, ins := range b.Instrs {
				var cell *ssa.Alloc
				isMapOp := false
				switch x := ins.(type) {
				case *ssa.Store:
					cell = cellOfAddr(p, x.Addr)
				case *ssa.UnOp:
					cell = cellOfAddr(p, x.X)
				case *ssa.MapUpdate:
					isMapOp = mapIs(p, x.Map, vals)
				case *ssa.Lookup:
					isMapOp = mapIs(p, x.X, vals)
				case *ssa.Call:
					if bn := an.BuiltinName(x); (bn == "delete" || bn == "len") && len(x.Call.Args) > 0 {
						isMapOp = mapIs(p, x.Call.Args[0], vals)
					}
				}
				if cell != nil && guarded[cell] && !isChanCell(cell) {
					if g == lk {
						// the function's own initialising stores happen before any closure exists
						if _, isStore := ins.(*ssa.Store); isStore && ins.Block().Index == 0 {
							continue
						}
					}
					nAcc++
					if !held {
						bad = fmt.Sprintf("captured state %q touched outside the local broadcast lock in %s at %s", cell.Comment, an.FuncName(g), p.Pos(ins.Pos()))
					}
				}
				if isMapOp {
					nAcc++
					if !held {
						bad = fmt.Sprintf("the value-id set is touched outside the local broadcast lock in %s at %s", an.FuncName(g), p.Pos(ins.Pos()))
					}
				}
			}
		}
	}
	c.Sites(nAcc)
	c.Require(bad == "" && nAcc >= 10, "LOCKSET", "rpc/access LookupRpcService touches its captured state only inside HoldLock critical sections of its local guard", lk, "", nAcc,
		fmt.Sprintf("%d accesses to %d captured cells and the value-id set, all inside bcast.HoldLock literals", nAcc, len(guarded)), func() string {
			if bad != "" {
				return bad
			}
			return "too few accesses found (anchor drift)"
		}())
	// hand-over of the send queue: the critical section that takes the pending batch out of the shared queue must leave
	// the queue with storage of its own (nil / a fresh slice); re-slicing the same array lets later callbacks overwrite
	// messages that are still being sent outside the lock.
	nHand, badHand := 0, ""
	for _, g := range an.WithClosures(lk)[1:] {
		for _, b := range an.ScanBlocks(g) {
			for _, ins := range b.Instrs {
				st, ok := ins.(*ssa.Store)
				if !ok {
					continue
				}
				src, isLoad := st.Val.(*ssa.UnOp)
				if !isLoad {
					continue
				}
				from, to := cellOfAddr(p, src.X), cellOfAddr(p, st.Addr)
				if from == nil || to == nil || from == to || !guarded[from] || guarded[to] {
					continue
				}
				if _, isSlice := from.Type().Underlying().(*types.Pointer).Elem().Underlying().(*types.Slice); !isSlice {
					continue
				}
				// g hands the queue 'from' over to the snapshot 'to'
				nHand++
				reset := false
				for _, b2 := range an.ScanBlocks(g) {
					for _, ins2 := range b2.Instrs {
						st2, ok := ins2.(*ssa.Store)
						if !ok || cellOfAddr(p, st2.Addr) != from {
							continue
						}
						_, fresh := st2.Val.(*ssa.MakeSlice)
						if isNilConst(st2.Val) || fresh {
							reset = true
							continue
						}
						badHand = fmt.Sprintf("after handing the pending batch to the sender, %s keeps the shared queue on the same backing array (store at %s is neither nil nor a fresh slice): callbacks overwrite messages that are still being sent", an.FuncName(g), p.Pos(st2.Pos()))
					}
				}
				if !reset && badHand == "" {
					badHand = fmt.Sprintf("%s hands the pending batch to the sender without resetting the shared queue: every batch is sent again", an.FuncName(g))
				}
			}
		}
	}
	c.Require(badHand == "" && nHand == 1, "OWNERSHIP", "rpc/access LookupRpcService hands the pending batch over without sharing its storage", lk, "", nHand, "snapshot taken and the shared queue reset to nil in one critical section", func() string {
		if badHand != "" {
			return badHand
		}
		return fmt.Sprintf("%d hand-over sites found (anchor drift)", nHand)
	}())
	// the three announcement gates
	fieldStoreTrue := func(ins ssa.Instruction, name string) (ssa.Value, bool) {
		st, ok := ins.(*ssa.Store)
		if !ok {
			return nil, false
		}
		f := an.FieldOfAddr(st.Addr)
		if f == nil || f.Name() != name {
			return nil, false
		}
		return st.Val, true
	}
	lits := an.WithClosures(lk)[1:]
	find := func(field string) *ssa.Function {
		var out []*ssa.Function
		for _, g := range lits {
			for _, b := range an.ScanBlocks(g) {
				for _, ins := range b.Instrs {
					if _, ok := fieldStoreTrue(ins, field); ok {
						out = append(out, g)
					}
				}
			}
		}
		return one(out)
	}
	lenVals := func(s *an.State, x ssa.Value) bool {
		return an.LenOf(s, x, func(a ssa.Value) bool { return mapIs(p, a, vals) })
	}
	if g := find("Exists"); g == nil {
		c.Undecided("GATE", "rpc/access announces Exists", lk, "unresolved anchor")
	} else {
		c.Gate(an.GateSpec{Construct: "rpc/access queues Exists", Fn: g,
			Sink: func(s *an.State, ins ssa.Instruction) bool {
				v, ok := fieldStoreTrue(ins, "Exists")
				return ok && isTrueConst(v)
			},
			Reqs: []an.Req{
				an.FactReq("this is the first value (len(values)==1 after insert)", func(s *an.State, x, y ssa.Value, r an.Rel) bool {
					return r == an.EQ && an.IsIntConst(y, 1) && lenVals(s, x)
				}),
				{Name: "the value id was inserted first", Holds: func(s *an.State, at ssa.Instruction) bool {
					return s.Executed(at, func(i ssa.Instruction) bool { mu, ok := i.(*ssa.MapUpdate); return ok && mapIs(p, mu.Map, vals) })
				}},
			}})
	}
	if g := find("Removed"); g == nil {
		c.Undecided("GATE", "rpc/access announces Removed", lk, "unresolved anchor")
	} else {
		c.Gate(an.GateSpec{Construct: "rpc/access queues Removed", Fn: g,
			Sink: func(s *an.State, ins ssa.Instruction) bool {
				v, ok := fieldStoreTrue(ins, "Removed")
				return ok && isTrueConst(v)
			},
			Reqs: []an.Req{
				an.FactReq("no value left (len(values)==0 after delete)", func(s *an.State, x, y ssa.Value, r an.Rel) bool {
					return r == an.EQ && an.IsIntConst(y, 0) && lenVals(s, x)
				}),
				{Name: "the removed id was a member and was deleted", Holds: func(s *an.State, at ssa.Instruction) bool {
					member := false
					for _, b := range an.ScanBlocks(g) {
						for _, ins := range b.Instrs {
							if l, ok := ins.(*ssa.Lookup); ok && l.CommaOk && mapIs(p, l.X, vals) {
								for _, r := range *l.Referrers() {
									if e, ok := r.(*ssa.Extract); ok && e.Index == 1 && s.IsTrue(e) {
										member = true
									}
								}
							}
						}
					}
					deleted := s.Executed(at, func(i ssa.Instruction) bool {
						call, ok := i.(*ssa.Call)
						return ok && an.BuiltinName(call) == "delete" && mapIs(p, call.Call.Args[0], vals)
					})
					return member && deleted
				}},
			}})
	}
	if g := find("Idle"); g == nil {
		c.Undecided("GATE", "rpc/access announces Idle", lk, "unresolved anchor")
	} else {
		c.Gate(an.GateSpec{Construct: "rpc/access queues an Idle change", Fn: g,
			Sink: func(s *an.State, ins ssa.Instruction) bool { _, ok := fieldStoreTrue(ins, "Idle"); return ok },
			Reqs: []an.Req{
				an.FactReq("idle state differs from the last reported one", func(s *an.State, x, y ssa.Value, r an.Rel) bool {
					if r != an.NE {
						return false
					}
					_, xp := s.Canon(x).(*ssa.Parameter)
					_, yp := s.Canon(y).(*ssa.Parameter)
					return xp != yp
				}),
				{Name: "the reported idle state is recorded", Holds: func(s *an.State, at ssa.Instruction) bool {
					return s.Executed(at, func(i ssa.Instruction) bool {
						st, ok := i.(*ssa.Store)
						if !ok {
							return false
						}
						cell := cellOfAddr(p, st.Addr)
						return cell != nil && guarded[cell] && st.Val.Type().String() == "bool"
					})
				}},
			}})
	}
	// converse for idle: every way out of the idle callback's critical section either saw "state unchanged" or recorded
	// and queued the change — an early exit (e.g. out of the error scan) must not swallow an idle transition
	if g := find("Idle"); g != nil {
		c.Gate(an.GateSpec{Rule: "MUSTCALL", Construct: "rpc/access idle callback reports every idle state change", Fn: g,
			Sink: func(s *an.State, ins ssa.Instruction) bool { _, ok := ins.(*ssa.Return); return ok },
			Reqs: []an.Req{{Name: "idle state unchanged, or the change was recorded and queued", Holds: func(s *an.State, at ssa.Instruction) bool {
				if s.AnyFact(func(s *an.State, x, y ssa.Value, r an.Rel) bool {
					if r != an.EQ || x.Type().String() != "bool" {
						return false
					}
					_, xp := s.Canon(x).(*ssa.Parameter)
					_, yp := s.Canon(y).(*ssa.Parameter)
					return xp != yp
				}) {
					return true
				}
				recorded := s.Executed(at, func(i ssa.Instruction) bool {
					st, ok := i.(*ssa.Store)
					if !ok {
						return false
					}
					cell := cellOfAddr(p, st.Addr)
					return cell != nil && guarded[cell] && st.Val.Type().String() == "bool"
				})
				queued := s.Executed(at, func(i ssa.Instruction) bool { _, ok := fieldStoreTrue(i, "Idle"); return ok })
				return recorded && queued
			}}}})
	}
	// R4 on the send loop
	waitDiscipline(c, "rpc/access LookupRpcService waits", lk, func(call *ssa.Call) bool {
		pv, ok := call.Call.Value.(*ssa.Parameter)
		return ok && pv.Type().String() == "func() <-chan struct{}"
	}, 1)
	// ... and the channel the loop first waits on is obtained BEFORE the callbacks that broadcast are registered: when an
	// equivalent directive already has values the bus replays them inside AddDirective, and a channel fetched afterwards
	// misses that wake-up (the first "exists" stays queued until an unrelated event)
	takesWaitCh := func(i ssa.Instruction) bool {
		call, ok := i.(*ssa.Call)
		if !ok {
			return false
		}
		fo := an.CallObj(call.Common())
		if fo == nil || fo.Name() != "HoldLock" {
			return false
		}
		for _, a := range an.CallArgs(call.Common()) {
			mc, isMC := a.(*ssa.MakeClosure)
			if !isMC {
				continue
			}
			for _, b := range mc.Fn.(*ssa.Function).Blocks {
				for _, ins := range b.Instrs {
					if cc, isCall := ins.(*ssa.Call); isCall {
						if pv, isP := cc.Call.Value.(*ssa.Parameter); isP && pv.Type().String() == "func() <-chan struct{}" {
							return true
						}
					}
				}
			}
		}
		return false
	}
	nAdd := 0
	for _, b := range an.ScanBlocks(lk) {
		for _, ins := range b.Instrs {
			if call, ok := ins.(*ssa.Call); ok && call.Call.IsInvoke() && call.Call.Method.Name() == "AddDirective" {
				nAdd++
			}
		}
	}
	c.Gate(an.GateSpec{Rule: "WAITCH", Construct: "rpc/access LookupRpcService registers its callbacks", Fn: lk,
		Sink: func(s *an.State, ins ssa.Instruction) bool {
			call, ok := ins.(*ssa.Call)
			return ok && call.Call.IsInvoke() && call.Call.Method.Name() == "AddDirective"
		},
		Reqs: []an.Req{{Name: "the first wait channel was already obtained", Holds: func(s *an.State, at ssa.Instruction) bool { return s.Executed(at, takesWaitCh) }}}})
	c.Require(nAdd == 1, "WAITCH", "rpc/access LookupRpcService AddDirective site found", lk, "", nAdd, "one AddDirective call", "anchor drift: expected exactly one AddDirective call")
	// MIRROR: component id encoding
	mc, uc := p.Func(accPkg, "LookupRpcServiceRequest", "MarshalComponentID"), p.Func(accPkg, "LookupRpcServiceRequest", "UnmarshalComponentID")
	okM := mc != nil && uc != nil
	if okM {
		b58p := "github.com/mr-tron/base58/base58"
		enc, dec := an.Calls(mc, an.X(b58p, "", "Encode")), an.Calls(uc, an.X(b58p, "", "Decode"))
		um := an.Calls(uc, an.R(accPkg, "LookupRpcServiceRequest", "UnmarshalVT"))
		okM = len(enc) == 1 && len(dec) == 1 && len(um) == 1 && an.ResultCallTo(enc[0].Call.Args[0], an.R(accPkg, "LookupRpcServiceRequest", "MarshalVT")) != nil &&
			an.ResultCallTo(um[0].Call.Args[1], an.X(b58p, "", "Decode")) != nil && an.IsParam(dec[0].Call.Args[0], 1) && an.IsParam(um[0].Call.Args[0], 0)
	}
	c.Require(okM, "MIRROR", "rpc/access component id = base58(protobuf(request)) in both directions", mc, "", 3, "Encode(MarshalVT(r)) / r.UnmarshalVT(Decode(id))", "component id marshal/unmarshal are not mirror images")
	// the directive looked up is built from the request (service id, possibly rewritten server id)
	nd := an.Calls(lk, an.R("rpc", "", "NewLookupRpcService"))
	okD := len(nd) == 1 && an.ResultCallTo(nd[0].Call.Args[0], an.R(accPkg, "LookupRpcServiceRequest", "GetServiceId")) != nil
	c.Require(okD, "PROVENANCE", "rpc/access looks up the requested service id", lk, "", len(nd), "NewLookupRpcService(req.GetServiceId(), server id)", "the lookup directive is not built from the request's service id")
}

func cellOfAddr(p *an.Prog, addr ssa.Value) *ssa.Alloc {
	switch addr.(type) {
	case *ssa.Alloc, *ssa.FreeVar:
		return p.CellOf(addr)
	}
	return nil
}

func isChanCell(a *ssa.Alloc) bool {
	return len(a.Type().String()) > 0 && (containsStr(a.Type().String(), "chan "))
}

func containsStr(s, sub string) bool {
	for i := 0; i+len(sub) <= len(s); i++ {
		if s[i:i+len(sub)] == sub {
			return true
		}
	}
	return false
}

// mapIs: v denotes the local map m (directly, or through a captured variable).
func mapIs(p *an.Prog, v ssa.Value, m *ssa.MakeMap) bool {
	for i := 0; i < 4; i++ {
		switch x := v.(type) {
		case *ssa.MakeMap:
			return x == m
		case *ssa.UnOp:
			if a := cellOfAddr(p, x.X); a != nil {
				if sv := p.SingleStore(a); sv != nil {
					v = sv
					continue
				}
			}
			return false
		case *ssa.FreeVar:
			a := p.CellOf(x)
			if a == nil {
				return false
			}
			v = a
		case *ssa.Alloc:
			sv := p.SingleStore(x)
			if sv == nil {
				return false
			}
			v = sv
		default:
			return false
		}
	}
	return false
}

func init() {
	register(&Def{ID: "C36", Run: c36,
		Explain:     "Decides on SSA for the remote lookup stream: (LOCKSET) every access to the captured queue/flags and the value-id set happens inside a function literal passed to HoldLock of the function's own local broadcast guard; (R1) Exists is queued only when the id was inserted and len(values)==1, Removed only when the id was a member, was deleted and len(values)==0, an Idle change only when the idle state differs from the last reported one (which is then recorded); (WAITCH) the send loop re-obtains its wait channel in every iteration; (MIRROR) component ids are base58(protobuf(request)) in both directions; the lookup directive carries the requested service id. (OWNERSHIP) the critical section that hands the pending batch to the sender resets the shared queue to storage of its own (nil / fresh slice). EQUIV obligations of lookupRpcService; (MUSTCALL) every exit of the idle callback saw 'unchanged' or recorded and queued the change; the proxying resolver forgets the id of a removed value. (WAITCH) the first wait channel is obtained before the directive's callbacks are registered.",
		NotCov:      "ordering of announcements on the wire over all callback interleavings; the directive bus's own value bookkeeping.",
		Assumptions: commonAssumptions})
}

// accessResolverReset: the proxying resolver (second hop of a lookup) forgets the id of the value it removed: after
// handler.RemoveValue(id) the id variable is reset before the next announcement is handled, otherwise a re-appearing
// provider is never attached again.
func accessResolverReset(c *an.Check) {
	p := c.P
	res := p.Func("rpc/access", "LookupRpcServiceResolver", "Resolve")
	ok, why, n := false, "resolver or RemoveValue call not found", 0
	if res != nil {
		for _, g := range an.WithClosures(res) {
			for _, b := range an.ScanBlocks(g) {
				for _, ins := range b.Instrs {
					call, isCall := ins.(*ssa.Call)
					if !isCall || !call.Call.IsInvoke() || call.Call.Method.Name() != "RemoveValue" {
						continue
					}
					n++
					// SSA register form: no merge point may receive the removed id unchanged along an edge that comes through the
					// removal (a predecessor block dominated by the block of the RemoveValue call)
					v := call.Call.Args[0]
					ok, why = false, "after RemoveValue(id) the id variable keeps its value: a later 'exists' is taken for 'already attached' and the re-appeared provider is never reported"
					for _, b2 := range an.ScanBlocks(g) {
						for _, i2 := range b2.Instrs {
							ph, isPhi := i2.(*ssa.Phi)
							if !isPhi {
								continue
							}
							zeroFromRemoval, carriesOld := false, false
							for ei, e := range ph.Edges {
								if an.IsIntConst(e, 0) && call.Block().Dominates(b2.Preds[ei]) {
									zeroFromRemoval = true
								}
								if e == v {
									carriesOld = true
								}
							}
							// the join after the removal: 0 along the removal edge, the old id along the other
							if zeroFromRemoval && carriesOld {
								ok, why = true, ""
							}
						}
					}
				}
			}
		}
	}
	c.Require(ok && n >= 1, "MUSTCALL", "rpc/access client resolver forgets the id of a removed value", res, "", n, "valID = 0 after RemoveValue(valID)", why)
}
