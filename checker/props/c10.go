package props

import (
	"go/token"
	"strings"

	"bifrostverify/an"

	"golang.org/x/tools/go/ssa"
)

// pkgFuncsWhere returns the top-level functions/methods of a package satisfying pred.
func pkgFuncsWhere(p *an.Prog, rel string, pred func(*ssa.Function) bool) []*ssa.Function {
	scan := func() []*ssa.Function {
		var out []*ssa.Function
		for _, f := range p.PkgFuncs(rel) {
			if f.Parent() == nil && pred(f) {
				out = append(out, f)
			}
		}
		return out
	}
	if an.InlineHelpers && !an.NoWiden {
		// first the functions that have the construct themselves; only if there is none, those that have it via a helper
		an.NoWiden = true
		out := scan()
		an.NoWiden = false
		if len(out) > 0 {
			return out
		}
	}
	return scan()
}

func one(fs []*ssa.Function) *ssa.Function {
	if len(fs) == 1 {
		an.Anchored[fs[0]] = true
		return fs[0]
	}
	if an.InlineHelpers && len(fs) > 1 {
		// helpers-inline pass: a match that is only a private helper of another match is not a candidate of its own
		var keep []*ssa.Function
		for _, f := range fs {
			sub := false
			for _, g := range fs {
				if g == f {
					continue
				}
				for _, h := range an.HelperCallees(g) {
					if h == f {
						sub = true
					}
				}
			}
			if !sub {
				keep = append(keep, f)
			}
		}
		if len(keep) == 1 {
			return keep[0]
		}
	}
	return nil
}

var (
	cUvarint    = an.X("encoding/binary", "", "Uvarint")
	cPutUvarint = an.X("encoding/binary", "", "PutUvarint")
)

func peerBCE(c *an.Check, pats ...string) *an.BCE {
	b, err := an.RunBCE(c.P.Dir, pats...)
	if err != nil {
		c.Undecided("PANIC", "compiler bounds-check listing", nil, err.Error())
		return nil
	}
	return b
}

// peerIDDecodeObligations decides the exactness of peer-ID decoding (shared by C01 and C10): it returns the
// decoder, encoder and callee handles, or ok=false.
// peerIDIdentityClause: see the identity-only gate below.
var peerIDIdentityClause = true

func peerIDDecodeObligations(c *an.Check) (dec, enc, ifb, epk, bd *ssa.Function, cEnc an.Callee, ok bool) {
	p := c.P
	// role-based anchors for the two unexported helpers
	dec = one(pkgFuncsWhere(p, "peer", func(f *ssa.Function) bool { return callsAny(f, cUvarint) }))
	enc = one(pkgFuncsWhere(p, "peer", func(f *ssa.Function) bool { return callsAny(f, cPutUvarint) }))
	if dec == nil || enc == nil {
		c.Undecided("GATE", "peer multihash decoder/encoder", nil, "unresolved anchor: expected exactly one function in package peer calling binary.Uvarint and one calling binary.PutUvarint")
		return
	}
	ok = true
	cDec := an.Callee{Pkg: "./peer", Name: dec.Name()}
	cEnc = an.Callee{Pkg: "./peer", Name: enc.Name()}
	uv := an.Calls(dec, cUvarint)
	c.Gate(an.GateSpec{Construct: "peer multihash decode success-return", Fn: dec, Sink: successReturn, Reqs: []an.Req{
		{Name: "every varint consumed >0 bytes", Holds: func(s *an.State, at ssa.Instruction) bool {
			if len(uv) != 2 {
				return false
			}
			for _, u := range uv {
				n := an.ErrResult(u, 1)
				if n == nil {
					return false
				}
				ok := s.AnyFact(func(s *an.State, x, y ssa.Value, r an.Rel) bool {
					return s.Key(x) == s.Key(n) && an.IsIntConst(y, 0) && r == an.GT
				})
				if !ok {
					return false
				}
			}
			return true
		}},
		an.FactReq("remaining length == declared digest length", func(s *an.State, x, y ssa.Value, r an.Rel) bool {
			if r != an.EQ || len(uv) != 2 {
				return false
			}
			dl := an.ErrResult(uv[1], 0)
			if dl == nil || s.Key(y) != s.Key(dl) {
				return false
			}
			return an.LenOf(s, an.ConvOf(x), func(ssa.Value) bool { return true })
		}),
	}})
	// decode: the digest returned is exactly the bytes after the two varints, the code is the first varint
	c.EachReturn("PROVENANCE", "peer multihash decode returns (first varint, trailing bytes)", dec, "code = Uvarint#1 value; digest = input sliced past both varints", func(s *an.State, ret *ssa.Return) string {
		if s.KnownNonNilErr(s.RetVal(ret, -1)) {
			return ""
		}
		if len(uv) != 2 || s.Key(s.RetVal(ret, 0)) != s.Key(an.ErrResult(uv[0], 0)) {
			return "returned code is not the value of the first varint"
		}
		d, ok := s.RetVal(ret, 1).(*ssa.Slice)
		if !ok || d.High != nil || s.Key(d.Low) != s.Key(an.ErrResult(uv[1], 1)) {
			return "returned digest is not the input sliced past the second varint"
		}
		if s.Key(d.X) != s.Key(uv[1].Call.Args[0]) {
			return "returned digest is not a suffix of the buffer the length varint was read from"
		}
		return ""
	})
	// encode mirror
	pu := an.Calls(enc, cPutUvarint)
	okE := len(pu) == 2 && an.IsParam(pu[0].Call.Args[1], 0)
	if okE {
		l, ok := an.ConvOf(pu[1].Call.Args[1]).(*ssa.Call)
		okE = ok && an.BuiltinName(l) == "len" && an.IsParam(l.Call.Args[0], 1)
		cp := 0
		for _, b := range an.ScanBlocks(enc) {
			for _, ins := range b.Instrs {
				if cc, ok := ins.(*ssa.Call); ok && an.BuiltinName(cc) == "copy" && an.IsParam(cc.Call.Args[1], 1) {
					cp++
				}
			}
		}
		okE = okE && cp == 1
	}
	c.Require(okE, "MIRROR", "peer multihash encode writes varint(code) varint(len(digest)) digest", enc, "", len(pu), "PutUvarint(code), PutUvarint(len(digest)), copy(digest) mirrors the two Uvarint reads + exact remaining length of decode", "encoder does not write (code varint, digest-length varint, digest)")
	c.Require(len(uv) == 2, "MIRROR", "peer multihash decode reads two varints", dec, "", len(uv), "two Uvarint reads", "decoder does not read exactly two varints")

	// IDFromBytes: cast only past decode ok, and casts its own argument
	ifb = p.Func("peer", "", "IDFromBytes")
	c.Gate(an.GateSpec{Construct: "peer.IDFromBytes success-return", Fn: ifb, Sink: successReturn, Reqs: []an.Req{an.CallOK("multihash decode ok", cDec)}})
	// "accepts only well-formed identity multihashes": the parser itself must look at the hash code (part of the statements
	// of C10 and C01 only; properties that merely need ids to be self-delimiting switch this clause off)
	if peerIDIdentityClause {
		c.Gate(an.GateSpec{Construct: "peer.IDFromBytes success-return (identity only)", Fn: ifb, Sink: successReturn, Reqs: []an.Req{
			an.FactReq("multihash code == identity", func(s *an.State, x, y ssa.Value, r an.Rel) bool {
				e, isE := x.(*ssa.Extract)
				return r == an.EQ && isE && e.Index == 0 && an.ResultCallTo(x, cDec) != nil && an.IsIntConst(y, 0)
			})}})
	}
	c.EachReturn("PROVENANCE", "peer.IDFromBytes returns its validated argument", ifb, "ID(b)", func(s *an.State, ret *ssa.Return) string {
		if s.KnownNonNilErr(s.RetVal(ret, -1)) {
			return ""
		}
		if !an.IsParam(an.ConvOf(s.RetVal(ret, 0)), 0) {
			return "success return is not the conversion of the validated argument"
		}
		dc := an.Calls(ifb, cDec)
		if len(dc) != 1 || !an.IsParam(dc[0].Call.Args[0], 0) {
			return "the decoder is not applied to the argument"
		}
		return ""
	})
	// ExtractPublicKey: parse only past decode ok and identity code
	epk = p.Func("peer", "ID", "ExtractPublicKey")
	c.Gate(an.GateSpec{Construct: "peer.ID.ExtractPublicKey key-parse call", Fn: epk,
		Sink: func(s *an.State, ins ssa.Instruction) bool { return an.IsCallTo(ins, fnUnmarshalPublicKey) },
		Reqs: []an.Req{an.CallOK("multihash decode ok", cDec),
			an.FactReq("code == identity(0)", func(s *an.State, x, y ssa.Value, r an.Rel) bool {
				dc := an.ResultCallTo(x, cDec)
				e, isE := x.(*ssa.Extract)
				return r == an.EQ && dc != nil && isE && e.Index == 0 && an.IsIntConst(y, 0)
			})}})
	if epk != nil {
		uc := an.Calls(epk, fnUnmarshalPublicKey)
		dc := an.Calls(epk, cDec)
		ok := len(uc) == 1 && len(dc) == 1 && an.IsParam(an.ConvOf(dc[0].Call.Args[0]), 0)
		if ok {
			e, isE := uc[0].Call.Args[0].(*ssa.Extract)
			ok = isE && e.Index == 1 && e.Tuple == ssa.Value(dc[0])
			if !ok {
				// through a local or a helper's result: the bytes parsed still derive from the digest half of that decode call
				ok = p.DependsOn(uc[0].Call.Args[0], func(v ssa.Value) bool {
					ex, isEx := v.(*ssa.Extract)
					return isEx && ex.Index == 1 && ex.Tuple == ssa.Value(dc[0])
				})
			}
		}
		c.Require(ok, "PROVENANCE", "peer.ID.ExtractPublicKey parses the digest of its own ID", epk, "", len(uc)+len(dc), "UnmarshalPublicKey(decode([]byte(id)).digest)", "the key is not parsed from the digest of the receiver ID")
	}
	// canonical form: a key is handed out only when the receiver id is the id derived from that very key (one id per key:
	// non-minimal varints and protobuf re-encodings of the same key are ids of no key)
	cMatch := an.R("peer", "ID", "MatchesPublicKey")
	cFromPub := an.R("peer", "", "IDFromPublicKey")
	canonReqs := []an.Req{
		an.AnyOf("the id re-derived from the extracted key equals the receiver",
			an.Req{Name: "id.MatchesPublicKey(extracted key)", Holds: func(s *an.State, at ssa.Instruction) bool {
				for _, call := range an.Calls(epk, cMatch) {
					if an.IsParam(call.Call.Args[0], 0) && an.ResultCallTo(call.Call.Args[1], fnUnmarshalPublicKey) != nil && s.IsTrue(call) {
						return true
					}
				}
				return false
			}},
			an.FactReq("IDFromPublicKey(extracted key) == id", func(s *an.State, x, y ssa.Value, r an.Rel) bool {
				if r != an.EQ {
					return false
				}
				for _, pr := range [][2]ssa.Value{{x, y}, {y, x}} {
					if call := an.ResultCallTo(pr[0], cFromPub); call != nil && an.ResultCallTo(call.Call.Args[0], fnUnmarshalPublicKey) != nil && an.IsParam(pr[1], 0) {
						return true
					}
				}
				return false
			}))}
	if peerIDIdentityClause {
		c.Gate(an.GateSpec{Construct: "peer.ID.ExtractPublicKey success-return (canonical id)", Fn: epk, Sink: successReturn, Reqs: canonReqs})
	}
	bd = p.Func("peer", "", "IDB58Decode")
	c.Gate(an.GateSpec{Construct: "peer.IDB58Decode success-return", Fn: bd, Sink: successReturn, Reqs: []an.Req{
		an.CallOK("base58 decode ok", an.X("github.com/mr-tron/base58/base58", "", "Decode")), an.CallOK("IDFromBytes ok", an.R("peer", "", "IDFromBytes"))}})
	if bd != nil {
		ic := an.Calls(bd, an.R("peer", "", "IDFromBytes"))
		okk := len(ic) == 1 && an.ResultCallTo(ic[0].Call.Args[0], an.X("github.com/mr-tron/base58/base58", "", "Decode")) != nil
		c.Require(okk, "PROVENANCE", "peer.IDB58Decode validates the decoded bytes", bd, "", len(ic), "IDFromBytes(b58.Decode(s))", "the decoded bytes are not passed through IDFromBytes")
	}
	return
}

func c10(c *an.Check) {
	p := c.P
	dec, enc, ifb, epk, bd, cEnc, ok := peerIDDecodeObligations(c)
	if !ok {
		return
	}
	// IDFromPublicKey: identity multihash over the marshalled key
	ifp := p.Func("peer", "", "IDFromPublicKey")
	c.Gate(an.GateSpec{Construct: "peer.IDFromPublicKey success-return", Fn: ifp, Sink: successReturn, Reqs: []an.Req{an.CallOK("MarshalPublicKey ok", an.R("crypto", "", "MarshalPublicKey"))}})
	if ifp != nil {
		ec := an.Calls(ifp, cEnc)
		ok := len(ec) == 1 && an.IsIntConst(ec[0].Call.Args[0], 0)
		if ok {
			mk := an.ResultCallTo(ec[0].Call.Args[1], an.R("crypto", "", "MarshalPublicKey"))
			ok = mk != nil && an.IsParam(mk.Call.Args[0], 0)
		}
		c.Require(ok, "PROVENANCE", "peer.IDFromPublicKey = identity multihash of MarshalPublicKey(pk)", ifp, "", len(ec), "encode(identity, MarshalPublicKey(pk))", "ID is not the identity multihash of the marshalled key parameter")
	}
	// MatchesPublicKey: compares with the re-derived ID
	mpk := p.Func("peer", "ID", "MatchesPublicKey")
	c.EachReturn("PROVENANCE", "peer.ID.MatchesPublicKey == (IDFromPublicKey(pk) == id)", mpk, "false on derive error, else equality with the re-derived ID", func(s *an.State, ret *ssa.Return) string {
		v := s.RetVal(ret, 0)
		if s.IsFalse(v) {
			return ""
		}
		bo, ok := v.(*ssa.BinOp)
		if !ok || bo.Op != token.EQL {
			return "a return yields something other than false or an equality"
		}
		x, y := s.Canon(bo.X), s.Canon(bo.Y)
		d := an.ResultCallTo(x, fnIDFromPublicKey)
		o := y
		if d == nil {
			d, o = an.ResultCallTo(y, fnIDFromPublicKey), x
		}
		if d == nil || !an.IsParam(o, 0) || !an.IsParam(d.Call.Args[0], 1) {
			return "the comparison is not between IDFromPublicKey(pk) and the receiver"
		}
		if e := an.ErrResult(d, -1); e == nil || !s.IsNil(e) {
			return "the comparison is returned although the derivation error is not known nil"
		}
		return ""
	})
	// confparse.ParsePeerID goes through IDB58Decode
	if pp := p.Func("util/confparse", "", "ParsePeerID"); pp != nil {
		c.Gate(an.GateSpec{Construct: "confparse.ParsePeerID non-empty success-return", Fn: pp,
			Sink: func(s *an.State, ins ssa.Instruction) bool {
				ret, ok := ins.(*ssa.Return)
				if !ok || s.KnownNonNilErr(s.RetVal(ret, -1)) {
					return false
				}
				k, isC := s.RetVal(ret, 0).(*ssa.Const)
				return !(isC && (k.Value == nil || k.Value.ExactString() == `""`))
			},
			Reqs: []an.Req{an.CallOK("IDB58Decode ok", an.R("peer", "", "IDB58Decode"))}})
	} else {
		c.Undecided("GATE", "confparse.ParsePeerID non-empty success-return", nil, "unresolved anchor")
	}
	// the identity multihash wraps the generated codec of crypto.PublicKey
	pbCodecSanity(c, func(rel string) bool { return rel == "crypto" })
	// a key pair imported from a standard-library key hands out a public key with storage of its own (std Public() copies):
	// the id derived from it must not change when the caller wipes or reuses its private-key buffer
	if kp := p.Func("crypto", "", "KeyPairFromStdKey"); kp == nil {
		c.Undecided("OWNERSHIP", "crypto.KeyPairFromStdKey", nil, "unresolved anchor")
	} else {
		nK, badK := 0, ""
		for _, b := range an.ScanBlocks(kp) {
			for _, ins := range b.Instrs {
				stt, ok := ins.(*ssa.Store)
				if !ok {
					continue
				}
				fa, ok := stt.Addr.(*ssa.FieldAddr)
				if !ok || !isNamedPtr(fa.X.Type(), "Ed25519PublicKey") {
					continue
				}
				nK++
				fromStd := p.DependsOn(stt.Val, func(v ssa.Value) bool {
					call, ok := v.(*ssa.Call)
					if !ok {
						return false
					}
					fo := an.CallObj(call.Common())
					return fo != nil && fo.Name() == "Public" && fo.Pkg() != nil && strings.HasSuffix(fo.Pkg().Path(), "ed25519")
				})
				if !fromStd {
					badK = "the public key returned for an imported standard key is not the copy made by ed25519.PrivateKey.Public(): it shares storage with the caller's private key buffer"
				}
			}
		}
		c.Require(badK == "" && nK >= 1, "OWNERSHIP", "crypto.KeyPairFromStdKey returns a public key with storage of its own", kp, "", nK, "public key bytes come from std Public()", badK)
	}
	// totality
	bce := peerBCE(c, "./peer")
	if bce != nil {
		fns := []*ssa.Function{dec, enc, ifb, epk, ifp, mpk, bd, p.Func("peer", "ID", "ShortString"), p.Func("peer", "ID", "String"), p.Func("peer", "ID", "Validate"), p.Func("peer", "", "IDB58Encode")}
		c.Totality(an.PanicSpec{Construct: "peer ID codec totality", Funcs: fns, BCE: bce, Min: 11, Reviewed: map[string]string{
			an.FuncName(enc) + ": bounds buf[n:]": "buf is allocated with 2*MaxVarintLen64+len(digest) bytes and n is the byte count PutUvarint reported (<= MaxVarintLen64), so n <= len(buf); encoder input is local, not wire data",
			an.FuncName(enc) + ": bounds buf[:n]": "n is the sum of two PutUvarint counts (<= 2*MaxVarintLen64) and a copy count (<= len(digest)), which is at most the allocated length",
		}})
	}
	thoroughCallers(c, "peer id parsing", 0, []string{"peer", "util/confparse", "crypto"}, an.R("peer", "", "IDB58Decode"), an.R("peer", "", "IDFromBytes"), an.R("peer", "ID", "ExtractPublicKey"))
	c.Trust("encoding/binary.Uvarint: n>0 implies n<=len(buf)", "github.com/mr-tron/base58 Decode never panics", "crypto.UnmarshalPublicKey totality is decided under C11")
}

func init() {
	register(&Def{ID: "C10", Run: c10,
		Explain:     "Decides on SSA: (R1) the multihash decoder succeeds only past both varints n>0 and remaining-length == declared length, and returns (first varint, exact suffix); IDFromBytes / IDB58Decode / confparse.ParsePeerID succeed only past it and return the validated bytes; ExtractPublicKey parses a key only past decode ok and code==identity, from the ID's own digest; IDFromPublicKey is the identity multihash of MarshalPublicKey(pk); MatchesPublicKey is equality with the re-derived ID; (MIRROR) encoder writes varint,varint,digest; (PANIC) every compiler-unproven bounds check, variable divisor, unchecked assertion or explicit panic in the ID codec functions is discharged by path facts or a reviewed reason. Generated codec sanity for package crypto; (OWNERSHIP) KeyPairFromStdKey returns a public key copied by std Public(). (GATE) ID.ExtractPublicKey hands out a key only when the id re-derived from that key equals the receiver: non-minimal varints and protobuf re-encodings are ids of no key.",
		NotCov:      "round-trip and injectivity as value statements (follow from the mirror + exact-length rule under the trusted varint/base58/protobuf codecs, not proved here).",
		Assumptions: commonAssumptions})
}
