package props

import (
	"go/token"
	"go/types"
	"strings"

	"bifrostverify/an"

	"golang.org/x/tools/go/ssa"
)

const tcPkg = "transport/controller"

type tcAnchors struct {
	est, lost, flush         *ssa.Function // HoldLock literals of HandleLinkEstablished / HandleLinkLost; flushEstablishedLink
	estOuter, lostOuter      *ssa.Function
	linksF, byPeerF, peerIDF *types.Var
	elLnkF                   *types.Var
	cFlush                   an.Callee
}

func tcResolve(c *an.Check) *tcAnchors {
	p := c.P
	a := &tcAnchors{}
	a.linksF, a.byPeerF, a.peerIDF = fv(c, tcPkg, "Controller", "links"), fv(c, tcPkg, "Controller", "linksByPeerID"), fv(c, tcPkg, "Controller", "peerID")
	a.elLnkF = fv(c, tcPkg, "establishedLink", "lnk")
	a.estOuter = p.Func(tcPkg, "transportHandler", "HandleLinkEstablished")
	a.lostOuter = p.Func(tcPkg, "transportHandler", "HandleLinkLost")
	if a.linksF == nil || a.byPeerF == nil || a.peerIDF == nil || a.elLnkF == nil || a.estOuter == nil || a.lostOuter == nil {
		c.Undecided("GATE", "transport controller link tables", nil, "unresolved anchor")
		return nil
	}
	scope := func(g *ssa.Function) []*ssa.Function {
		if an.InlineHelpers {
			return append([]*ssa.Function{g}, an.HelperCallees(g)...)
		}
		return []*ssa.Function{g}
	}
	mutates := func(g *ssa.Function, f *types.Var) bool {
		for _, acc := range p.FieldAccesses(f, scope(g)) {
			if acc.Kind == an.MapWrite {
				return true
			}
		}
		return false
	}
	deletes := func(g *ssa.Function, f *types.Var) bool {
		for _, acc := range p.FieldAccesses(f, []*ssa.Function{g}) {
			if acc.Kind == an.MapWrite {
				if call, ok := acc.Instr.(*ssa.Call); ok && an.BuiltinName(call) == "delete" {
					return true
				}
			}
		}
		return false
	}
	a.est = one(closuresWhere(a.estOuter, func(g *ssa.Function) bool { return mutates(g, a.linksF) }))
	a.lost = one(closuresWhere(a.lostOuter, func(g *ssa.Function) bool { return mutates(g, a.linksF) }))
	a.flush = one(pkgFuncsWhere(p, tcPkg, func(f *ssa.Function) bool {
		return f.Signature.Recv() != nil && isNamedPtr(f.Signature.Recv().Type(), "Controller") && mutates(f, a.byPeerF) && deletes(f, a.linksF)
	}))
	if a.est == nil || a.lost == nil || a.flush == nil {
		c.Undecided("GATE", "transport controller link tables", nil, "unresolved anchor: establish/lost critical sections or the flush helper not found")
		return nil
	}
	a.cFlush = an.Callee{Pkg: "./" + tcPkg, Recv: "Controller", Name: a.flush.Name()}
	return a
}

// capturedParam: v (in a literal) denotes parameter #idx of the enclosing method.
func capturedParam(s *an.State, v ssa.Value, outer *ssa.Function, idx int) bool {
	cv := s.Canon(v)
	if pv, ok := cv.(*ssa.Parameter); ok {
		return pv.Parent() == outer && an.IsParam(pv, idx)
	}
	// a load of a captured parameter cell
	if u, ok := cv.(*ssa.UnOp); ok {
		if a := s.P.CellOf(u.X); a != nil {
			if sv := s.P.SingleStore(a); sv != nil {
				return an.IsParam(sv, idx) && sv.Parent() == outer
			}
		}
	}
	return false
}

func tcLockset(c *an.Check, a *tcAnchors) {
	c.LockSet(an.LockSpec{Construct: "transport controller link tables (Controller.bcast)", Guard: fv(c, tcPkg, "Controller", "bcast"),
		Guarded: []*types.Var{a.linksF, a.byPeerF}, Funcs: c.P.PkgFuncs(tcPkg), Min: 8})
}

func c04(c *an.Check) {
	// "authenticated remote peer": the identity every link reports comes out of the certificate-chain check
	certChainGates(c)
	p := c.P
	a := tcResolve(c)
	if a == nil {
		return
	}
	// inserts only for links to other peers, keyed by the link's own authenticated remote peer
	isInsert := func(ins ssa.Instruction) (*ssa.MapUpdate, bool) {
		mu, ok := ins.(*ssa.MapUpdate)
		if !ok {
			return nil, false
		}
		return mu, an.IsFieldLoad(mu.Map, a.linksF) || an.IsFieldLoad(mu.Map, a.byPeerF)
	}
	remoteOfLnk := func(s *an.State, v ssa.Value) bool {
		call, ok := s.Canon(v).(*ssa.Call)
		return ok && call.Call.IsInvoke() && call.Call.Method.Name() == "GetRemotePeer" && capturedParam(s, call.Call.Value, a.estOuter, 1)
	}
	init := p.NewState(a.est)
	c.Gate(an.GateSpec{Construct: "transport controller records an established link", Fn: a.est, Init: init,
		Sink: func(s *an.State, ins ssa.Instruction) bool { _, ok := isInsert(ins); return ok },
		Reqs: []an.Req{
			an.FactReq("remote peer != local peer (no self-link)", func(s *an.State, x, y ssa.Value, r an.Rel) bool {
				return r == an.NE && ((remoteOfLnk(s, x) && an.IsFieldLoad(y, a.peerIDF)) || (remoteOfLnk(s, y) && an.IsFieldLoad(x, a.peerIDF)))
			}),
			{Name: "per-peer table is keyed by the link's own remote peer", Holds: func(s *an.State, at ssa.Instruction) bool {
				mu, _ := isInsert(at)
				if an.IsFieldLoad(mu.Map, a.byPeerF) {
					return remoteOfLnk(s, mu.Key)
				}
				// uuid table: keyed by the link's uuid
				call, ok := s.Canon(mu.Key).(*ssa.Call)
				return ok && call.Call.IsInvoke() && call.Call.Method.Name() == "GetUUID" && capturedParam(s, call.Call.Value, a.estOuter, 1)
			}},
			{Name: "the recorded entry wraps the link that was reported", Holds: func(s *an.State, at ssa.Instruction) bool {
				ne := 0
				for _, b := range an.ScanBlocks(a.est) {
					for _, ins := range b.Instrs {
						if call, ok := ins.(*ssa.Call); ok {
							if f, ok := call.Call.Value.(*ssa.Function); ok && f.Pkg == a.est.Pkg && f.Signature.Results().Len() == 2 && isNamedPtr(f.Signature.Results().At(0).Type(), "establishedLink") {
								ne++
								okArg := false
								for _, arg := range call.Call.Args {
									if capturedParam(s, arg, a.estOuter, 1) {
										okArg = true
									}
								}
								if !okArg {
									return false
								}
							}
						}
					}
				}
				return ne == 1
			}},
		}})
	// a self-link is closed
	c.Gate(an.GateSpec{Rule: "MUSTCALL", Construct: "transport controller rejects a self-link", Fn: a.est,
		Sink: func(s *an.State, ins ssa.Instruction) bool {
			if _, ok := ins.(*ssa.Return); !ok {
				return false
			}
			return s.AnyFact(func(s *an.State, x, y ssa.Value, r an.Rel) bool {
				return r == an.EQ && ((remoteOfLnk(s, x) && an.IsFieldLoad(y, a.peerIDF)) || (remoteOfLnk(s, y) && an.IsFieldLoad(x, a.peerIDF)))
			})
		},
		Reqs: []an.Req{{Name: "the link is closed", Holds: func(s *an.State, at ssa.Instruction) bool {
			return s.Executed(at, func(i ssa.Instruction) bool {
				g, ok := i.(*ssa.Go)
				return ok && g.Call.IsInvoke() && g.Call.Method.Name() == "Close"
			})
		}}}})
	// lookups: values come from the per-peer table entry of the requested target, only for a matching source
	res := one(pkgFuncsWhere(p, tcPkg, func(f *ssa.Function) bool {
		return f.Name() == "Resolve" && f.Signature.Recv() != nil && isNamedPtr(f.Signature.Recv().Type(), "establishLinkResolver")
	}))
	if res == nil {
		c.Undecided("GATE", "transport controller link lookup", nil, "unresolved anchor")
	} else {
		// the literal that reads the per-peer table
		lit := one(closuresWhere(res, func(g *ssa.Function) bool { return len(p.FieldAccesses(a.byPeerF, []*ssa.Function{g})) > 0 }))
		okKey := false
		if lit != nil {
			st := p.NewState(lit)
			for _, b := range an.ScanBlocks(lit) {
				for _, ins := range b.Instrs {
					if lk, ok := ins.(*ssa.Lookup); ok && an.IsFieldLoad(lk.X, a.byPeerF) {
						k := an.ResolveHelperParam(st.Canon(lk.Index))
						call, isCall := k.(*ssa.Call)
						okKey = isCall && call.Call.IsInvoke() && call.Call.Method.Name() == "EstablishLinkTargetPeerId"
					}
				}
			}
		}
		c.Require(okKey, "PROVENANCE", "transport controller link lookup reads the requested target peer's entry", res, "", 1, "linksByPeerID[dir.EstablishLinkTargetPeerId()]", "the lookup does not read the table entry of the requested target peer")
		c.Gate(an.GateSpec{Construct: "transport controller link lookup yields values", Fn: res,
			Sink: func(s *an.State, ins ssa.Instruction) bool {
				call, ok := ins.(*ssa.Call)
				if !ok {
					return false
				}
				fo := an.CallObj(call.Common())
				return fo != nil && fo.Name() == "SetValues"
			},
			Reqs: []an.Req{an.AnyOf("no source constraint, or the source is this transport's peer",
				an.FactReq("source == \"\"", func(s *an.State, x, y ssa.Value, r an.Rel) bool {
					call, ok := x.(*ssa.Call)
					return r == an.EQ && an.IsStrConst(an.ConvOf(y), "") && ok && call.Call.IsInvoke() && call.Call.Method.Name() == "EstablishLinkSourcePeerId"
				}),
				an.FactReq("source == transport peer id", func(s *an.State, x, y ssa.Value, r an.Rel) bool {
					cx, okx := x.(*ssa.Call)
					cy, oky := y.(*ssa.Call)
					return r == an.EQ && okx && oky && cx.Call.IsInvoke() && cy.Call.IsInvoke() && cx.Call.Method.Name() == "EstablishLinkSourcePeerId" && cy.Call.Method.Name() == "GetPeerID"
				}))}})
	}
	// WHO: the two tables are mutated only in the three places
	for _, f := range []*types.Var{a.linksF, a.byPeerF} {
		c.Who(an.WhoSpec{Construct: "transport controller " + f.Name() + " mutated only by establish / lost / flush", Field: f, Kinds: []an.AccessKind{an.MapWrite, an.Write},
			Allowed: func(fn *ssa.Function) bool {
				return an.InFuncs(a.estOuter, a.lostOuter, a.flush)(fn) || strings.HasPrefix(an.Outermost(fn).Name(), "NewController")
			}, Min: 3, Funcs: p.PkgFuncs(tcPkg)})
	}
	// streams report the link's remote peer (shared with C07)
	lp := fv(c, tcPkg, "mountedStream", "linkPeer")
	nms := one(pkgFuncsWhere(p, tcPkg, func(f *ssa.Function) bool {
		return f.Signature.Recv() == nil && f.Signature.Results().Len() == 1 && isNamedPtr(f.Signature.Results().At(0).Type(), "mountedStream")
	}))
	c.Who(an.WhoSpec{Construct: "mountedStream.linkPeer written only by its constructor", Field: lp, Kinds: []an.AccessKind{an.Write, an.AddrTaken}, Allowed: an.InFuncs(nms), Min: 1})
	if lp != nil && nms != nil {
		ok := false
		for _, acc := range p.FieldAccesses(lp, []*ssa.Function{nms}) {
			if acc.Kind == an.Write {
				call, isCall := acc.Val.(*ssa.Call)
				ok = isCall && call.Call.IsInvoke() && call.Call.Method.Name() == "GetRemotePeer" && an.IsParam(call.Call.Value, 3)
			}
		}
		c.Require(ok, "PROVENANCE", "mountedStream.linkPeer = link.GetRemotePeer()", nms, "", 1, "constructor stores the mounted link's remote peer", "a stream's peer is not the remote peer of the link it arrived on")
	}
	// requests with different sources must stay different directives (de-duplication happens on the bus)
	sub := an.NewCheck(c.Prop, c.Tier, p)
	c37(sub)
	n := 0
	for _, o := range sub.Obls {
		if strings.Contains(o.Construct, "establishLinkWithPeer") {
			c.Obls = append(c.Obls, o)
			n++
		}
	}
	c.Require(n >= 2, "EQUIV", "EstablishLinkWithPeer equivalence obligations re-decided", nil, "", n, "source and target are both compared", "the EstablishLinkWithPeer IsEquivalent obligations were not found (anchor drift)")
	tcLockset(c, a)
}

// linkResolverIdentity: the de-duplicating list resolver that reports EstablishLinkWithPeer values identifies an
// established link by the link's own uuid (the key of the controller's uuid table), treats two entries as the same only
// when they are the same object, and yields that entry's mounted link.
func linkResolverIdentity(c *an.Check) {
	p := c.P
	res := one(pkgFuncsWhere(p, tcPkg, func(f *ssa.Function) bool {
		return f.Name() == "Resolve" && f.Signature.Recv() != nil && isNamedPtr(f.Signature.Recv().Type(), "establishLinkResolver")
	}))
	if res == nil {
		c.Undecided("PROVENANCE", "transport controller link lookup value identity", nil, "unresolved anchor")
		return
	}
	okK, whyK := false, "the unique-list resolver construction was not found"
	for _, b := range an.ScanBlocks(res) {
		for _, ins := range b.Instrs {
			call, ok := ins.(*ssa.Call)
			if !ok {
				continue
			}
			f := call.Call.StaticCallee()
			if f == nil || !strings.HasPrefix(f.Name(), "NewUniqueListXfrmResolver") || len(call.Call.Args) < 3 {
				continue
			}
			lit := func(v ssa.Value) *ssa.Function {
				switch x := v.(type) {
				case *ssa.MakeClosure:
					return x.Fn.(*ssa.Function)
				case *ssa.Function:
					return x
				}
				return nil
			}
			keyFn, eqFn, xfFn := lit(call.Call.Args[0]), lit(call.Call.Args[1]), lit(call.Call.Args[2])
			if keyFn == nil || eqFn == nil || xfFn == nil {
				whyK = "the resolver's key / equality / transform functions are not function literals"
				continue
			}
			okK, whyK = true, ""
			fieldOfParam := func(v ssa.Value, fn *ssa.Function, pi int, field string) bool {
				u, isLoad := v.(*ssa.UnOp)
				if !isLoad {
					return false
				}
				fa, isFA := u.X.(*ssa.FieldAddr)
				return isFA && fa.X == ssa.Value(fn.Params[pi]) && an.FieldOfAddr(fa) != nil && an.FieldOfAddr(fa).Name() == field
			}
			for _, kb := range an.ScanBlocks(keyFn) {
				if ret, isRet := kb.Instrs[len(kb.Instrs)-1].(*ssa.Return); isRet {
					kc, isCall := ret.Results[0].(*ssa.Call)
					if !isCall || !kc.Call.IsInvoke() || kc.Call.Method.Name() != "GetUUID" || !fieldOfParam(kc.Call.Value, keyFn, 0, "lnk") {
						okK, whyK = false, "established links are keyed by something other than the link's own uuid: two links of one transport / peer collapse into one reported value (or one link is reported twice)"
					}
				}
			}
			for _, eb := range an.ScanBlocks(eqFn) {
				if ret, isRet := eb.Instrs[len(eb.Instrs)-1].(*ssa.Return); isRet {
					bo, isBO := ret.Results[0].(*ssa.BinOp)
					if !isBO || bo.Op != token.EQL || !((bo.X == ssa.Value(eqFn.Params[1]) && bo.Y == ssa.Value(eqFn.Params[2])) || (bo.X == ssa.Value(eqFn.Params[2]) && bo.Y == ssa.Value(eqFn.Params[1]))) {
						okK, whyK = false, "two table entries are treated as the same value by something other than object identity"
					}
				}
			}
			for _, xb := range an.ScanBlocks(xfFn) {
				if ret, isRet := xb.Instrs[len(xb.Instrs)-1].(*ssa.Return); isRet {
					v := ret.Results[0]
					if mi, isMI := v.(*ssa.MakeInterface); isMI {
						v = mi.X
					}
					if !fieldOfParam(v, xfFn, 1, "mlnk") {
						okK, whyK = false, "the value reported for an entry is not that entry's mounted link"
					}
				}
			}
		}
	}
	c.Require(okK, "PROVENANCE", "transport controller reports each established link once, under its own uuid", res, "", 3, "key = v.lnk.GetUUID(); same = (a == b); value = v.mlnk", whyK)
}

func c06(c *an.Check) {
	p := c.P
	a := tcResolve(c)
	if a == nil {
		return
	}
	linkResolverIdentity(c)
	// link identifiers are a pure function of (addresses, peer): the shared checksum helper resets its hasher on every call
	// — "same uuid ⇒ replacement" (the only way a usurped link leaves the tables) relies on it
	if crc := p.Func("util/scrc", "", "Crc64"); crc == nil {
		c.Undecided("MUSTCALL", "scrc.Crc64 is deterministic", nil, "unresolved anchor")
	} else {
		reset, sum := false, false
		for _, b := range an.ScanBlocks(crc) {
			for _, ins := range b.Instrs {
				var cc *ssa.CallCommon
				switch x := ins.(type) {
				case *ssa.Call:
					cc = x.Common()
				case *ssa.Defer:
					cc = x.Common()
				}
				if cc == nil || !cc.IsInvoke() {
					continue
				}
				switch cc.Method.Name() {
				case "Reset":
					reset = true
				case "Sum64":
					sum = true
				}
			}
		}
		fresh := false
		for _, b := range an.ScanBlocks(crc) {
			for _, ins := range b.Instrs {
				if call, ok := ins.(*ssa.Call); ok {
					if f := call.Call.StaticCallee(); f != nil && f.Pkg != nil && f.Pkg.Pkg.Path() == "hash/crc64" && (f.Name() == "New" || f.Name() == "Checksum") {
						fresh = true
					}
				}
			}
		}
		c.Require((reset && sum) || fresh, "MUSTCALL", "scrc.Crc64 (link / transport uuid) is a pure function of its inputs", crc, "", 1, "shared hasher Reset on every call (or a fresh hasher / crc64.Checksum)", "the shared crc64 hasher is not reset between calls: identical inputs give different uuids, so a replacement link no longer collides with the link it replaces and the old one stays in the tables")
	}
	// every critical section that changes the link tables wakes the resolvers before it ends: a lost link is otherwise
	// still reported (and a new one not yet) until some unrelated event
	for _, w := range []struct {
		name string
		fn   *ssa.Function
	}{{"lost", a.lost}, {"established", a.est}} {
		fn := w.fn
		isTableChange := func(i ssa.Instruction) bool {
			if an.IsCallTo(i, a.cFlush) {
				return true
			}
			if mu, ok := i.(*ssa.MapUpdate); ok && (an.IsFieldLoad(mu.Map, a.linksF) || an.IsFieldLoad(mu.Map, a.byPeerF)) {
				return true
			}
			return false
		}
		c.Gate(an.GateSpec{Rule: "MUSTCALL", Construct: "transport controller link-" + w.name + " critical section wakes the link resolvers", Fn: fn,
			Sink: func(s *an.State, ins ssa.Instruction) bool {
				_, isRet := ins.(*ssa.Return)
				return isRet && s.Executed(ins, isTableChange)
			},
			Reqs: []an.Req{{Name: "broadcast() called after the tables changed", Holds: func(s *an.State, at ssa.Instruction) bool {
				var last ssa.Instruction
				s.Executed(at, func(i ssa.Instruction) bool {
					if isTableChange(i) {
						last = i
					}
					return false
				})
				if last == nil || len(fn.Params) == 0 {
					return false
				}
				// a deferred broadcast runs when the critical section ends, after every change
				if s.Executed(at, func(i ssa.Instruction) bool {
					d, ok := i.(*ssa.Defer)
					return ok && d.Call.Value == ssa.Value(fn.Params[0])
				}) {
					return true
				}
				return s.ExecutedSince(at, last, func(i ssa.Instruction) bool {
					call, ok := i.(*ssa.Call)
					return ok && call.Call.Value == ssa.Value(fn.Params[0])
				})
			}}}})
	}
	// HandleLinkLost flushes only the entry whose link is the one reported
	c.Gate(an.GateSpec{Construct: "transport controller flushes a lost link", Fn: a.lost,
		Sink: func(s *an.State, ins ssa.Instruction) bool { return an.IsCallTo(ins, a.cFlush) },
		Reqs: []an.Req{{Name: "the entry flushed holds exactly the link that was reported lost", Holds: func(s *an.State, at ssa.Instruction) bool {
			call := at.(*ssa.Call)
			el := call.Call.Args[1]
			return s.AnyFact(func(s *an.State, x, y ssa.Value, r an.Rel) bool {
				if r != an.EQ {
					return false
				}
				isElLnk := func(v ssa.Value) bool {
					u, ok := v.(*ssa.UnOp)
					if !ok {
						return false
					}
					fa, ok := u.X.(*ssa.FieldAddr)
					return ok && an.FieldOfAddr(fa) != nil && an.FieldOfAddr(fa).Origin() == a.elLnkF && s.Key(fa.X) == s.Key(el)
				}
				return (isElLnk(x) && capturedParam(s, y, a.lostOuter, 1)) || (isElLnk(y) && capturedParam(s, x, a.lostOuter, 1))
			})
		}}}})
	// the same for the deletes from the uuid table in that critical section
	c.Gate(an.GateSpec{Construct: "transport controller removes a uuid entry on link loss", Fn: a.lost,
		Sink: func(s *an.State, ins ssa.Instruction) bool {
			call, ok := ins.(*ssa.Call)
			return ok && an.BuiltinName(call) == "delete" && an.IsFieldLoad(call.Call.Args[0], a.linksF)
		},
		Reqs: []an.Req{an.FactReq("the entry's link is the one reported lost", func(s *an.State, x, y ssa.Value, r an.Rel) bool {
			isLnkLoad := func(v ssa.Value) bool {
				u, ok := v.(*ssa.UnOp)
				if !ok {
					return false
				}
				f := an.FieldOfAddr(u.X)
				return f != nil && f.Origin() == a.elLnkF
			}
			return r == an.EQ && ((isLnkLoad(x) && capturedParam(s, y, a.lostOuter, 1)) || (isLnkLoad(y) && capturedParam(s, x, a.lostOuter, 1)))
		})}})
	// flush: removes from both tables, cancels and closes on every path
	c.Gate(an.GateSpec{Rule: "MUSTCALL", Construct: "transport controller flush helper", Fn: a.flush,
		Sink: func(s *an.State, ins ssa.Instruction) bool { _, ok := ins.(*ssa.Return); return ok },
		Reqs: []an.Req{
			{Name: "removed from the uuid table", Holds: func(s *an.State, at ssa.Instruction) bool {
				return s.Executed(at, func(i ssa.Instruction) bool {
					call, ok := i.(*ssa.Call)
					return ok && an.BuiltinName(call) == "delete" && an.IsFieldLoad(call.Call.Args[0], a.linksF)
				})
			}},
			{Name: "per-peer table rewritten without the entry (or emptied)", Holds: func(s *an.State, at ssa.Instruction) bool {
				return s.Executed(at, func(i ssa.Instruction) bool {
					if call, ok := i.(*ssa.Call); ok && an.BuiltinName(call) == "delete" && an.IsFieldLoad(call.Call.Args[0], a.byPeerF) {
						return true
					}
					mu, ok := i.(*ssa.MapUpdate)
					return ok && an.IsFieldLoad(mu.Map, a.byPeerF)
				})
			}},
			{Name: "entry context cancelled", Holds: func(s *an.State, at ssa.Instruction) bool {
				return s.Executed(at, func(i ssa.Instruction) bool {
					call, ok := i.(*ssa.Call)
					if !ok {
						return false
					}
					u, isLoad := call.Call.Value.(*ssa.UnOp)
					return isLoad && an.FieldOfAddr(u.X) != nil && an.FieldOfAddr(u.X).Name() == "cancel"
				})
			}},
			{Name: "link closed", Holds: func(s *an.State, at ssa.Instruction) bool {
				return s.Executed(at, func(i ssa.Instruction) bool {
					g, ok := i.(*ssa.Go)
					if !ok {
						return false
					}
					if mc, isMC := g.Call.Value.(*ssa.MakeClosure); isMC {
						for _, b := range mc.Fn.(*ssa.Function).Blocks {
							for _, ins := range b.Instrs {
								if isInvokeOf(ins, "", "Close") {
									return true
								}
							}
						}
					}
					return g.Call.IsInvoke() && g.Call.Method.Name() == "Close"
				})
			}},
		}})
	// the per-peer removal compares entries by identity with the flushed entry
	okId := false
	for _, b := range an.ScanBlocks(a.flush) {
		for _, ins := range b.Instrs {
			if bo, ok := ins.(*ssa.BinOp); ok && bo.Op.String() == "==" {
				stf := p.NewState(a.flush)
				if an.IsParam(stf.Canon(bo.X), 1) || an.IsParam(stf.Canon(bo.Y), 1) {
					okId = true
				}
			}
		}
	}
	c.Require(okId, "PROVENANCE", "transport controller flush removes exactly the flushed entry from the per-peer list", a.flush, "", 1, "list element == el", "the per-peer list removal does not compare with the flushed entry")
	// ... and the slot that is overwritten (swap-remove) is the slot of the matching element
	c.Gate(an.GateSpec{Construct: "transport controller flush shrinks the per-peer list", Fn: a.flush,
		Sink: func(s *an.State, ins ssa.Instruction) bool {
			sl, ok := ins.(*ssa.Slice)
			return ok && sl.High != nil && sl.Low == nil && strings.HasSuffix(sl.Type().String(), "establishedLink")
		},
		Reqs: []an.Req{{Name: "the matching element's own slot was overwritten before shrinking", Holds: func(s *an.State, at ssa.Instruction) bool {
			// the index of the element that compared equal to the flushed entry on this path
			var idxKey string
			s.AnyFact(func(s *an.State, x, y ssa.Value, r an.Rel) bool {
				if r != an.EQ || !an.IsParam(s.Canon(y), 1) {
					return false
				}
				if u, ok := x.(*ssa.UnOp); ok {
					if ia, ok := u.X.(*ssa.IndexAddr); ok {
						idxKey = s.Key(ia.Index)
						return true
					}
				}
				return false
			})
			if idxKey == "" {
				return false
			}
			return s.Executed(at, func(i ssa.Instruction) bool {
				st, ok := i.(*ssa.Store)
				if !ok {
					return false
				}
				ia, ok := st.Addr.(*ssa.IndexAddr)
				return ok && s.Key(ia.Index) == idxKey && !isNilConst(st.Val)
			})
		}}}})
	// duplicate establish: no second insert for the same link object
	c.Gate(an.GateSpec{Construct: "transport controller inserts a link into the uuid table", Fn: a.est,
		Sink: func(s *an.State, ins ssa.Instruction) bool {
			mu, ok := ins.(*ssa.MapUpdate)
			return ok && an.IsFieldLoad(mu.Map, a.linksF)
		},
		Reqs: []an.Req{{Name: "no entry for this uuid, or the existing entry holds a different link (which was flushed first)", Holds: func(s *an.State, at ssa.Instruction) bool {
			for _, b := range an.ScanBlocks(a.est) {
				for _, ins := range b.Instrs {
					lk, ok := ins.(*ssa.Lookup)
					if !ok || !lk.CommaOk || !an.IsFieldLoad(lk.X, a.linksF) {
						continue
					}
					for _, r := range *lk.Referrers() {
						if e, ok := r.(*ssa.Extract); ok && e.Index == 1 && s.IsFalse(e) {
							return true
						}
					}
					differ := s.AnyFact(func(s *an.State, x, y ssa.Value, r an.Rel) bool {
						u, ok := x.(*ssa.UnOp)
						return r == an.NE && ok && an.FieldOfAddr(u.X) != nil && an.FieldOfAddr(u.X).Origin() == a.elLnkF && capturedParam(s, y, a.estOuter, 1)
					})
					flushed := s.Executed(at, func(i ssa.Instruction) bool { return an.IsCallTo(i, a.cFlush) })
					if differ && flushed {
						return true
					}
				}
			}
			return false
		}}}})
	// quic transport: a lost event is acted on only when the table still holds that very link
	qPkg := "transport/common/quic"
	qLinks := fv(c, qPkg, "Transport", "links")
	ql := one(pkgFuncsWhere(p, qPkg, func(f *ssa.Function) bool {
		if f.Signature.Recv() == nil || !isNamedPtr(f.Signature.Recv().Type(), "Transport") {
			return false
		}
		for _, b := range an.ScanBlocks(f) {
			for _, ins := range b.Instrs {
				if isInvokeOf(ins, "", "HandleLinkLost") {
					return true
				}
			}
		}
		return false
	}))
	if ql == nil || qLinks == nil {
		c.Undecided("GATE", "quic transport link-lost handling", nil, "unresolved anchor")
	} else {
		same := an.FactReq("table entry at that address is the very link that was lost", func(s *an.State, x, y ssa.Value, r an.Rel) bool {
			isEntry := func(v ssa.Value) bool {
				lk, ok := v.(*ssa.Lookup)
				return ok && an.IsFieldLoad(lk.X, qLinks)
			}
			return r == an.EQ && ((isEntry(x) && an.IsParam(y, 2)) || (isEntry(y) && an.IsParam(x, 2)))
		})
		c.Gate(an.GateSpec{Construct: "quic transport forgets a link", Fn: ql,
			Sink: func(s *an.State, ins ssa.Instruction) bool {
				call, ok := ins.(*ssa.Call)
				return ok && an.BuiltinName(call) == "delete" && an.IsFieldLoad(call.Call.Args[0], qLinks)
			}, Reqs: []an.Req{same}})
		c.Gate(an.GateSpec{Construct: "quic transport reports a link as lost", Fn: ql,
			Sink: func(s *an.State, ins ssa.Instruction) bool { return isInvokeOf(ins, "", "HandleLinkLost") }, Reqs: []an.Req{same}})
		c.LockSet(an.LockSpec{Construct: "quic transport tables (Transport.mtx)", Guard: fv(c, qPkg, "Transport", "mtx"),
			Guarded: []*types.Var{qLinks, fv(c, qPkg, "Transport", "dialers"), fv(c, qPkg, "Transport", "sessionCounter")}, Funcs: p.PkgFuncs(qPkg), Min: 10})
	}
	// every HandleLinkLost call site in the repository, for the record
	n := 0
	for _, fn := range p.AllRepoFuncs() {
		for _, b := range an.ScanBlocks(fn) {
			for _, ins := range b.Instrs {
				if ci, ok := ins.(ssa.CallInstruction); ok && ci.Common().IsInvoke() && ci.Common().Method.Name() == "HandleLinkLost" {
					n++
					c.Note("TransportHandler.HandleLinkLost call site: %s at %s", an.FuncName(fn), p.Pos(ins.Pos()))
				}
			}
		}
	}
	c.Sites(n)
	c.Require(n >= 2, "CALLARG", "HandleLinkLost call sites enumerated", nil, "", n, "call sites listed in notes", "fewer than 2 HandleLinkLost call sites found (anchor drift)")
	tcLockset(c, a)
	c.Note("not decided: equality of the reported set and the event history for all histories (a model-checking statement)")
}

func c05(c *an.Check) {
	equivCheck(c, func(f *ssa.Function) bool { return strings.Contains(an.FuncName(f), "tptaddr.dialTptAddr") })
	// "authenticated remote peer": the identity every link reports comes out of the certificate-chain check
	certChainGates(c)
	p := c.P
	const qPkg = "transport/common/quic"
	dp := p.Func(qPkg, "Transport", "DialPeer")
	if dp == nil {
		c.Undecided("GATE", "quic.Transport.DialPeer", nil, "unresolved anchor")
		return
	}
	c.Gate(an.GateSpec{Construct: "quic.Transport.DialPeer reports a link", Fn: dp,
		Sink: func(s *an.State, ins ssa.Instruction) bool {
			ret, ok := ins.(*ssa.Return)
			return ok && !s.IsNil(s.RetVal(ret, 0)) && !s.KnownNonNilErr(s.RetVal(ret, -1))
		},
		Reqs: []an.Req{an.AnyOf("the link's authenticated remote peer is the requested peer (or no peer was requested)",
			an.FactReq("link.GetRemotePeer() == requested peer", func(s *an.State, x, y ssa.Value, r an.Rel) bool {
				isRemote := func(v ssa.Value) bool {
					v = an.ConvOf(v)
					if sc := an.ResultCallTo(v, cIDString); sc != nil {
						v = s.Canon(sc.Call.Args[0])
					}
					call, ok := v.(*ssa.Call)
					if !ok {
						return false
					}
					fo := an.CallObj(call.Common())
					return fo != nil && fo.Name() == "GetRemotePeer"
				}
				isReq := func(v ssa.Value) bool {
					v = an.ConvOf(v)
					if sc := an.ResultCallTo(v, cIDString); sc != nil {
						v = s.Canon(sc.Call.Args[0])
					}
					return an.IsParam(v, 2)
				}
				return r == an.EQ && ((isRemote(x) && isReq(y)) || (isRemote(y) && isReq(x)))
			}),
			an.FactReq("requested peer is empty", func(s *an.State, x, y ssa.Value, r an.Rel) bool {
				if r != an.EQ {
					return false
				}
				if an.IsParam(an.ConvOf(x), 2) && an.IsStrConst(an.ConvOf(y), "") {
					return true
				}
				return an.IsIntConst(y, 0) && an.LenOf(s, x, func(a ssa.Value) bool { return an.IsParam(an.ConvOf(a), 2) })
			}))}})
	// the link reported is the one the per-address dialer produced
	c.EachReturn("PROVENANCE", "quic.Transport.DialPeer reports the dialer's link", dp, "link = dialer.result.Await(ctx)", func(s *an.State, ret *ssa.Return) string {
		v := s.RetVal(ret, 0)
		if s.IsNil(v) {
			return ""
		}
		found := p.DependsOn(v, func(x ssa.Value) bool {
			call, ok := x.(*ssa.Call)
			if !ok {
				return false
			}
			fo := an.CallObj(call.Common())
			return fo != nil && fo.Name() == "Await"
		})
		if !found {
			return "the reported link does not come from the dialer's result"
		}
		return ""
	})
	// a different peer at the address is a retryable condition, never a fatal one: the dialer keyed by (X, addr) keeps
	// backing off so that X is reached once it answers there
	cCAC := an.R(qPkg, "", "CheckAlreadyConnected")
	nMis := 0
	c.EachReturn("RETRY", "quic.Transport.DialPeer reports a different peer at the address as non-fatal", dp, "fatal=false on the already-connected-to-another-peer and wrong-peer-answered returns", func(s *an.State, ret *ssa.Return) string {
		mismatch := ""
		for _, call := range an.Calls(dp, cCAC) {
			if e := an.ErrResult(call, -1); e != nil && s.KnownNonNilErr(e) {
				mismatch = "the address is already connected to a different peer"
			}
		}
		if s.AnyFact(func(s *an.State, x, y ssa.Value, r an.Rel) bool {
			isRemote := func(v ssa.Value) bool {
				call, ok := s.Canon(an.ConvOf(v)).(*ssa.Call)
				if !ok {
					return false
				}
				fo := an.CallObj(call.Common())
				return fo != nil && fo.Name() == "GetRemotePeer"
			}
			return r&an.EQ == 0 && ((isRemote(x) && an.IsParam(an.ConvOf(y), 2)) || (isRemote(y) && an.IsParam(an.ConvOf(x), 2)))
		}) {
			mismatch = "a different peer answered"
		}
		if mismatch == "" {
			return ""
		}
		nMis++
		if !s.IsFalse(s.RetVal(ret, 1)) {
			return "when " + mismatch + " the dial is reported as fatal: the dialer for the requested peer stops retrying and a later request can never be satisfied"
		}
		return ""
	})
	c.Require(nMis >= 2, "RETRY", "quic.Transport.DialPeer mismatch returns found", dp, "", nMis, "both mismatch returns enumerated", "anchor drift: the already-connected / wrong-peer returns were not found")
	// controller side: a lost link restarts the dialers that were resolved with it
	a := tcResolve(c)
	if a != nil {
		okR := false
		for _, g := range an.WithClosures(a.flush) {
			for _, b := range an.ScanBlocks(g) {
				for _, ins := range b.Instrs {
					if call, ok := ins.(*ssa.Call); ok {
						if fo := an.CallObj(call.Common()); fo != nil && fo.Name() == "RestartAllRoutines" {
							okR = true
						}
					}
				}
			}
		}
		c.Require(okR, "MUSTCALL", "transport controller restarts dialers resolved with a lost link", a.flush, "", 1, "flush → linkDialers.RestartAllRoutines(filter by peer and link identity)", "losing a link does not restart the dialers that were parked on it")
		// the filter spares a dialer only because it is keyed by a peer other than the lost link's remote peer, or because it
		// holds a different link: a dialer parked on the lost link is always cleared
		nFilt := 0
		for _, g := range an.WithClosures(a.flush)[1:] {
			g := g
			if len(g.Params) != 2 || g.Signature.Results().Len() != 1 || !isBoolType(g.Signature.Results().At(0).Type()) {
				continue
			}
			nFilt++
			fromKey := func(v ssa.Value) bool {
				return p.DependsOn(v, func(x ssa.Value) bool { return x == ssa.Value(g.Params[0]) })
			}
			fromDialer := func(v ssa.Value) bool {
				return p.DependsOn(v, func(x ssa.Value) bool { return x == ssa.Value(g.Params[1]) })
			}
			lostPeer := func(v ssa.Value) bool {
				return p.DependsOn(v, func(x ssa.Value) bool {
					call, ok := x.(*ssa.Call)
					return ok && call.Call.IsInvoke() && call.Call.Method.Name() == "GetRemotePeer" && call.Parent() == a.flush
				})
			}
			lostEntry := func(v ssa.Value) bool {
				return p.DependsOn(v, func(x ssa.Value) bool { return x == ssa.Value(a.flush.Params[1]) })
			}
			c.Gate(an.GateSpec{Construct: "transport controller dialer-restart filter spares a dialer", Fn: g,
				Sink: func(s *an.State, ins ssa.Instruction) bool {
					ret, ok := ins.(*ssa.Return)
					return ok && len(ret.Results) == 1 && isFalseConst(s.RetVal(ret, 0))
				},
				Reqs: []an.Req{an.FactReq("dialer keyed by another peer than the lost link's, or holding another link", func(s *an.State, x, y ssa.Value, r an.Rel) bool {
					if r&an.EQ != 0 {
						return false
					}
					for _, pr := range [][2]ssa.Value{{x, y}, {y, x}} {
						if fromKey(pr[0]) && !lostPeer(pr[0]) && lostPeer(pr[1]) && !fromKey(pr[1]) {
							return true
						}
						if fromDialer(pr[0]) && !lostEntry(pr[0]) && lostEntry(pr[1]) && !fromDialer(pr[1]) {
							return true
						}
					}
					return false
				})}})
		}
		c.Require(nFilt == 1, "MUSTCALL", "transport controller dialer-restart filter found", a.flush, "", nFilt, "one filter closure", "anchor drift: expected exactly one (key, dialer) -> bool filter closure in the flush helper")
	}
	// the per-address dialer always unregisters itself when it finishes (success or failure), so a later dial of
	// the same address starts a fresh attempt instead of re-reading a stale result
	dialersF := fv(c, qPkg, "Transport", "dialers")
	exe := one(pkgFuncsWhere(p, qPkg, func(f *ssa.Function) bool {
		return f.Signature.Recv() != nil && isNamedPtr(f.Signature.Recv().Type(), "Dialer") && callsAny(f, an.R(qPkg, "Transport", "HandleSession"))
	}))
	if exe == nil || dialersF == nil {
		c.Undecided("MUSTCALL", "quic dialer unregisters itself on every exit", nil, "unresolved anchor")
	} else {
		isCleanupDefer := func(i ssa.Instruction) bool {
			d, ok := i.(*ssa.Defer)
			if !ok {
				return false
			}
			mc, ok := d.Call.Value.(*ssa.MakeClosure)
			if !ok {
				return false
			}
			g := mc.Fn.(*ssa.Function)
			del, ident := false, false
			for _, b := range an.ScanBlocks(g) {
				for _, ins := range b.Instrs {
					if call, ok := ins.(*ssa.Call); ok && an.BuiltinName(call) == "delete" && an.IsFieldLoad(call.Call.Args[0], dialersF) {
						del = true
					}
					if bo, ok := ins.(*ssa.BinOp); ok && bo.Op.String() == "==" {
						if _, isLk := bo.X.(*ssa.Extract); isLk {
							ident = true
						}
						if _, isLk := bo.Y.(*ssa.Extract); isLk {
							ident = true
						}
					}
				}
			}
			return del && ident
		}
		c.Gate(an.GateSpec{Rule: "MUSTCALL", Construct: "quic dialer unregisters itself on every exit", Fn: exe,
			Sink: func(s *an.State, ins ssa.Instruction) bool { _, ok := ins.(*ssa.Return); return ok },
			Reqs: []an.Req{{Name: "a deferred cleanup that removes this dialer (identity-checked) from Transport.dialers is armed", Holds: func(s *an.State, at ssa.Instruction) bool {
				return s.Executed(at, isCleanupDefer)
			}}}})
	}
	c.Note("not decided: retry timing/backoff; which peer answers at an address is a runtime fact")
}

func init() {
	register(&Def{ID: "C04", Run: c04,
		Explain:     "Decides on SSA: the controller inserts a link into its tables only past (remote peer != local peer), keyed by the reported link's own uuid / authenticated remote peer, wrapping that very link; a self-link is closed; a link lookup reads linksByPeerID[requested target] and yields values only when the request has no source constraint or the source equals the transport's peer; both tables are mutated only in the establish / lost critical sections and the flush helper (WHO) and only under the controller's broadcast lock (LOCKSET); a mounted stream's peer is its link's remote peer, set only by the constructor. \"Authenticated remote peer\": certChainGates (C03's certificate-chain obligations) are part of this check; EQUIV obligations of establishLinkWithPeer.",
		NotCov:      "interleaving-level outcomes; authentication of the remote peer itself is C03.",
		Assumptions: commonAssumptions})
	register(&Def{ID: "C05", Run: c05,
		Explain:     "Decides on SSA: quic.Transport.DialPeer returns a non-nil link with a nil error only on paths where link.GetRemotePeer() was compared equal to the requested peer (or no peer was requested), the link being the per-address dialer's result; the controller's flush helper restarts dialers resolved with a lost link. Because the controller's linkDialer stores exactly DialPeer's result, this one obligation also carries 'a dialer keyed by X is never parked on an impostor's link'. (RETRY) the already-connected-to-another-peer and wrong-peer-answered returns of DialPeer are non-fatal, so the dialer for the requested peer keeps backing off; (MUSTCALL) the per-address dialer unregisters itself on every exit. certChainGates shared with C03; EQUIV obligations of the DialTptAddr directive. (GATE) the dialer-restart filter spares a dialer only because its key names another peer than the lost link's remote peer, or because it holds a different link.",
		NotCov:      "retry timing and which peer answers at an address (runtime facts).",
		Assumptions: commonAssumptions})
	register(&Def{ID: "C06", Run: c06,
		Explain:     "Decides on SSA (structural part): in the controller's HandleLinkLost every flush and every uuid-table delete is dominated by (entry.lnk == reported link) — fast path included; the flush helper removes the entry from both tables, cancels it and closes the link on every path, removing exactly that entry from the per-peer list; HandleLinkEstablished inserts only when no entry exists for the uuid or the existing entry holds a different link that was flushed first (duplicate reports do not double-insert); the quic transport deletes its table entry and reports HandleLinkLost only when the entry at that address is the very link that was lost; tables only under their locks (LOCKSET); all HandleLinkLost call sites are listed. (PROVENANCE) the de-duplicating resolver that reports EstablishLinkWithPeer values keys an entry by the link's own uuid, compares entries by identity and yields the entry's mounted link; (MUSTCALL) every critical section that changes the link tables (established / lost) calls broadcast() after the change, so resolvers never keep reporting a lost link. scrc.Crc64 (link/transport uuid) resets its shared hasher on every call.",
		NotCov:      "equality of the reported link set and the event history for all histories and interleavings (a model-checking statement).",
		Assumptions: commonAssumptions})
}
