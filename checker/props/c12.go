package props

import (
	"fmt"
	"go/token"
	"sort"
	"strings"

	"bifrostverify/an"

	"golang.org/x/tools/go/ssa"
)

const (
	blake3Pkg = "github.com/zeebo/blake3"
	chachaPkg = "golang.org/x/crypto/chacha20poly1305"
)

var (
	cNewDeriveKey = an.X(blake3Pkg, "", "NewDeriveKey")
	cPubToCurve   = an.R("util/extra25519", "", "PublicKeyToCurve25519")
	cPrivToCurve  = an.R("util/extra25519", "", "PrivateKeyToCurve25519")
	cNewKeySeed   = an.X("crypto/ed25519", "", "NewKeyFromSeed")
	cEdPublic     = an.X("crypto/ed25519", "PrivateKey", "Public")
)

// lenAtLeast: a fact on the path gives len(<value satisfying pred>) >= n.
func lenAtLeast(name string, n int64, pred func(s *an.State, v ssa.Value) bool) an.Req {
	return an.FactReq(name, func(s *an.State, x, y ssa.Value, r an.Rel) bool {
		k, ok := y.(*ssa.Const)
		if !ok || k.Value == nil || !an.LenOf(s, x, func(a ssa.Value) bool { return pred(s, a) }) {
			return false
		}
		c := k.Int64()
		switch r {
		case an.EQ, an.GE:
			return c >= n
		case an.GT:
			return c+1 >= n
		}
		return false
	})
}

// deriveKeyContexts maps the constant prefix of every blake3.NewDeriveKey(prefix + ctx) call to the call and
// reports whether the variable part is the given parameter.
func deriveKeyContexts(fn *ssa.Function, ctxParam int) (map[string]*ssa.Call, bool) {
	out := map[string]*ssa.Call{}
	ok := true
	for _, call := range an.Calls(fn, cNewDeriveKey) {
		add, isAdd := call.Call.Args[0].(*ssa.BinOp)
		if !isAdd || add.Op != token.ADD {
			ok = false
			continue
		}
		pre, isC := an.StrConstOf(add.X)
		if !isC || !an.IsParam(add.Y, ctxParam) {
			ok = false
			continue
		}
		out[pre] = call
	}
	return out, ok
}

// hasherWrites lists, in program order, the operands written to the hasher returned by mk.
func hasherWrites(fn *ssa.Function, mk *ssa.Call) []ssa.Value {
	var out []ssa.Value
	for _, b := range an.ScanBlocks(fn) {
		for _, ins := range b.Instrs {
			call, ok := ins.(*ssa.Call)
			if !ok {
				continue
			}
			fo := an.CallObj(call.Common())
			if fo == nil || fo.Name() != "Write" {
				continue
			}
			args := an.CallArgs(call.Common())
			if len(args) == 2 && args[0] == ssa.Value(mk) {
				out = append(out, args[1])
			}
		}
	}
	return out
}

func isAEADCall(ins ssa.Instruction, m string) bool {
	call, ok := ins.(*ssa.Call)
	return ok && call.Call.IsInvoke() && call.Call.Method.Name() == m && strings.HasSuffix(call.Call.Value.Type().String(), "cipher.AEAD")
}

func c12(c *an.Check) {
	lowOrderClassifier(c)
	noUseAfterScrub(c, []*ssa.Function{c.P.Func("peer", "", "EncryptToEd25519"), c.P.Func("peer", "", "DecryptWithEd25519")}, map[string]int{"Decode": 0})
	ed25519PrivateKeyDecodeGates(c)
	p := c.P
	enc := p.Func("peer", "", "EncryptToEd25519")
	dec := p.Func("peer", "", "DecryptWithEd25519")
	if enc == nil || dec == nil {
		c.Undecided("GATE", "peer.DecryptWithEd25519", nil, "unresolved anchor")
		return
	}
	// ---- R1: plaintext is returned only past every check
	var openCall *ssa.Call
	for _, b := range an.ScanBlocks(dec) {
		for _, ins := range b.Instrs {
			if isAEADCall(ins, "Open") {
				openCall = ins.(*ssa.Call)
			}
		}
	}
	p2c := an.Calls(dec, cPubToCurve)
	c.Gate(an.GateSpec{Construct: "peer.DecryptWithEd25519 plaintext return", Fn: dec, Sink: successReturn, Reqs: []an.Req{
		an.FactReq("len(private key)==64", func(s *an.State, x, y ssa.Value, r an.Rel) bool {
			return r == an.EQ && an.IsIntConst(y, 64) && an.LenOf(s, x, func(a ssa.Value) bool { return an.IsParam(a, 0) })
		}),
		lenAtLeast("len(ciphertext)>=36", 36, func(s *an.State, v ssa.Value) bool { return an.IsParam(v, 2) }),
		an.CallOK("aes.NewCipher ok", an.X("crypto/aes", "", "NewCipher")),
		{Name: "both curve conversions valid", Holds: func(s *an.State, at ssa.Instruction) bool {
			if len(p2c) != 2 {
				return false
			}
			for _, call := range p2c {
				if v := an.ErrResult(call, 1); v == nil || !s.IsTrue(v) {
					return false
				}
			}
			return true
		}},
		an.CallOK("ecdh NewPublicKey ok", an.X("crypto/ecdh", "Curve", "NewPublicKey")),
		an.CallOK("ecdh NewPrivateKey ok", an.X("crypto/ecdh", "Curve", "NewPrivateKey")),
		an.CallOK("ECDH ok", an.X("crypto/ecdh", "PrivateKey", "ECDH")),
		an.CallOK("chacha20poly1305.NewX ok", an.X(chachaPkg, "", "NewX")),
		{Name: "AEAD.Open ok", Holds: func(s *an.State, at ssa.Instruction) bool {
			return openCall != nil && s.IsNil(an.ErrResult(openCall, -1))
		}},
		an.CallOK("s2.Decode ok", an.X("github.com/klauspost/compress/s2", "", "Decode")),
		an.FactReq("ConstantTimeCompare(expected, received) != 0", func(s *an.State, x, y ssa.Value, r an.Rel) bool {
			call := an.ResultCallTo(x, an.X("crypto/subtle", "", "ConstantTimeCompare"))
			// ConstantTimeCompare returns 1 for equal and 0 otherwise: "!= 0" and "== 1" are the same test
			isNe0 := an.IsIntConst(y, 0) && r&an.EQ == 0
			isEq1 := an.IsIntConst(y, 1) && r == an.EQ
			if call == nil || !(isNe0 || isEq1) || len(p2c) != 2 {
				return false
			}
			a, b := s.Canon(call.Call.Args[0]), s.Canon(call.Call.Args[1])
			isRes := func(v ssa.Value, c *ssa.Call) bool {
				e, ok := v.(*ssa.Extract)
				return ok && e.Tuple == ssa.Value(c) && e.Index == 0
			}
			return (isRes(a, p2c[0]) && isRes(b, p2c[1])) || (isRes(a, p2c[1]) && isRes(b, p2c[0]))
		}),
	}})
	c.EachReturn("PROVENANCE", "peer.DecryptWithEd25519 returns the decompressed AEAD plaintext", dec, "result = s2.Decode(Open(...))", func(s *an.State, ret *ssa.Return) string {
		if s.KnownNonNilErr(s.RetVal(ret, -1)) {
			return ""
		}
		d := an.ResultCallTo(s.RetVal(ret, 0), an.X("github.com/klauspost/compress/s2", "", "Decode"))
		if d == nil || openCall == nil || an.ErrResult(openCall, 0) == nil || s.Key(d.Call.Args[1]) != s.Key(an.ErrResult(openCall, 0)) {
			return "the returned plaintext is not the decompression of what AEAD.Open authenticated"
		}
		return ""
	})
	// ---- MIRROR: the three KDF contexts, what is written to each, nonce and associated data
	ectx, ok1 := deriveKeyContexts(enc, 1)
	dctx, ok2 := deriveKeyContexts(dec, 1)
	keys := func(m map[string]*ssa.Call) []string {
		var o []string
		for k := range m {
			o = append(o, k)
		}
		sort.Strings(o)
		return o
	}
	same := ok1 && ok2 && len(ectx) == 3 && strings.Join(keys(ectx), "|") == strings.Join(keys(dctx), "|")
	c.Require(same, "MIRROR", "peer encrypt/decrypt derive keys under the same three context strings, each bound to the caller's context", dec, "", len(ectx)+len(dctx),
		fmt.Sprintf("contexts %q in both, each concatenated with the context parameter", keys(ectx)), fmt.Sprintf("encrypt uses %q, decrypt uses %q (or a context is not prefix+context parameter)", keys(ectx), keys(dctx)))
	if same {
		okW := true
		det := ""
		for _, k := range keys(ectx) {
			ew, dw := hasherWrites(enc, ectx[k]), hasherWrites(dec, dctx[k])
			if len(ew) != len(dw) || len(ew) == 0 {
				okW, det = false, fmt.Sprintf("context %q: %d writes when encrypting, %d when decrypting", k, len(ew), len(dw))
			}
		}
		c.Require(okW, "MIRROR", "peer encrypt/decrypt feed each KDF the same number of operands", dec, "", 6, "write sequences have equal shape per context", det)
		// role checks on the decrypt side: the prefix KDF binds the recipient key and ciphertext[:4]; the seed KDF binds the recovered plaintext and the recipient key
		stD := p.NewState(dec)
		isRecipientPub := func(fn *ssa.Function, v ssa.Value) bool {
			return p.DependsOn(v, func(x ssa.Value) bool { return an.ResultCallTo(x, cEdPublic) != nil || (fn == enc && an.IsParam(x, 0)) })
		}
		okRoles := true
		why := ""
		for k, call := range dctx {
			w := hasherWrites(dec, call)
			switch {
			case strings.HasSuffix(k, "prefix "):
				sl, isSl := w[len(w)-1].(*ssa.Slice)
				if !(len(w) == 2 && isRecipientPub(dec, w[0]) && isSl && an.IsParam(sl.X, 2) && an.IsIntConst(sl.High, 4)) {
					okRoles, why = false, "prefix KDF is not fed (recipient public key, ciphertext[:4])"
				}
			case strings.HasSuffix(k, "nonce "):
				if !(len(w) == 1 && p.DependsOn(w[0], func(x ssa.Value) bool { return rootIsCiphertextCopy(p, dec, x) })) {
					okRoles, why = false, "nonce KDF is not fed the per-message public key recovered from the ciphertext"
				}
			default:
				if !(len(w) == 2 && an.ResultCallTo(stD.Canon(w[0]), an.X("github.com/klauspost/compress/s2", "", "Decode")) != nil && isRecipientPub(dec, w[1])) {
					okRoles, why = false, "seed KDF is not fed (recovered plaintext, recipient public key)"
				}
			}
		}
		for k, call := range ectx {
			w := hasherWrites(enc, call)
			switch {
			case strings.HasSuffix(k, "prefix "):
				if !(len(w) == 2 && isRecipientPub(enc, w[0])) {
					okRoles, why = false, "encrypt: prefix KDF is not fed the recipient key first"
				}
			case strings.HasSuffix(k, "nonce "):
				if !(len(w) == 1 && p.DependsOn(w[0], func(x ssa.Value) bool { return an.ResultCallTo(x, cEdPublic) != nil })) {
					okRoles, why = false, "encrypt: nonce KDF is not fed the per-message public key"
				}
			default:
				if !(len(w) == 2 && an.IsParam(an.Strip(w[0]), 2) && an.IsParam(an.Strip(w[1]), 0)) {
					okRoles, why = false, "encrypt: seed KDF is not fed (message, recipient public key)"
				}
			}
		}
		c.Require(okRoles, "MIRROR", "peer KDF operands have mirrored roles", dec, "", 6, "seed(plaintext, recipient key) / nonce(message key) / prefix(recipient key, nonce[:4])", why)
	}
	// AEAD: nonce derives from the nonce KDF, AD is the per-message public key, on both sides
	var sealCall *ssa.Call
	for _, b := range an.ScanBlocks(enc) {
		for _, ins := range b.Instrs {
			if isAEADCall(ins, "Seal") {
				sealCall = ins.(*ssa.Call)
			}
		}
	}
	okA := sealCall != nil && openCall != nil
	if okA {
		nonceFrom := func(fn *ssa.Function, ctxs map[string]*ssa.Call, v ssa.Value) bool {
			for k, mk := range ctxs {
				if strings.HasSuffix(k, "nonce ") {
					return p.DependsOn(v, func(x ssa.Value) bool {
						call, ok := x.(*ssa.Call)
						if !ok {
							return false
						}
						fo := an.CallObj(call.Common())
						args := an.CallArgs(call.Common())
						return fo != nil && fo.Name() == "Sum" && len(args) > 0 && args[0] == ssa.Value(mk)
					})
				}
			}
			return false
		}
		okA = nonceFrom(enc, ectx, sealCall.Call.Args[1]) && nonceFrom(dec, dctx, openCall.Call.Args[1]) &&
			p.DependsOn(sealCall.Call.Args[3], func(x ssa.Value) bool { return an.ResultCallTo(x, cEdPublic) != nil }) &&
			p.DependsOn(openCall.Call.Args[3], func(x ssa.Value) bool { return rootIsCiphertextCopy(p, dec, x) }) &&
			an.IsParam(sealCall.Call.Args[2], 2) == false // message is compressed first
		sl, isSl := openCall.Call.Args[2].(*ssa.Slice)
		okA = okA && isSl && an.IsParam(sl.X, 2) && an.IsIntConst(sl.Low, 36)
	}
	c.Require(okA, "MIRROR", "peer Seal/Open agree on nonce source, associated data (per-message key) and ciphertext offset 36", dec, "", 2, "Seal(prefix, nonceKDF, s2(msg), msgPub) / Open(nil, nonceKDF, ciphertext[36:], msgPub)", "Seal and Open disagree on nonce derivation, associated data or the ciphertext offset")
	// wrappers dispatch to the Ed25519 implementation with the caller's context and data
	for _, w := range []struct {
		fn     string
		callee an.Callee
	}{{"EncryptToPubKey", an.R("peer", "", "EncryptToEd25519")}, {"DecryptWithPrivKey", an.R("peer", "", "DecryptWithEd25519")}} {
		f := p.Func("peer", "", w.fn)
		okk := false
		if f != nil {
			cs := an.Calls(f, w.callee)
			okk = len(cs) == 1 && an.IsParam(cs[0].Call.Args[1], 1) && an.IsParam(cs[0].Call.Args[2], 2)
		}
		c.Require(okk, "PROVENANCE", "peer."+w.fn+" forwards the caller's context and data", f, "", 1, "callee(key, context, data)", "wrapper does not forward its context/data parameters unchanged")
	}
	// ---- PANIC
	peerEncryptTotality(c, "peer public-key encryption totality")
	decryptInputUntouched(c)
	// NILDEREF: (pointer, error) results — curve points, ECDH keys, ciphers — are dereferenced only behind err == nil
	{
		fns := []*ssa.Function{enc, dec, p.Func("peer", "", "EncryptToPubKey"), p.Func("peer", "", "DecryptWithPrivKey")}
		for _, f := range p.PkgFuncs("util/extra25519") {
			if f.Parent() == nil {
				fns = append(fns, f)
			}
		}
		n := c.NilDerefGuard("NILDEREF", "(value, error) results dereferenced only when err==nil", fns, nil)
		c.Require(n >= 6, "NILDEREF", "public-key encryption (value, error) call sites found", dec, "", n, "call sites enumerated", "anchor drift: too few (value, error) calls found in the encrypt/decrypt path")
	}
	// LENGUARD: the too-short rejection must not reach genuine ciphertexts. The shortest genuine ciphertext (empty
	// message) is header + AEAD tag + 1 byte of s2 framing; header = the body offset used by Open.
	{
		hdr := int64(0)
		isCT := func(v ssa.Value) bool { return an.IsParam(v, 2) }
		for _, b := range an.ScanBlocks(dec) {
			for _, ins := range b.Instrs {
				if sl, ok := ins.(*ssa.Slice); ok && isCT(sl.X) && sl.Low != nil {
					if k, ok := sl.Low.(*ssa.Const); ok && k.Int64() > hdr {
						hdr = k.Int64()
					}
				}
			}
		}
		const aeadOverhead, s2Empty = 16, 1
		minGenuine := hdr + aeadOverhead + s2Empty
		st := p.NewState(dec)
		nG, badG := 0, ""
		for _, b := range an.ScanBlocks(dec) {
			iff, ok := b.Instrs[len(b.Instrs)-1].(*ssa.If)
			if !ok {
				continue
			}
			bo, ok := iff.Cond.(*ssa.BinOp)
			if !ok {
				continue
			}
			var k *ssa.Const
			flipped := false
			if kk, isK := bo.Y.(*ssa.Const); isK && an.LenOf(st, bo.X, isCT) {
				k = kk
			} else if kk, isK := bo.X.(*ssa.Const); isK && an.LenOf(st, bo.Y, isCT) {
				k, flipped = kk, true
			}
			if k == nil {
				continue
			}
			// which successor rejects (returns a non-nil error immediately)?
			for si, succ := range b.Succs {
				ret, isRet := succ.Instrs[len(succ.Instrs)-1].(*ssa.Return)
				if !isRet || len(ret.Results) != 2 {
					continue
				}
				if kk, isK := ret.Results[1].(*ssa.Const); isK && kk.Value == nil {
					continue // nil error: not a rejection
				}
				nG++
				want := si == 0
				for L := int64(0); L <= minGenuine+64; L++ {
					a, bb := L, k.Int64()
					if flipped {
						a, bb = bb, a
					}
					var holds bool
					switch bo.Op {
					case token.LSS:
						holds = a < bb
					case token.LEQ:
						holds = a <= bb
					case token.GTR:
						holds = a > bb
					case token.GEQ:
						holds = a >= bb
					case token.EQL:
						holds = a == bb
					case token.NEQ:
						holds = a != bb
					}
					if holds == want && L >= minGenuine {
						badG = fmt.Sprintf("the length guard at %s rejects %d-byte ciphertexts, but genuine ciphertexts start at %d bytes (header %d + tag %d + s2 frame %d): short messages no longer round-trip", p.Pos(bo.Pos()), L, minGenuine, hdr, aeadOverhead, s2Empty)
						break
					}
				}
			}
		}
		c.Require(badG == "" && nG >= 1 && hdr > 0, "LENGUARD", "peer.DecryptWithEd25519 rejects as too short only lengths below the shortest genuine ciphertext", dec, "", nG, fmt.Sprintf("length rejections only below %d bytes", minGenuine), func() string {
			if badG != "" {
				return badG
			}
			return "no length guard on the ciphertext found (anchor drift)"
		}())
	}
	thoroughCallers(c, "public-key decryption", 0, []string{"peer", "envelope", "transport/webrtc"}, an.R("peer", "", "DecryptWithPrivKey"), an.R("peer", "", "DecryptWithEd25519"))
	c.Trust("XChaCha20-Poly1305 (tag = 16 bytes), AES, X25519, BLAKE3, s2 (empty input encodes to 1 byte) behave as documented", "filippo.io/edwards25519 SetBytes/BytesMontgomery")
}

// rootIsCiphertextCopy: x is the local [32]byte array that receives copy(arr[:], ciphertext[4:]).
func rootIsCiphertextCopy(p *an.Prog, dec *ssa.Function, x ssa.Value) bool {
	a, ok := x.(*ssa.Alloc)
	if !ok {
		return false
	}
	for _, b := range an.ScanBlocks(dec) {
		for _, ins := range b.Instrs {
			if cc, ok := ins.(*ssa.Call); ok && an.BuiltinName(cc) == "copy" {
				if dst, ok := cc.Call.Args[0].(*ssa.Slice); ok && dst.X == ssa.Value(a) {
					if src, ok := cc.Call.Args[1].(*ssa.Slice); ok && an.IsParam(src.X, 2) && an.IsIntConst(src.Low, 4) {
						return true
					}
				}
			}
		}
	}
	return false
}

func init() {
	register(&Def{ID: "C12", Run: c12,
		Explain:     "Decides on SSA: (R1) DecryptWithEd25519 returns plaintext only past {len(key)==64, len(ciphertext)>=36, AES key ok, both Ed→Curve conversions valid, X25519 keys/ECDH ok, AEAD.Open ok, s2.Decode ok, ConstantTimeCompare(expected message key, received message key)!=0} and what it returns is s2.Decode of what Open authenticated; (MIRROR) encrypt and decrypt derive keys under the same three constant prefixes each concatenated with the caller's context, feed each KDF operands of mirrored roles, take the nonce from the nonce KDF, use the per-message public key as associated data, and split the ciphertext at offset 36; the PubKey/PrivKey wrappers forward context and data; (PANIC) every compiler-unproven bounds check, unchecked assertion and length-preconditioned crypto call (ed25519 Public/NewKeyFromSeed, AEAD nonce, AES block) in these functions is discharged by a path guard, a fixed-length producer or a reviewed reason. (NILDEREF) (pointer, error) results in the encrypt/decrypt path and util/extra25519 are dereferenced only behind err==nil; (LENGUARD) the too-short rejection only covers lengths below header+tag+s2 frame (53), the shortest genuine ciphertext. (OWNERSHIP) DecryptWithEd25519 never writes through its ciphertext parameter; (ORDER) no secret buffer is read after it was wiped; classifier and private-key decode gates shared.",
		NotCov:      "round-trip equality and wrong-key/context rejection as values (they follow from the mirror under the trusted AEAD/KDF); s2/AEAD internals.",
		Assumptions: commonAssumptions})
}

// peerEncryptTotality: PANIC obligations of the public-key encryption chain (shared by C12 and by properties whose
// decoders call into it, e.g. envelope unsealing).
func peerEncryptTotality(c *an.Check, construct string) {
	p := c.P
	enc := p.Func("peer", "", "EncryptToEd25519")
	dec := p.Func("peer", "", "DecryptWithEd25519")
	if enc == nil || dec == nil {
		c.Undecided("PANIC", construct, nil, "unresolved anchor")
		return
	}
	if bce := peerBCE(c, "./peer", "./util/extra25519"); bce != nil {
		fl := func(n int64, what string) func(s *an.State, v ssa.Value) (bool, string) {
			return func(s *an.State, v ssa.Value) (bool, string) {
				if l, ok := s.FixedLen(v); ok && l == n {
					return true, fmt.Sprintf("%s has fixed length %d", what, n)
				}
				return false, fmt.Sprintf("%s is not known to have length %d", what, n)
			}
		}
		pre := []an.Precond{
			{Callee: cEdPublic, Desc: "ed25519.PrivateKey.Public needs a 64-byte key", Holds: func(s *an.State, call *ssa.Call) (bool, string) {
				k := call.Call.Args[0]
				if ok, w := fl(64, "key")(s, k); ok {
					return true, w
				}
				if s.AnyFact(func(s *an.State, x, y ssa.Value, r an.Rel) bool {
					return r == an.EQ && an.IsIntConst(y, 64) && an.LenOf(s, x, func(a ssa.Value) bool { return s.Key(a) == s.Key(k) })
				}) {
					return true, "len(key)==64 guard on this path"
				}
				return false, "key length is not established as 64"
			}},
			{Callee: cNewKeySeed, Desc: "ed25519.NewKeyFromSeed needs a 32-byte seed", Holds: func(s *an.State, call *ssa.Call) (bool, string) { return fl(32, "seed")(s, call.Call.Args[0]) }},
			{Invoke: "Open", Desc: "XChaCha20-Poly1305 Open needs a 24-byte nonce", Holds: func(s *an.State, call *ssa.Call) (bool, string) { return fl(24, "nonce")(s, call.Call.Args[1]) }},
			{Invoke: "Seal", Desc: "XChaCha20-Poly1305 Seal needs a 24-byte nonce", Holds: func(s *an.State, call *ssa.Call) (bool, string) { return fl(24, "nonce")(s, call.Call.Args[1]) }},
			{Invoke: "Decrypt", Desc: "cipher.Block.Decrypt needs >= 16 bytes", Holds: func(s *an.State, call *ssa.Call) (bool, string) {
				l, ok := s.FixedLen(call.Call.Args[1])
				return ok && l >= 16, "fixed-size block operand"
			}},
			{Invoke: "Encrypt", Desc: "cipher.Block.Encrypt needs >= 16 bytes", Holds: func(s *an.State, call *ssa.Call) (bool, string) {
				l, ok := s.FixedLen(call.Call.Args[1])
				return ok && l >= 16, "fixed-size block operand"
			}},
		}
		fns := []*ssa.Function{enc, dec, p.Func("peer", "", "EncryptToPubKey"), p.Func("peer", "", "DecryptWithPrivKey"), p.Func("util/extra25519", "", "PublicKeyToCurve25519"), p.Func("util/extra25519", "", "PrivateKeyToCurve25519")}
		c.Totality(an.PanicSpec{Construct: construct, Funcs: fns, BCE: bce, Min: 6, Preconds: pre, Reviewed: map[string]string{
			"peer.EncryptToEd25519: bounds msgPrivKeyCurve25519[:32]":        "PrivateKeyToCurve25519 returns a 64-byte SHA-512 digest",
			"peer.DecryptWithEd25519: bounds tPrivKeyCurve25519[:32]":        "PrivateKeyToCurve25519 returns a 64-byte SHA-512 digest",
			"peer.EncryptToEd25519: assert to ed25519.PublicKey":             "crypto/ed25519 documents PrivateKey.Public() to return ed25519.PublicKey",
			"peer.DecryptWithEd25519: assert to ed25519.PublicKey":           "crypto/ed25519 documents PrivateKey.Public() to return ed25519.PublicKey",
			"util/extra25519.PrivateKeyToCurve25519: bounds privateKey[:32]": "callers pass ed25519 private keys (64 bytes): DecryptWithEd25519 guards len==64, EncryptToEd25519/DeriveKey pass NewKeyFromSeed results or typed std keys",
			"util/extra25519.PrivateKeyToCurve25519: bounds digest[0]":       "digest is a SHA-512 sum (64 bytes)",
			"util/extra25519.PrivateKeyToCurve25519: bounds digest[31]":      "digest is a SHA-512 sum (64 bytes)",
		}})
	}
}

// decryptInputUntouched: DecryptWithEd25519 never writes through its ciphertext parameter (no store, copy, in-place
// cipher call or scrub whose destination aliases it): callers keep the ciphertext (an envelope's grant, a queued signal)
// and decrypt it again later.
func decryptInputUntouched(c *an.Check) {
	p := c.P
	dec := p.Func("peer", "", "DecryptWithEd25519")
	if dec == nil {
		c.Undecided("OWNERSHIP", "peer.DecryptWithEd25519 leaves its input untouched", nil, "unresolved anchor")
		return
	}
	aliasesInput := func(v ssa.Value) bool {
		for r := range an.AliasRoots(v) {
			if pr, ok := r.(*ssa.Parameter); ok && an.IsParam(pr, 2) {
				return true
			}
		}
		return false
	}
	n, bad := 0, ""
	for _, g := range an.WithClosures(dec) {
		for _, b := range an.ScanBlocks(g) {
			for _, ins := range b.Instrs {
				switch x := ins.(type) {
				case *ssa.Store:
					n++
					if aliasesInput(x.Addr) {
						bad = fmt.Sprintf("a store at %s writes into the caller's ciphertext", p.Pos(x.Pos()))
					}
				case *ssa.Call, *ssa.Defer:
					cc := x.(ssa.CallInstruction).Common()
					var dst []ssa.Value
					if bi, ok := cc.Value.(*ssa.Builtin); ok && bi.Name() == "copy" {
						dst = append(dst, cc.Args[0])
					} else if cc.IsInvoke() && (cc.Method.Name() == "Decrypt" || cc.Method.Name() == "Encrypt" || cc.Method.Name() == "XORKeyStream" || cc.Method.Name() == "Open" || cc.Method.Name() == "Seal") {
						dst = append(dst, cc.Args[0])
					} else if fo := an.CallObj(cc); fo != nil && fo.Name() == "Scrub" && len(cc.Args) > 0 {
						dst = append(dst, cc.Args[0])
					}
					for _, d := range dst {
						n++
						if aliasesInput(d) {
							bad = fmt.Sprintf("the call at %s writes into (or wipes) storage that aliases the caller's ciphertext: a second decryption of the same ciphertext fails", p.Pos(ins.Pos()))
						}
					}
				}
			}
		}
	}
	c.Require(bad == "" && n >= 5, "OWNERSHIP", "peer.DecryptWithEd25519 leaves the caller's ciphertext untouched", dec, "", n, "no store / copy / in-place cipher call / scrub has a destination aliasing the ciphertext parameter", bad)
}
