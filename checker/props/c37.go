package props

import (
	"fmt"
	"go/token"
	"go/types"
	"sort"
	"strings"

	"bifrostverify/an"

	"golang.org/x/tools/go/ssa"
)

const dirPkg = "github.com/aperturerobotics/controllerbus/directive"

func ifaceMethods(t types.Type) map[string]*types.Func {
	out := map[string]*types.Func{}
	it, ok := t.Underlying().(*types.Interface)
	if !ok {
		return out
	}
	for i := 0; i < it.NumMethods(); i++ {
		out[it.Method(i).Name()] = it.Method(i)
	}
	return out
}

func c37(c *an.Check) {
	equivCheck(c, nil)
	dialDirectiveFreshOpts(c)
}

// equivCheck runs the EQUIV obligations over all directive IsEquivalent implementations (only == nil) or over those
// selected by only (other properties that rest on one directive's de-duplication).
func equivCheck(c *an.Check, only func(*ssa.Function) bool) {
	p := c.P
	dp := p.All[dirPkg]
	if dp == nil || dp.Types == nil {
		c.Undecided("EQUIV", "controllerbus directive package", nil, "unresolved anchor: directive package not loaded")
		return
	}
	base := map[string]bool{}
	for _, n := range dp.Types.Scope().Names() {
		if tn, ok := dp.Types.Scope().Lookup(n).(*types.TypeName); ok {
			for m := range ifaceMethods(tn.Type()) {
				base[m] = true
			}
		}
	}
	dirIface, _ := dp.Types.Scope().Lookup("Directive").Type().Underlying().(*types.Interface)
	// all IsEquivalent implementations in the repository (non-example packages)
	var impls []*ssa.Function
	for _, fn := range p.AllRepoFuncs() {
		if fn.Name() != "IsEquivalent" || fn.Parent() != nil || fn.Signature.Recv() == nil || strings.Contains(fn.Pkg.Pkg.Path(), "/examples/") {
			continue
		}
		if dirIface != nil && !types.Implements(fn.Signature.Recv().Type(), dirIface) {
			continue
		}
		impls = append(impls, fn)
	}
	sort.Slice(impls, func(i, j int) bool { return an.FuncName(impls[i]) < an.FuncName(impls[j]) })
	if only != nil {
		var sel []*ssa.Function
		for _, f := range impls {
			if only(f) {
				sel = append(sel, f)
			}
		}
		c.Require(len(sel) >= 1, "EQUIV", "selected IsEquivalent implementation found", nil, "", len(sel), "directive type resolved", "unresolved anchor: the directive's IsEquivalent was not found")
		impls = sel
	} else {
		c.Require(len(impls) >= 14, "EQUIV", "IsEquivalent implementations found", nil, "", len(impls), fmt.Sprintf("%d directive types", len(impls)), fmt.Sprintf("only %d IsEquivalent implementations found, 14 confirmed by reading", len(impls)))
	}
	all := p.AllRepoFuncs()
	for _, eq := range impls {
		name := an.FuncName(eq)
		// asserted interface
		var ta *ssa.TypeAssert
		for _, b := range an.ScanBlocks(eq) {
			for _, ins := range b.Instrs {
				if t, ok := ins.(*ssa.TypeAssert); ok && t.X == ssa.Value(eq.Params[1]) {
					ta = t
				}
			}
		}
		if ta == nil {
			// acceptable only when it never reports equivalence
			c.EachReturn("EQUIV", name+" never merges (no type assertion on other)", eq, "constant false", func(s *an.State, ret *ssa.Return) string {
				if s.IsFalse(s.RetVal(ret, 0)) {
					return ""
				}
				return "returns a value other than false without inspecting the other directive"
			})
			continue
		}
		I := ta.AssertedType
		recvT := eq.Signature.Recv().Type()
		var params []string
		for m := range ifaceMethods(I) {
			if !base[m] {
				params = append(params, m)
			}
		}
		sort.Strings(params)
		// calibration: which getters are read by code other than the directive types' own methods
		used := map[string][]string{}
		for _, fn := range all {
			top := an.Outermost(fn)
			if top.Signature.Recv() != nil && types.Implements(top.Signature.Recv().Type(), I.Underlying().(*types.Interface)) {
				continue // the directive's own methods (getters, Validate, GetDebugVals, IsEquivalent...)
			}
			if strings.Contains(fn.Pkg.Pkg.Path(), "/examples/") {
				continue
			}
			for _, b := range an.ScanBlocks(fn) {
				for _, ins := range b.Instrs {
					call, ok := ins.(*ssa.Call)
					if !ok || !call.Call.IsInvoke() {
						continue
					}
					m := call.Call.Method.Name()
					if _, isP := ifaceMethods(I)[m]; !isP || base[m] {
						continue
					}
					if !types.Identical(call.Call.Value.Type(), I) && !types.AssignableTo(call.Call.Value.Type(), I) {
						continue
					}
					used[m] = append(used[m], an.FuncName(fn))
				}
			}
		}
		_ = recvT
		od := ssa.Value(nil)
		if ta.CommaOk {
			if ta.Referrers() != nil {
				for _, r := range *ta.Referrers() {
					if e, ok := r.(*ssa.Extract); ok && e.Index == 0 {
						od = e
					}
				}
			}
		} else {
			od = ta
		}
		for _, m := range params {
			construct := fmt.Sprintf("%s compares %s", name, m)
			if len(used[m]) == 0 {
				c.Note("calibration: %s.%s is not read by any non-directive repository code; not required in %s", types.TypeString(I, nil), m, name)
				continue
			}
			// find od.m() feeding a comparison
			found := false
			for _, b := range an.ScanBlocks(eq) {
				for _, ins := range b.Instrs {
					call, ok := ins.(*ssa.Call)
					if !ok || !call.Call.IsInvoke() || call.Call.Method.Name() != m || call.Call.Value != od {
						continue
					}
					if feedsComparison(p, eq, call) {
						found = true
						proj := onlyProjections(p, eq, call)
						if why, reviewed := equivProjectionReviewed[name+": "+m+"."+proj]; reviewed && proj != "" {
							c.Note("reviewed projection: %s compares %s through %s — %s", name, m, proj, why)
							proj = ""
						}
						if proj != "" {
							c.Require(false, "EQUIV", fmt.Sprintf("%s compares the whole value of %s", name, m), eq, "", 1, "",
								fmt.Sprintf("other.%s() takes part in the equivalence test only through its field %s: directives whose %s differ elsewhere are merged", m, proj, m))
						} else {
							c.Require(true, "EQUIV", fmt.Sprintf("%s compares the whole value of %s", name, m), eq, "", 1, "the getter's value (or its String()/Equal form) is compared, not a projection of it", "")
						}
					}
				}
			}
			c.Require(found, "EQUIV", construct, eq, "", len(used[m]),
				fmt.Sprintf("other.%s() feeds an equality test (parameter is read by %d resolver-side sites, e.g. %s)", m, len(used[m]), used[m][0]),
				fmt.Sprintf("IsEquivalent never compares other.%s(), although resolvers read it (%d sites, e.g. %s): directives differing only in it are merged", m, len(used[m]), firstOr(used[m])))
		}
		// an equivalence verdict needs the assertion to have succeeded
		if ta.CommaOk {
			c.Gate(an.GateSpec{Construct: name + " true-return", Fn: eq, Sink: func(s *an.State, ins ssa.Instruction) bool {
				ret, ok := ins.(*ssa.Return)
				return ok && !s.IsFalse(s.RetVal(ret, 0))
			}, Reqs: []an.Req{{Name: "other is the same directive kind (assertion ok)", Holds: func(s *an.State, at ssa.Instruction) bool {
				for _, r := range *ta.Referrers() {
					if e, ok := r.(*ssa.Extract); ok && e.Index == 1 && s.IsTrue(e) {
						return true
					}
				}
				return false
			}}}})
		}
		// every comparison in IsEquivalent that involves other.X() compares it with the receiver's same parameter
		checkSameParam(c, eq, od, name)
	}
}

func firstOr(s []string) string {
	if len(s) == 0 {
		return "-"
	}
	return s[0]
}

// feedsComparison: the call's result reaches (through conversions / String() / getters) an ==, != or Equal call.
func feedsComparison(p *an.Prog, fn *ssa.Function, call *ssa.Call) bool {
	for _, b := range an.ScanBlocks(fn) {
		for _, ins := range b.Instrs {
			switch x := ins.(type) {
			case *ssa.BinOp:
				if x.Op != token.EQL && x.Op != token.NEQ {
					continue
				}
				for _, o := range []ssa.Value{x.X, x.Y} {
					if p.DependsOn(o, func(v ssa.Value) bool { return v == ssa.Value(call) }) {
						return true
					}
				}
			case *ssa.Call:
				fo := an.CallObj(x.Common())
				if fo == nil || !(fo.Name() == "Equal" || fo.Name() == "Equals" || fo.Name() == "EqualVT" || fo.Name() == "Compare") || x == call {
					continue
				}
				for _, a := range an.CallArgs(x.Common()) {
					if p.DependsOn(a, func(v ssa.Value) bool { return v == ssa.Value(call) }) {
						return true
					}
				}
			}
		}
	}
	return false
}

// checkSameParam: a comparison whose one side derives from other.M() must have, on its other side, the
// receiver's value of the same parameter: d.M(), or the field that d's own M() returns.
func checkSameParam(c *an.Check, eq *ssa.Function, od ssa.Value, name string) {
	p := c.P
	recv := eq.Params[0]
	n, bad := 0, ""
	for _, b := range an.ScanBlocks(eq) {
		for _, ins := range b.Instrs {
			bo, ok := ins.(*ssa.BinOp)
			if !ok || (bo.Op != token.EQL && bo.Op != token.NEQ) {
				continue
			}
			for _, pair := range [][2]ssa.Value{{bo.X, bo.Y}, {bo.Y, bo.X}} {
				oc := otherGetter(p, pair[0], od)
				if oc == nil {
					continue
				}
				n++
				m := oc.Call.Method.Name()
				// receiver side
				okSide := false
				if rc := otherGetter(p, pair[1], recv); rc != nil && rc.Call.Method == nil {
					okSide = false
				}
				p.DependsOn(pair[1], func(v ssa.Value) bool {
					switch x := v.(type) {
					case *ssa.Call:
						if fo := an.CallObj(x.Common()); fo != nil && fo.Name() == m && len(an.CallArgs(x.Common())) > 0 && an.CallArgs(x.Common())[0] == ssa.Value(recv) {
							okSide = true
						}
					case *ssa.FieldAddr:
						if x.X == ssa.Value(recv) {
							// field must be the one the receiver's own getter m returns
							if g := ownGetterField(p, eq, m); g != nil && an.FieldOfAddr(x) == g {
								okSide = true
							}
						}
					}
					return false
				})
				if !okSide {
					bad = fmt.Sprintf("other.%s() is compared with a different parameter of the receiver at %s", m, p.Pos(bo.Pos()))
				}
			}
		}
	}
	if n == 0 {
		return
	}
	c.Require(bad == "", "EQUIV", name+" compares like with like", eq, "", n, fmt.Sprintf("%d comparisons pair other.M() with the receiver's M", n), bad)
}

// otherGetter: v derives (through Convert / String()) from an interface call on base; returns that call.
func otherGetter(p *an.Prog, v ssa.Value, base ssa.Value) *ssa.Call {
	for i := 0; i < 6; i++ {
		switch x := v.(type) {
		case *ssa.Convert:
			v = x.X
		case *ssa.ChangeType:
			v = x.X
		case *ssa.Call:
			if x.Call.IsInvoke() && x.Call.Value == base {
				return x
			}
			args := an.CallArgs(x.Common())
			if len(args) >= 1 {
				v = args[0]
				continue
			}
			return nil
		default:
			return nil
		}
	}
	return nil
}

// ownGetterField: the field returned by the receiver type's method m (when it is a plain field getter).
func ownGetterField(p *an.Prog, eq *ssa.Function, m string) *types.Var {
	rt := eq.Signature.Recv().Type()
	ms := p.SSA.MethodSets.MethodSet(rt)
	for i := 0; i < ms.Len(); i++ {
		if ms.At(i).Obj().Name() != m {
			continue
		}
		f := p.SSA.MethodValue(ms.At(i))
		if f == nil {
			return nil
		}
		for _, b := range an.ScanBlocks(f) {
			for _, ins := range b.Instrs {
				if ret, ok := ins.(*ssa.Return); ok && len(ret.Results) == 1 {
					if u, ok := ret.Results[0].(*ssa.UnOp); ok {
						return an.FieldOfAddr(u.X)
					}
				}
			}
		}
	}
	return nil
}

func init() {
	register(&Def{ID: "C37", Run: c37,
		Explain:     "Decides for every IsEquivalent implementation of a directive type in the repository (found through types.Implements(directive.Directive), ≥14): either it returns constant false, or — with I the interface it asserts on the other directive and P' the getters of I that some non-directive repository code actually reads (call-site calibration) — other.p() feeds an equality test for every p in P', a true verdict is reachable only when the assertion succeeded, and each such comparison pairs other.p() with the receiver's own p (getter or the field its getter returns). Each getter must take part with its whole value (or String()/Equal form), not through a field projection. A getter compared only through a non-whole-value method of its result counts as a projection too (reviewed exceptions are tabled); (LOOPALLOC) every DialTptAddr directive is built with dialer options of its own.",
		NotCov:      "semantic equality of the compared representations (e.g. URL.String()), and getters that no repository code reads (reported as calibration notes).",
		Assumptions: commonAssumptions})
}

// onlyProjections: every equality test fed by call reads it through a struct-field projection (x.M().Field); returns
// that field's name, or "" when some test compares the value itself / its String() / Equal form.
func onlyProjections(p *an.Prog, fn *ssa.Function, call *ssa.Call) string {
	proj, whole := "", false
	viaField := func(o ssa.Value) string {
		name := ""
		p.DependsOn(o, func(v ssa.Value) bool {
			var x ssa.Value
			var f *types.Var
			switch t := v.(type) {
			case *ssa.FieldAddr:
				x, f = t.X, an.FieldOfAddr(t)
			case *ssa.Field:
				x = t.X
				if st, ok := t.X.Type().Underlying().(*types.Struct); ok {
					f = st.Field(t.Field)
				}
			case *ssa.Call:
				// a method of the getter's result other than the whole-value forms (String/Equal/…) is a projection too
				if !t.Call.IsInvoke() && t.Call.StaticCallee() == nil {
					return false
				}
				nm := ""
				var recv ssa.Value
				if t.Call.IsInvoke() {
					nm, recv = t.Call.Method.Name(), t.Call.Value
				} else if fo := an.CallObj(t.Common()); fo != nil && fo.Type().(*types.Signature).Recv() != nil && len(t.Call.Args) > 0 {
					nm, recv = fo.Name(), t.Call.Args[0]
				}
				if recv == nil || ssa.Value(t) == ssa.Value(call) {
					return false
				}
				switch nm {
				case "String", "Equal", "Equals", "EqualVT", "Compare", "Bytes", "MarshalVT", "MarshalBinary", "Error", "":
					return false
				}
				if recv == ssa.Value(call) {
					name = nm + "()"
					return true
				}
				return false
			default:
				return false
			}
			if x == ssa.Value(call) || p.DependsOn(x, func(w ssa.Value) bool { return w == ssa.Value(call) }) {
				if f != nil {
					name = f.Name()
				} else {
					name = "?"
				}
				return true
			}
			return false
		})
		return name
	}
	for _, b := range an.ScanBlocks(fn) {
		for _, ins := range b.Instrs {
			var ops []ssa.Value
			switch x := ins.(type) {
			case *ssa.BinOp:
				if x.Op == token.EQL || x.Op == token.NEQ {
					ops = []ssa.Value{x.X, x.Y}
				}
			case *ssa.Call:
				if fo := an.CallObj(x.Common()); fo != nil && (fo.Name() == "Equal" || fo.Name() == "Equals" || fo.Name() == "EqualVT" || fo.Name() == "Compare") && x != call {
					ops = an.CallArgs(x.Common())
				}
			}
			for _, o := range ops {
				if !p.DependsOn(o, func(v ssa.Value) bool { return v == ssa.Value(call) }) && o != ssa.Value(call) {
					continue
				}
				if f := viaField(o); f != "" {
					proj = f
				} else {
					whole = true
				}
			}
		}
	}
	if whole {
		return ""
	}
	return proj
}

// dialDirectiveFreshOpts: every DialTptAddr directive owns its dialer options — the options object passed to
// NewDialTptAddr is allocated in the function that builds the directive (the directive keeps the pointer and its
// equivalence reads the address through it; a shared object makes all of them equivalent and rewrites them in place).
func dialDirectiveFreshOpts(c *an.Check) {
	p := c.P
	n, bad := 0, ""
	for _, fn := range p.AllRepoFuncs() {
		if strings.Contains(fn.Pkg.Pkg.Path(), "/examples/") {
			continue
		}
		for _, call := range an.Calls(fn, an.R("tptaddr", "", "NewDialTptAddr")) {
			n++
			arg := call.Call.Args[0]
			fresh := false
			if al, ok := arg.(*ssa.Alloc); ok && al.Parent() == fn {
				fresh = true
			}
			if _, isParam := arg.(*ssa.Parameter); isParam {
				fresh = true // forwarded by a constructor wrapper: the caller's site is checked
			}
			if cl, isCall := arg.(*ssa.Call); isCall && cl != nil {
				fresh = true // produced by a call (clone / getter) in this function
			}
			if !fresh {
				bad = fmt.Sprintf("%s at %s passes a dialer-options object that outlives the call (captured / shared) to NewDialTptAddr: all directives built there alias one object", an.FuncName(fn), p.Pos(call.Pos()))
			}
		}
	}
	c.Require(bad == "" && n >= 1, "LOOPALLOC", "every DialTptAddr directive is built with dialer options of its own", nil, "", n, "options allocated at the construction site", bad)
}

// equivProjectionReviewed: getters that are legitimately compared through one component only, with the reason.
var equivProjectionReviewed = map[string]string{
	"(*tptaddr.dialTptAddr).IsEquivalent: DialTptAddrDialerOpts.GetAddress()": "the address is the only part of the dialer options that selects what is dialed; the backoff settings tune retry timing of the same request",
}
