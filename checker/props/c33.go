package props

import (
	"go/types"
	"strings"

	"bifrostverify/an"

	"golang.org/x/tools/go/ssa"
)

const hoPkg = "link/hold-open"

func c33(c *an.Check) {
	// the handler's bookkeeping follows one request: EstablishLinkWithPeer directives with different source or target are
	// never merged, and the only values attached to such a directive are links (the address-dialing sub-resolvers attach none)
	equivCheck(c, func(f *ssa.Function) bool { return strings.Contains(an.FuncName(f), "link.establishLinkWithPeer") })
	establishLinkValuesAreLinks(c)
	p := c.P
	T := "establishLinkHandler"
	rigidF, cntF, refF, mtxF := fv(c, hoPkg, T, "rigidRef"), fv(c, hoPkg, T, "valCount"), fv(c, hoPkg, T, "ref"), fv(c, hoPkg, T, "mtx")
	cmtx, crefs := fv(c, hoPkg, "Controller", "mtx"), fv(c, hoPkg, "Controller", "cleanupRefs")
	added := p.Func(hoPkg, T, "HandleValueAdded")
	removed := p.Func(hoPkg, T, "HandleValueRemoved")
	disposed := p.Func(hoPkg, T, "HandleInstanceDisposed")
	if rigidF == nil || cntF == nil || refF == nil || mtxF == nil || cmtx == nil || crefs == nil || added == nil || removed == nil || disposed == nil {
		c.Undecided("LOCKSET", "hold-open handler state", nil, "unresolved anchor")
		return
	}
	c.LockSet(an.LockSpec{Construct: "hold-open handler state (establishLinkHandler.mtx)", Guard: mtxF, Guarded: []*types.Var{cntF, rigidF, refF}, Funcs: p.PkgFuncs(hoPkg), Min: 10})
	c.LockSet(an.LockSpec{Construct: "hold-open controller cleanup refs (Controller.mtx)", Guard: cmtx, Guarded: []*types.Var{crefs}, Funcs: p.PkgFuncs(hoPkg), Min: 4})
	// atomicity: the strong reference is stored only in a critical section that itself sees "none held yet" and "links exist"
	var storeFns []*ssa.Function
	for _, g := range an.WithClosures(added) {
		if storesField(g, rigidF, func(v ssa.Value) bool { return !isNilConst(v) }) {
			storeFns = append(storeFns, g)
		}
	}
	if len(storeFns) != 1 {
		c.Undecided("ATOMIC", "hold-open strong reference acquisition", added, "unresolved anchor: expected exactly one function storing the acquired reference")
	} else {
		sf := storeFns[0]
		loadIs := func(s *an.State, f *types.Var, pred func(s *an.State, u *ssa.UnOp) bool) bool {
			for _, b := range an.ScanBlocks(sf) {
				for _, ins := range b.Instrs {
					if u, ok := ins.(*ssa.UnOp); ok && an.IsFieldLoad(u, f) && pred(s, u) {
						return true
					}
				}
			}
			return false
		}
		c.Gate(an.GateSpec{Rule: "ATOMIC", Construct: "hold-open stores the acquired strong reference", Fn: sf,
			Sink: func(s *an.State, ins ssa.Instruction) bool {
				v, _, ok := storeTo(ins, rigidF)
				return ok && !isNilConst(v)
			},
			Reqs: []an.Req{
				{Name: "no strong reference held (checked in this critical section)", Holds: func(s *an.State, at ssa.Instruction) bool {
					return loadIs(s, rigidF, func(s *an.State, u *ssa.UnOp) bool { return s.IsNil(u) })
				}},
				{Name: "at least one link exists (checked in this critical section)", Holds: func(s *an.State, at ssa.Instruction) bool {
					return loadIs(s, cntF, func(s *an.State, u *ssa.UnOp) bool {
						r := s.Rel(u, ssa.NewConst(zeroInt(), u.Type()))
						return r == an.GT || r == an.NE
					})
				}},
				{Name: "under the handler mutex", Holds: func(s *an.State, at ssa.Instruction) bool {
					l := s.Executed(at, func(i ssa.Instruction) bool { return isMtxCall(i, mtxF, "Lock") })
					u := s.Executed(at, func(i ssa.Instruction) bool { return isMtxCall(i, mtxF, "Unlock") })
					return l && !u
				}},
			}})
	}
	// release: only when the last link went away (or the instance is disposed), and the slot is cleared in the same critical section
	for _, w := range []struct {
		fn   *ssa.Function
		name string
		need bool
	}{{removed, "HandleValueRemoved", true}, {disposed, "HandleInstanceDisposed", false}} {
		fn := w.fn
		need := w.need
		c.Gate(an.GateSpec{Construct: "hold-open " + w.name + " releases the strong reference", Fn: fn,
			Sink: func(s *an.State, ins ssa.Instruction) bool {
				g, ok := ins.(*ssa.Go)
				return ok && g.Call.IsInvoke() && g.Call.Method.Name() == "Release"
			},
			Reqs: []an.Req{
				{Name: "a reference is held, and (for removal) no link is left", Holds: func(s *an.State, at ssa.Instruction) bool {
					held := false
					for _, b := range an.ScanBlocks(fn) {
						for _, ins := range b.Instrs {
							if u, ok := ins.(*ssa.UnOp); ok && an.IsFieldLoad(u, rigidF) && s.NonNil(u) {
								held = true
							}
						}
					}
					if !held {
						return false
					}
					if !need {
						return true
					}
					return s.AnyFact(func(s *an.State, x, y ssa.Value, r an.Rel) bool {
						return r == an.EQ && an.IsFieldLoad(x, cntF) && an.IsIntConst(y, 0)
					})
				}},
			}})
		c.Gate(an.GateSpec{Rule: "MUSTCALL", Construct: "hold-open " + w.name + " clears the slot it released", Fn: fn,
			Sink: func(s *an.State, ins ssa.Instruction) bool {
				if !isUnlockPoint(s, ins, mtxF) {
					return false
				}
				return s.Executed(ins, func(i ssa.Instruction) bool {
					g, ok := i.(*ssa.Go)
					return ok && g.Call.IsInvoke() && g.Call.Method.Name() == "Release"
				})
			},
			Reqs: []an.Req{{Name: "rigidRef = nil before unlocking", Holds: func(s *an.State, at ssa.Instruction) bool {
				return s.Executed(at, func(i ssa.Instruction) bool { v, _, ok := storeTo(i, rigidF); return ok && isNilConst(v) })
			}}}})
	}
	// the counter moves by one per notification and never below zero
	incs, decs := 0, 0
	for _, a := range p.FieldAccesses(cntF, p.PkgFuncs(hoPkg)) {
		if a.Kind == an.Write {
			if an.InFuncs(added)(a.Fn) {
				incs++
			}
			if an.InFuncs(removed)(a.Fn) {
				decs++
			}
		}
	}
	c.Require(incs == 1 && decs == 1, "PROVENANCE", "hold-open link counter: one increment per add, one decrement per remove", added, "", incs+decs, "valCount++ in HandleValueAdded, valCount-- in HandleValueRemoved", "the link counter is not updated exactly once per notification")
	// ... synchronously, in the notification callback itself: a count that is updated by a goroutine spawned only for
	// some notifications misses the others (a second link is never counted, the first removal releases the reference)
	syncCnt, whySync := true, ""
	for _, a := range p.FieldAccesses(cntF, p.PkgFuncs(hoPkg)) {
		if a.Kind == an.Write && a.Fn != added && a.Fn != removed && an.Outermost(a.Fn) != nil && (an.InFuncs(added)(a.Fn) || an.InFuncs(removed)(a.Fn)) {
			syncCnt, whySync = false, "the link counter is updated in "+an.FuncName(a.Fn)+" (a function literal that runs later / only sometimes), not in the notification callback itself"
		}
	}
	c.Require(syncCnt, "PROVENANCE", "hold-open link counter is updated synchronously by the notification callbacks", added, "", incs+decs, "the writes sit in HandleValueAdded / HandleValueRemoved themselves", whySync)
	// a strong reference that was acquired is kept in the slot or released: no path drops it on the floor
	nAcq := 0
	for _, g := range p.PkgFuncs(hoPkg) {
		g := g
		var acq []*ssa.Call
		for _, b := range an.ScanBlocks(g) {
			for _, ins := range b.Instrs {
				if call, ok := ins.(*ssa.Call); ok && call.Call.IsInvoke() && call.Call.Method.Name() == "AddReference" && len(call.Call.Args) == 2 && isFalseConst(call.Call.Args[1]) {
					acq = append(acq, call)
				}
			}
		}
		if len(acq) == 0 {
			continue
		}
		nAcq += len(acq)
		isAcq := func(i ssa.Instruction) bool {
			for _, a := range acq {
				if i == ssa.Instruction(a) {
					return true
				}
			}
			return false
		}
		c.Gate(an.GateSpec{Rule: "MUSTCALL", Construct: "hold-open keeps or releases an acquired strong reference", Fn: g,
			Sink: func(s *an.State, ins ssa.Instruction) bool {
				_, isRet := ins.(*ssa.Return)
				return isRet && s.Executed(ins, isAcq)
			},
			Reqs: []an.Req{{Name: "the acquired reference was stored in the slot or released", Holds: func(s *an.State, at ssa.Instruction) bool {
				return s.Executed(at, func(i ssa.Instruction) bool {
					if v, _, ok := storeTo(i, rigidF); ok && !isNilConst(v) {
						return true
					}
					var cc *ssa.CallCommon
					switch x := i.(type) {
					case *ssa.Call:
						cc = x.Common()
					case *ssa.Go:
						cc = x.Common()
					case *ssa.Defer:
						cc = x.Common()
					}
					return cc != nil && cc.IsInvoke() && cc.Method.Name() == "Release"
				})
			}}}})
	}
	c.Require(nAcq >= 1, "MUSTCALL", "hold-open strong reference acquisition found", added, "", nAcq, "AddReference(nil, false) call sites", "no strong AddReference call found (anchor drift)")
	c.Note("not decided: quiescent equality for all schedules (a model-checking statement); the rules give the lock discipline and the re-validation that such a proof would need")
}

func init() {
	register(&Def{ID: "C33", Run: c33,
		Explain:     "Decides on SSA: (LOCKSET) valCount, rigidRef and ref of the hold-open handler are touched only under its mutex and Controller.cleanupRefs only under the controller mutex; (ATOMIC) the asynchronously acquired strong reference is stored only in a critical section that itself re-checks 'no reference held' and 'at least one link exists'; the reference is released only when one is held and (on removal) the link count reached zero, and the slot is cleared before unlocking; the counter is updated exactly once per add/remove notification. EQUIV obligations of establishLinkWithPeer; (WHO) the tptaddr dial sub-resolvers attach no values to the link request. (PROVENANCE) the link counter is updated in the notification callbacks themselves, not in a spawned literal; (MUSTCALL) an acquired strong reference is stored in the slot or released on every path.",
		NotCov:      "quiescent equality (reference held ⇔ links exist) over all schedules, and the directive instance's own reference counting.",
		Assumptions: commonAssumptions})
}

// establishLinkValuesAreLinks: the tptaddr controller's resolver for EstablishLinkWithPeer only spawns dial requests; its
// transform never attaches a value to the directive (every return of it says ok=false). The hold-open handler decrements
// its link counter for any removed value, so a placeholder value would release the reference while links exist.
func establishLinkValuesAreLinks(c *an.Check) {
	p := c.P
	res := p.Func("tptaddr/controller", "establishLinkResolver", "Resolve")
	n, bad := 0, ""
	if res != nil {
		for _, g := range an.WithClosures(res)[1:] {
			// the value transform: func(ctx, AttachedValue) (struct{}, func(), bool, error)
			sig := g.Signature
			if sig.Results().Len() != 4 || sig.Results().At(2).Type().String() != "bool" {
				continue
			}
			n++
			for _, b := range an.ScanBlocks(g) {
				if ret, ok := b.Instrs[len(b.Instrs)-1].(*ssa.Return); ok {
					k, isK := ret.Results[2].(*ssa.Const)
					if !isK || k.Value == nil || k.Value.String() != "false" {
						bad = "the dial sub-resolver's transform attaches a (placeholder) value to the EstablishLinkWithPeer directive: removing it later is counted by hold-open as a lost link"
					}
				}
			}
		}
	}
	c.Require(bad == "" && n >= 1, "WHO", "tptaddr establish-link resolver attaches no values to the link request", res, "", n, "transform returns ok=false", func() string {
		if bad != "" {
			return bad
		}
		return "transform not found (anchor drift)"
	}())
}
