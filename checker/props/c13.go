package props

import (
	"go/token"
	"strings"

	"bifrostverify/an"

	"golang.org/x/tools/go/ssa"
)

// impureCallees: sources of nondeterminism.
func impureCall(call *ssa.Call) string {
	fo := an.CallObj(call.Common())
	if fo == nil || fo.Pkg() == nil {
		return ""
	}
	switch fo.Pkg().Path() {
	case "crypto/rand", "math/rand", "math/rand/v2":
		return fo.Pkg().Path() + "." + fo.Name()
	case "time":
		if fo.Name() == "Now" || fo.Name() == "Since" {
			return "time." + fo.Name()
		}
	case "os":
		if fo.Name() == "Getenv" || fo.Name() == "Getpid" {
			return "os." + fo.Name()
		}
	}
	return ""
}

// repoCallTree returns fn and the repository functions it statically calls (transitively).
func repoCallTree(p *an.Prog, roots ...*ssa.Function) []*ssa.Function {
	seen := map[*ssa.Function]bool{}
	var out []*ssa.Function
	var visit func(f *ssa.Function)
	visit = func(f *ssa.Function) {
		if f == nil || seen[f] || len(f.Blocks) == 0 || f.Pkg == nil || !strings.HasPrefix(f.Pkg.Pkg.Path(), an.Mod) {
			return
		}
		seen[f] = true
		out = append(out, f)
		for _, g := range an.WithClosures(f) {
			for _, b := range an.ScanBlocks(g) {
				for _, ins := range b.Instrs {
					if ci, ok := ins.(ssa.CallInstruction); ok {
						if callee, ok := ci.Common().Value.(*ssa.Function); ok {
							visit(callee)
						}
					}
				}
			}
		}
	}
	for _, r := range roots {
		visit(r)
	}
	return out
}

// impureIn reports a source of nondeterminism (randomness, clock, environment, reassigned package variable) read by any
// of the functions, and the number of call sites examined.
func impureIn(p *an.Prog, tree []*ssa.Function) (string, int) {
	bad := ""
	ncalls := 0
	for _, f := range tree {
		for _, g := range an.WithClosures(f) {
			for _, b := range an.ScanBlocks(g) {
				for _, ins := range b.Instrs {
					if call, ok := ins.(*ssa.Call); ok {
						ncalls++
						if w := impureCall(call); w != "" {
							bad = w + " in " + an.FuncName(g) + " at " + p.Pos(call.Pos())
						}
					}
				}
				for _, ins := range b.Instrs {
					// reads of mutable package variables
					if u, ok := ins.(*ssa.UnOp); ok {
						if g, ok := u.X.(*ssa.Global); ok && g.Pkg != nil && strings.HasPrefix(g.Pkg.Pkg.Path(), an.Mod) && !strings.HasPrefix(g.Name(), "Err") {
							if okInit, where := globalWrittenOnlyInInit(p, g); !okInit {
								bad = "reads package variable " + g.Name() + " which is reassigned in " + where
							}
						}
					}
				}
			}
		}
	}
	return bad, ncalls
}

func c13(c *an.Check) {
	privateScalarProvenance(c)
	privateKeyRawIsCopy(c)
	noUseAfterScrub(c, []*ssa.Function{c.P.Func("peer", "", "DeriveKey")}, nil)
	ed25519PrivateKeyDecodeGates(c)
	p := c.P
	scrubOwnStorage(c, "peer key derivation wipes only its own buffers", []*ssa.Function{p.Func("peer", "", "DeriveKey"), p.Func("peer", "", "DeriveEd25519Key")})
	dk := p.Func("peer", "", "DeriveKey")
	de := p.Func("peer", "", "DeriveEd25519Key")
	if dk == nil || de == nil {
		c.Undecided("PANIC", "peer.DeriveKey", nil, "unresolved anchor")
		return
	}
	// totality (the divide by len(context) is the interesting site)
	if bce := peerBCE(c, "./peer", "./util/extra25519"); bce != nil {
		pre := []an.Precond{
			{Callee: cNewKeySeed, Desc: "ed25519.NewKeyFromSeed needs a 32-byte seed", Holds: func(s *an.State, call *ssa.Call) (bool, string) {
				l, ok := s.FixedLen(call.Call.Args[0])
				return ok && l == 32, "seed has fixed length 32"
			}},
			{Callee: cEdPublic, Desc: "ed25519.PrivateKey.Public needs a 64-byte key", Holds: func(s *an.State, call *ssa.Call) (bool, string) {
				l, ok := s.FixedLen(call.Call.Args[0])
				return ok && l == 64, "key produced by NewKeyFromSeed (64 bytes)"
			}},
		}
		c.Totality(an.PanicSpec{Construct: "peer key derivation totality", Funcs: []*ssa.Function{dk, de, p.Func("util/extra25519", "", "PrivateKeyToCurve25519"), p.Func("util/extra25519", "", "PublicKeyToCurve25519")}, BCE: bce, Min: 4, Preconds: pre, Reviewed: map[string]string{
			"peer.DeriveKey: bounds tPrivKeyCurve25519[:32]":                 "PrivateKeyToCurve25519 returns a 64-byte SHA-512 digest",
			"peer.DeriveKey: assert to ed25519.PublicKey":                    "crypto/ed25519 documents PrivateKey.Public() to return ed25519.PublicKey",
			"util/extra25519.PrivateKeyToCurve25519: bounds privateKey[:32]": "callers pass ed25519 private keys (64 bytes): the typed std key obtained from crypto.PrivKeyToStdKey or a NewKeyFromSeed result",
			"util/extra25519.PrivateKeyToCurve25519: bounds digest[0]":       "digest is a SHA-512 sum (64 bytes)",
			"util/extra25519.PrivateKeyToCurve25519: bounds digest[31]":      "digest is a SHA-512 sum (64 bytes)",
		}})
	}
	// determinism: no randomness / clock anywhere in the in-repo call tree
	tree := repoCallTree(p, dk, de)
	bad, ncalls := impureIn(p, tree)
	for _, f := range tree {
		c.Touch(f)
	}
	c.Sites(ncalls)
	c.Require(bad == "", "PURE", "peer.DeriveKey / DeriveEd25519Key call tree is deterministic", dk, "", ncalls, "no crypto/rand, math/rand, time.Now or reassigned package variable in the in-repo call tree", "nondeterministic input: "+bad)
	// every input reaches the digest
	mk := an.Calls(dk, cNewDeriveKey)
	okIn, why := len(mk) == 1, "expected exactly one blake3.NewDeriveKey"
	if okIn {
		okIn = an.IsParam(mk[0].Call.Args[0], 0)
		why = "the KDF context is not the context parameter"
		w := hasherWrites(dk, mk[0])
		hasSalt, hasKey := false, false
		for _, v := range w {
			if an.IsParam(v, 1) {
				hasSalt = true
			}
			if p.DependsOn(v, func(x ssa.Value) bool { return an.ResultCallTo(x, an.X("crypto/ecdh", "PrivateKey", "ECDH")) != nil }) {
				hasKey = true
			}
		}
		if okIn && !hasSalt {
			okIn, why = false, "salt is never written to the KDF"
		}
		if okIn && !hasKey {
			okIn, why = false, "the ECDH material is never written to the KDF"
		}
		// key material derives from the private key parameter
		for _, e := range an.Calls(dk, an.X("crypto/ecdh", "PrivateKey", "ECDH")) {
			if okIn && !p.DependsOn(e.Call.Args[0], func(x ssa.Value) bool { return an.IsParam(x, 2) }) {
				okIn, why = false, "ECDH private scalar does not derive from the private key parameter"
			}
			if okIn && !p.DependsOn(e.Call.Args[1], func(x ssa.Value) bool { return an.IsParam(x, 0) }) {
				okIn, why = false, "the ephemeral public key does not depend on the context"
			}
		}
		// the context is mixed into the key material byte by byte: every in-place xor on the ECDH material combines a
		// material byte with a context byte (x ^ x would erase the only place the private key enters)
		isECDH := func(x ssa.Value) bool { return an.ResultCallTo(x, an.X("crypto/ecdh", "PrivateKey", "ECDH")) != nil }
		elemOf := func(v ssa.Value) ssa.Value {
			if u, ok := v.(*ssa.UnOp); ok && u.Op == token.MUL {
				if ia, ok := u.X.(*ssa.IndexAddr); ok {
					return ia.X
				}
			}
			if lk, ok := v.(*ssa.Lookup); ok { // s[i] on a string
				return lk.X
			}
			if ix, ok := v.(*ssa.Index); ok { // s[i] on a string / array value
				return ix.X
			}
			return nil
		}
		for _, b := range an.ScanBlocks(dk) {
			for _, ins := range b.Instrs {
				x, isBin := ins.(*ssa.BinOp)
				if !isBin || x.Op != token.XOR {
					continue
				}
				bx, by := elemOf(x.X), elemOf(x.Y)
				fromMat := func(v ssa.Value) bool { return v != nil && p.DependsOn(v, isECDH) }
				fromCtx := func(v ssa.Value) bool {
					if cv, isConv := v.(*ssa.Convert); isConv {
						v = cv.X
					}
					return v != nil && an.IsParam(v, 0)
				}
				if okIn && !((fromMat(bx) && fromCtx(by)) || (fromMat(by) && fromCtx(bx))) {
					okIn, why = false, "the xor at "+p.Pos(x.Pos())+" does not combine a key-material byte with a context byte (x ^ x erases the key material: different keys derive the same output)"
				}
			}
		}
		// output: Digest().Read(out)
		okOut := false
		for _, b := range an.ScanBlocks(dk) {
			for _, ins := range b.Instrs {
				if call, ok := ins.(*ssa.Call); ok {
					if fo := an.CallObj(call.Common()); fo != nil && fo.Name() == "Read" {
						args := an.CallArgs(call.Common())
						if len(args) == 2 && an.IsParam(args[1], 3) && p.DependsOn(args[0], func(x ssa.Value) bool { return x == ssa.Value(mk[0]) }) {
							okOut = true
						}
					}
				}
			}
		}
		if okIn && !okOut {
			okIn, why = false, "out is not filled from the KDF's digest"
		}
	}
	c.Require(okIn, "PROVENANCE", "peer.DeriveKey output depends on context, salt and private key", dk, "", 4, "KDF(context){domain tag, salt, ECDH(priv, eph(priv,context))} → out", why)
	// salt is written whenever it is non-empty
	if len(mk) == 1 {
		c.Gate(an.GateSpec{Construct: "peer.DeriveKey success-return", Fn: dk, Sink: successReturn, Reqs: []an.Req{
			an.CallOK("PrivKeyToStdKey ok", an.R("crypto", "", "PrivKeyToStdKey")),
			an.CallTrue("ephemeral point valid", 1, cPubToCurve),
			an.CallOK("ECDH ok", an.X("crypto/ecdh", "PrivateKey", "ECDH")),
			{Name: "salt written unless empty", Holds: func(s *an.State, at ssa.Instruction) bool {
				wrote := s.Executed(at, func(ins ssa.Instruction) bool {
					call, ok := ins.(*ssa.Call)
					if !ok {
						return false
					}
					fo := an.CallObj(call.Common())
					args := an.CallArgs(call.Common())
					return fo != nil && fo.Name() == "Write" && len(args) == 2 && an.IsParam(args[1], 1)
				})
				if wrote {
					return true
				}
				return s.AnyFact(func(s *an.State, x, y ssa.Value, r an.Rel) bool {
					return r == an.EQ && an.IsIntConst(y, 0) && an.LenOf(s, x, func(a ssa.Value) bool { return an.IsParam(a, 1) })
				})
			}},
		}})
	}
	// DeriveEd25519Key
	c.Gate(an.GateSpec{Construct: "peer.DeriveEd25519Key key construction", Fn: de, Sink: func(s *an.State, ins ssa.Instruction) bool { return an.IsCallTo(ins, cNewKeySeed) },
		Reqs: []an.Req{an.CallOK("DeriveKey ok", an.R("peer", "", "DeriveKey"))}})
	dc := an.Calls(de, an.R("peer", "", "DeriveKey"))
	okF := len(dc) == 1 && an.IsParam(dc[0].Call.Args[0], 0) && an.IsParam(dc[0].Call.Args[1], 1) && an.IsParam(dc[0].Call.Args[2], 2)
	if okF {
		nk := an.Calls(de, cNewKeySeed)
		// the same storage: the very value, or two views (seed[:]) of one local buffer
		sameBuf := func(a, b ssa.Value) bool {
			if a == b {
				return true
			}
			ra := an.AliasRoots(a)
			for r := range an.AliasRoots(b) {
				switch r.(type) {
				case *ssa.Alloc, *ssa.MakeSlice:
					if ra[r] {
						return true
					}
				}
			}
			return false
		}
		okF = len(nk) == 1 && sameBuf(nk[0].Call.Args[0], dc[0].Call.Args[3])
	}
	c.Require(okF, "PROVENANCE", "peer.DeriveEd25519Key seeds the key with DeriveKey(context, salt, key)", de, "", 2, "NewKeyFromSeed(seed filled by DeriveKey(context,salt,privKey,seed))", "the Ed25519 seed is not the output of DeriveKey on the three inputs")
	c.Trust("BLAKE3 KDF, X25519, Ed25519 are deterministic functions of their inputs")
}

func init() {
	register(&Def{ID: "C13", Run: c13,
		Explain:     "Decides on SSA: (PANIC) every potential panic site of DeriveKey/DeriveEd25519Key and their extra25519 helpers — notably the integer remainder by len(context), which needs a dominating non-empty guard — is discharged; (PURE) no randomness, clock or reassigned package variable is read anywhere in their in-repo call tree; (PROVENANCE) the output buffer is filled from one BLAKE3 KDF keyed by the context parameter into which the salt (unless empty) and the ECDH material derived from the private-key parameter are written, and DeriveEd25519Key seeds its key with exactly that output; (R1) success only past key conversion / point validity / ECDH. (PROVENANCE) PrivateKeyToCurve25519 hashes exactly privateKey[:32]; (OWNERSHIP) Raw returns a copy; (ORDER) no use after scrub in DeriveKey; private-key decode gates shared. (OWNERSHIP) DeriveKey wipes only storage it produced itself (never a view of the caller's key); the context xor combines a key-material byte with a context byte.",
		NotCov:      "'different inputs give different outputs' (collision resistance of the KDF: trusted).",
		Assumptions: commonAssumptions})
}
