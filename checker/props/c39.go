package props

import (
	"bifrostverify/an"
	"strings"

	"golang.org/x/tools/go/ssa"
)

func c39(c *an.Check) {
	// what the key file parser hands back is produced by the key decoders: their gates belong here too
	keyUnmarshalDispatchGates(c)
	ed25519PrivateKeyDecodeGates(c)
	p := c.P
	oow := p.Func("keypem/keyfile", "", "OpenOrWritePrivKey")
	ppk := p.Func("keypem", "", "ParsePrivKeyPem")
	cParse := an.R("keypem", "", "ParsePrivKeyPem")
	if oow == nil || ppk == nil {
		c.Undecided("NILRET", "keyfile.OpenOrWritePrivKey never returns (nil,nil)", nil, "unresolved anchor")
		return
	}
	// interprocedural fact: may the PEM parser return (nil, nil)?
	may, wit := c.MayReturnNilNil(ppk, 0)
	var maybe []an.Callee
	if may {
		maybe = append(maybe, cParse)
		c.Note("keypem.ParsePrivKeyPem may return (nil,nil): %v", wit)
	}
	c.NilRet(an.NilRetSpec{Construct: "keyfile.OpenOrWritePrivKey never returns (nil,nil)", Fn: oow, ValIdx: 0, ErrIdx: -1, MaybeNil: maybe})
	// failures surface
	for _, cal := range []an.Callee{an.X("os", "", "ReadFile"), cParse, an.R("crypto", "", "GenerateEd25519Key"), an.R("keypem", "", "MarshalPrivKeyPem"), an.X("os", "", "WriteFile")} {
		c.ErrProp(an.ErrPropSpec{Construct: "keyfile.OpenOrWritePrivKey propagates failure of " + cal.String(), Fn: oow, Failing: an.CallFailed(cal), ErrIdx: -1})
	}
	c.ErrProp(an.ErrPropSpec{Construct: "keyfile.OpenOrWritePrivKey propagates stat errors other than not-exist", Fn: oow, ErrIdx: -1, Failing: func(s *an.State) (bool, string) {
		for _, st := range an.Calls(oow, an.X("os", "", "Stat")) {
			e := an.ErrResult(st, -1)
			if e == nil || !s.NonNil(e) {
				continue
			}
			for _, ine := range an.Calls(oow, an.X("os", "", "IsNotExist"), an.X("errors", "", "Is")) {
				if s.IsFalse(ine) {
					return true, "os.Stat failed with an error that is not not-exist"
				}
			}
		}
		return false, ""
	}})
	// a success return needs a readable file that parsed, or a generated key that was written
	c.Gate(an.GateSpec{Construct: "keyfile.OpenOrWritePrivKey success-return", Fn: oow, Sink: successReturn, Reqs: []an.Req{
		an.AnyOf("file read and parsed, or key generated and written",
			an.Req{Name: "read+parse ok", Holds: func(s *an.State, at ssa.Instruction) bool {
				return an.CallOK("", an.X("os", "", "ReadFile")).Holds(s, at) && an.CallOK("", cParse).Holds(s, at)
			}},
			an.Req{Name: "generate+marshal+write ok", Holds: func(s *an.State, at ssa.Instruction) bool {
				return an.CallOK("", an.R("crypto", "", "GenerateEd25519Key")).Holds(s, at) && an.CallOK("", an.R("keypem", "", "MarshalPrivKeyPem")).Holds(s, at) && an.CallOK("", an.X("os", "", "WriteFile")).Holds(s, at)
			}}),
	}})
	// provenance of the write: WriteFile(path param, MarshalPrivKeyPem(generated key)); parse input is the file read from the path param
	wf := an.Calls(oow, an.X("os", "", "WriteFile"))
	okW := len(wf) == 1 && an.IsParam(wf[0].Call.Args[0], 1)
	if okW {
		mk := an.ResultCallTo(wf[0].Call.Args[1], an.R("keypem", "", "MarshalPrivKeyPem"))
		okW = mk != nil && an.ResultCallTo(mk.Call.Args[0], an.R("crypto", "", "GenerateEd25519Key")) != nil
	}
	c.Require(okW, "PROVENANCE", "keyfile.OpenOrWritePrivKey writes the generated key to the requested path", oow, "", len(wf), "WriteFile(path, MarshalPrivKeyPem(generated))", "the file written is not the PEM of the generated key at the requested path")
	rf := an.Calls(oow, an.X("os", "", "ReadFile"))
	pc := an.Calls(oow, cParse)
	okR := len(rf) == 1 && len(pc) == 1 && an.IsParam(rf[0].Call.Args[0], 1) && an.ResultCallTo(pc[0].Call.Args[0], an.X("os", "", "ReadFile")) != nil
	c.Require(okR, "PROVENANCE", "keyfile.OpenOrWritePrivKey parses the file at the requested path", oow, "", len(rf)+len(pc), "ParsePrivKeyPem(ReadFile(path))", "the parsed bytes are not those read from the requested path")
	c.EachReturn("PROVENANCE", "keyfile.OpenOrWritePrivKey returns the generated or the parsed key", oow, "success returns yield GenerateEd25519Key's or ParsePrivKeyPem's key", func(s *an.State, ret *ssa.Return) string {
		if s.KnownNonNilErr(s.RetVal(ret, -1)) {
			return ""
		}
		v := s.RetVal(ret, 0)
		if an.ResultCallTo(v, cParse, an.R("crypto", "", "GenerateEd25519Key")) != nil {
			return ""
		}
		return "a success return yields a key that is neither the generated nor the parsed one"
	})
	// ParsePrivKeyPem: wrong PEM type is an error; success only through UnmarshalPrivateKey
	c.Gate(an.GateSpec{Construct: "keypem.ParsePrivKeyPem non-nil key return", Fn: ppk,
		Sink: func(s *an.State, ins ssa.Instruction) bool {
			ret, ok := ins.(*ssa.Return)
			return ok && !s.IsNil(s.RetVal(ret, 0))
		},
		Reqs: []an.Req{an.FactReq("block type == private key PEM type", func(s *an.State, x, y ssa.Value, r an.Rel) bool {
			_, isConst := an.StrConstOf(y)
			return r == an.EQ && isConst
		})}})
	// callers in the property's surface use the key only when err == nil (or after their own nil check)
	var fns []*ssa.Function
	if c.Tier == "thorough" {
		fns = p.AllRepoFuncs()
	} else {
		fns = append(p.PkgFuncs("cmd/bifrost"), p.PkgFuncs("cli")...)
		fns = append(fns, p.PkgFuncs("cli/util")...)
	}
	n := c.UsesGuarded("USEGUARD", "keyfile.OpenOrWritePrivKey result used only when err==nil", an.R("keypem/keyfile", "", "OpenOrWritePrivKey"), 0, fns, nil)
	c.Require(n >= 3, "USEGUARD", "keyfile.OpenOrWritePrivKey call sites found", oow, "", n, "call sites enumerated", "anchor drift: fewer than 3 call sites of OpenOrWritePrivKey found")
	// sibling loading paths in the same surface that call the (nil,nil)-capable PEM parser directly must see a key, not an
	// absent one: the value is used only where it is known non-nil (and the error nil)
	// (key *files* are loaded by the CLI and the daemon command; other callers — e.g. an API message field — are
	// reported as notes by the thorough tier, they are not key files)
	var direct []*ssa.Function
	inSurface := func(fn *ssa.Function) bool {
		pk := an.FuncName(fn)
		return strings.Contains(pk, "cli.") || strings.Contains(pk, "cli/util.") || strings.Contains(pk, "cmd/bifrost.") || strings.Contains(pk, "keypem/keyfile.")
	}
	for _, fn := range fns {
		if an.Outermost(fn) != oow && inSurface(fn) {
			direct = append(direct, fn)
		}
	}
	nd := c.UsesGuardedNonNil("USEGUARD", "keypem.ParsePrivKeyPem result used only when non-nil", cParse, 0, direct)
	c.Require(nd >= 1, "USEGUARD", "direct keypem.ParsePrivKeyPem call sites found in the key-loading surface", oow, "", nd, "call sites enumerated", "anchor drift: no direct caller of ParsePrivKeyPem found in cli / cmd/bifrost")
	if c.Tier == "thorough" {
		// cross-reference: other callers of the (nil,nil)-capable parser
		for _, fn := range p.AllRepoFuncs() {
			for _, call := range an.Calls(fn, cParse) {
				if an.Outermost(fn) == oow {
					continue
				}
				c.Note("cross-reference: %s calls keypem.ParsePrivKeyPem at %s (may yield (nil,nil); outside C39's observe_at surface)", an.FuncName(fn), p.Pos(call.Pos()))
			}
		}
	}
	c.Trust("os.Stat/ReadFile/WriteFile/IsNotExist", "encoding/pem.Decode returns nil block when no PEM data is found")
}

func init() {
	register(&Def{ID: "C39", Run: c39,
		Explain:     "Decides on SSA: (R2b) OpenOrWritePrivKey has no return yielding (nil key, nil error), using the computed summary that keypem.ParsePrivKeyPem may itself return (nil,nil); (R2a) failures of Stat (other than not-exist), ReadFile, ParsePrivKeyPem, key generation, PEM marshalling and WriteFile never lead to a return with a known-nil error; (R1) success needs read+parse or generate+marshal+write; (PROVENANCE) the file written is the PEM of the generated key at the requested path, the bytes parsed are those read from that path, and the key returned is the generated/parsed one; (USEGUARD) callers in cmd/bifrost and cli (thorough: whole repo) use the key only on err==nil paths, and the CLI's direct calls of the (nil,nil)-capable PEM parser use its result only where it is known non-nil. (USEGUARD) direct callers of the (nil,nil)-capable PEM parser in cli, cli/util and cmd/bifrost use its result only where it is known non-nil. Key-type dispatch and Ed25519 private-key decode gates (shared with C11). (OWNERSHIP) the key decoders unmarshal into a zero message.",
		NotCov:      "that a re-load yields the same peer identity (PEM/protobuf round-trip, C11) and OS-level file semantics.",
		Assumptions: commonAssumptions})
}
