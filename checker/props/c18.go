package props

import (
	"fmt"

	"bifrostverify/an"

	"golang.org/x/tools/go/ssa"
)

// builderWrites lists the operands appended to the strings.Builder of fn, in program order:
// each item is (kind, value) with kind in {"str","byte"}.
type bw struct {
	kind string
	v    ssa.Value
}

func builderWrites(fn *ssa.Function) []bw {
	var out []bw
	for _, b := range an.ScanBlocks(fn) {
		for _, ins := range b.Instrs {
			call, ok := ins.(*ssa.Call)
			if !ok {
				continue
			}
			switch {
			case an.IsCallTo(call, an.X("strings", "Builder", "WriteString")):
				out = append(out, bw{"str", call.Call.Args[1]})
			case an.IsCallTo(call, an.X("strings", "Builder", "WriteByte")):
				out = append(out, bw{"byte", call.Call.Args[1]})
			}
		}
	}
	return out
}

// framedContext decides R9 for a context-string builder: every variable operand is immediately preceded by
// Itoa(len(same operand)) and a constant separator byte, and every string parameter is written.
func framedContext(c *an.Check, fn *ssa.Function, name string, strParams []int, intParams []int) {
	if fn == nil {
		c.Undecided("CONCAT", name+" is unambiguously framed", nil, "unresolved anchor")
		return
	}
	w := builderWrites(fn)
	written := map[int]bool{}
	ok, why := len(w) > 0, "no builder writes found"
	for i, it := range w {
		if it.kind != "str" {
			continue
		}
		if _, isConst := an.StrConstOf(it.v); isConst {
			continue
		}
		if g := globalLoad(it.v); g != nil {
			continue // package-level constant prefix
		}
		if call := an.ResultCallTo(it.v, an.X("strconv", "", "Itoa")); call != nil {
			continue
		}
		pv, isParam := it.v.(*ssa.Parameter)
		if !isParam {
			ok, why = false, "a written operand is neither a constant, a decimal number nor a parameter"
			continue
		}
		idx := -1
		for k, pp := range fn.Params {
			if pp == pv {
				idx = k
			}
		}
		written[idx] = true
		// must be preceded by Itoa(len(pv)) then a constant byte
		framed := i >= 2 && w[i-1].kind == "byte" && w[i-2].kind == "str"
		if framed {
			_, isK := w[i-1].v.(*ssa.Const)
			it2 := an.ResultCallTo(w[i-2].v, an.X("strconv", "", "Itoa"))
			framed = isK && it2 != nil
			if framed {
				l, isLen := it2.Call.Args[0].(*ssa.Call)
				framed = isLen && an.BuiltinName(l) == "len" && l.Call.Args[0] == ssa.Value(pv)
			}
		}
		if !framed {
			ok, why = false, fmt.Sprintf("parameter %s is written without being immediately preceded by the decimal of its own length and a separator", pv.Name())
		}
	}
	for _, sp := range strParams {
		if !written[sp] {
			ok, why = false, fmt.Sprintf("string parameter #%d never enters the context string", sp)
		}
	}
	for _, ip := range intParams {
		found := false
		for _, it := range w {
			if call := an.ResultCallTo(it.v, an.X("strconv", "", "Itoa")); call != nil && an.IsParam(call.Call.Args[0], ip) {
				found = true
			}
		}
		if !found {
			ok, why = false, fmt.Sprintf("integer parameter #%d never enters the context string", ip)
		}
	}
	c.Require(ok, "CONCAT", name+" is unambiguously framed and binds every parameter", fn, "", len(w), fmt.Sprintf("%d builder writes: each variable operand is length-prefixed with its own length", len(w)), why)
}

func c18(c *an.Check) {
	p := c.P
	build, unlock := envelopeFuncs(c)
	if build == nil || unlock == nil {
		return
	}
	unlockGates(c, unlock)
	// everything that touches key material happens after the context test: decrypt calls only past it
	c.Gate(an.GateSpec{Construct: "envelope.UnlockEnvelope grant decryption", Fn: unlock,
		Sink: func(s *an.State, ins ssa.Instruction) bool { return an.IsCallTo(ins, cDecryptPriv) },
		Reqs: []an.Req{{Name: "context hash matched", Holds: func(s *an.State, at ssa.Instruction) bool {
			for _, call := range an.Calls(unlock, an.X("bytes", "", "Equal")) {
				if s.IsTrue(call) {
					return true
				}
			}
			return false
		}}}})
	// ErrContextMismatch surfaces
	c.ErrProp(an.ErrPropSpec{Construct: "envelope.UnlockEnvelope reports a context mismatch", Fn: unlock, ErrIdx: -1, Failing: func(s *an.State) (bool, string) {
		for _, call := range an.Calls(unlock, an.X("bytes", "", "Equal")) {
			if s.IsFalse(call) {
				return true, "the context hash differs"
			}
		}
		return false, ""
	}})
	// MIRROR seal / unseal
	bg, ug := an.Calls(build, cGrantCtx), an.Calls(unlock, cGrantCtx)
	bd, ud := an.Calls(build, cDeriveEnc), an.Calls(unlock, cDeriveEnc)
	okM, why := len(bg) == 1 && len(ug) == 1 && len(bd) == 1 && len(ud) == 1, "expected one grant-context and one key-derivation call on each side"
	if okM {
		// grant index argument is the range index of the grants loop on both sides; context is the function's context parameter
		if !an.IsParam(bg[0].Call.Args[1], 1) || !an.IsParam(ug[0].Call.Args[1], 0) {
			okM, why = false, "the grant context is not built from the caller's context parameter on both sides"
		}
		isRangeIdx := func(v ssa.Value) bool { _, isPhi := v.(*ssa.Phi); _, isBin := v.(*ssa.BinOp); return isPhi || isBin }
		if okM && (!isRangeIdx(bg[0].Call.Args[2]) || !isRangeIdx(ug[0].Call.Args[2])) {
			okM, why = false, "the grant index argument is not the loop index on both sides"
		}
		if okM && (!an.IsParam(bd[0].Call.Args[2], 1) || !an.IsParam(ud[0].Call.Args[2], 0)) {
			okM, why = false, "the payload key is not derived with the caller's context on both sides"
		}
		// envelope id: the value stored in the envelope (build) / read from it (unlock), same variable for both uses
		if okM && (p.Key(bg[0].Call.Args[0]) != p.Key(bd[0].Call.Args[1]) || an.ResultCallTo(ug[0].Call.Args[0], cEnvGetEnvID) == nil || an.ResultCallTo(ud[0].Call.Args[1], cEnvGetEnvID) == nil) {
			okM, why = false, "grant context and payload key do not use the same envelope id (build) / the envelope's id (unlock)"
		}
		// encryption uses that context
		ec := an.Calls(build, cEncryptPub)
		if okM && !(len(ec) == 1 && ec[0].Call.Args[1] == ssa.Value(bg[0])) {
			okM, why = false, "grants are not encrypted under the grant context"
		}
		dc := an.Calls(unlock, cDecryptPriv)
		if okM && !(len(dc) == 1 && dc[0].Call.Args[1] == ssa.Value(ug[0])) {
			okM, why = false, "grants are not decrypted under the grant context"
		}
	}
	c.Require(okM, "MIRROR", "envelope seal/unseal build grant context and payload key from the same (envelope id, context, grant index)", unlock, "", 4, "both sides: grantCtx(envelope id, context param, loop index); deriveKey(scalar, envelope id, context param)", why)
	// the envelope records the id and hash(context) it sealed with
	okRec := false
	hc := an.Calls(build, cHashCtx)
	if len(hc) == 1 && an.IsParam(hc[0].Call.Args[0], 1) {
		for _, b := range an.ScanBlocks(build) {
			for _, ins := range b.Instrs {
				if st, ok := ins.(*ssa.Store); ok {
					if f := an.FieldOfAddr(st.Addr); f != nil && f.Name() == "ContextHash" && st.Val == ssa.Value(hc[0]) {
						okRec = true
					}
				}
			}
		}
	}
	c.Require(okRec, "MIRROR", "envelope.BuildEnvelope records hash(context) in the envelope", build, "", 1, "ContextHash = hashContext(context)", "the sealed envelope does not record the hash of the sealing context")
	// R9 on the two builders and the key-derivation wrapper
	gcf := one(pkgFuncsWhere(p, "envelope", func(f *ssa.Function) bool { return f.Name() == cGrantCtx.Name }))
	var kdf *ssa.Function
	if de := one(pkgFuncsWhere(p, "envelope", func(f *ssa.Function) bool { return f.Name() == cDeriveEnc.Name })); de != nil {
		// the context builder it calls
		for _, b := range an.ScanBlocks(de) {
			for _, ins := range b.Instrs {
				if call, ok := ins.(*ssa.Call); ok {
					if f, ok := call.Call.Value.(*ssa.Function); ok && f.Pkg == de.Pkg && len(builderWrites(f)) > 0 {
						kdf = f
						okArgs := an.IsParam(call.Call.Args[0], 1) && an.IsParam(call.Call.Args[1], 2)
						c.Require(okArgs, "PROVENANCE", "envelope key derivation passes (envelope id, context) to its context builder", de, "", 1, "builder(envelopeID, context)", "the key-derivation context is not built from the envelope id and context parameters")
					}
				}
			}
		}
		dk := an.Calls(de, an.X(blake3Pkg, "", "DeriveKey"))
		c.Require(len(dk) == 1 && an.IsParam(dk[0].Call.Args[1], 0), "PROVENANCE", "envelope key derivation feeds the scalar bytes to the KDF", de, "", len(dk), "blake3.DeriveKey(ctx, scalarBytes, key)", "the KDF input is not the scalar bytes parameter")
	}
	framedContext(c, gcf, "envelope grant encryption context", []int{0, 1}, []int{2})
	framedContext(c, kdf, "envelope key derivation context", []int{0, 1}, nil)
	// PANIC
	if bce := peerBCE(c, "./envelope"); bce != nil {
		pre := []an.Precond{
			{Callee: cRecover, Desc: "secretsharing.Recover needs pairwise distinct share ids", Holds: func(s *an.State, call *ssa.Call) (bool, string) {
				return true, "distinctness is decided by the de-duplication obligations (canonical key) of C16/C18"
			}},
			{Invoke: "Open", Desc: "XChaCha20-Poly1305 Open needs a NonceSize-byte nonce", Holds: func(s *an.State, call *ssa.Call) (bool, string) {
				sl, ok := s.Canon(call.Call.Args[1]).(*ssa.Slice)
				if ok && sl.Low == nil && sl.High != nil {
					if h, isCall := s.Canon(sl.High).(*ssa.Call); isCall && h.Call.IsInvoke() && h.Call.Method.Name() == "NonceSize" && s.Key(h.Call.Value) == s.Key(call.Call.Value) {
						return true, "nonce is ct[:aead.NonceSize()] of the same AEAD"
					}
				}
				return false, "nonce length is not tied to the AEAD's NonceSize"
			}},
		}
		mp := one(pkgFuncsWhere(p, "envelope", func(f *ssa.Function) bool { return f.Name() == "matchPrivKeys" }))
		c.Totality(an.PanicSpec{Construct: "envelope unsealing totality", Funcs: []*ssa.Function{unlock, mp, gcf, kdf}, BCE: bce, Min: 4, Preconds: pre, Reviewed: map[string]string{}})
	}
	// the grant decryption chain is part of unsealing: tampered grant ciphertexts reach it
	peerEncryptTotality(c, "envelope grant decryption chain totality")
	seenSetScope(c, unlock)
	decryptInputUntouched(c)
	// de-duplication key (Recover's precondition)
	var seenLook []*ssa.Lookup
	for _, b := range an.ScanBlocks(unlock) {
		for _, ins := range b.Instrs {
			if x, ok := ins.(*ssa.Lookup); ok && x.CommaOk {
				if _, isMake := x.X.(*ssa.MakeMap); isMake {
					seenLook = append(seenLook, x)
				}
			}
		}
	}
	okK := len(seenLook) == 1 && p.DependsOn(seenLook[0].Index, func(v ssa.Value) bool {
		call, ok := v.(*ssa.Call)
		return ok && call.Call.IsInvoke() && call.Call.Method.Name() == "MarshalBinary"
	})
	c.Require(okK, "PROVENANCE", "envelope.UnlockEnvelope de-duplicates by the canonical encoding of the decoded share id", unlock, "", 1, "seen key derives from id.MarshalBinary()", "raw wire bytes are used as de-duplication key: equivalent encodings reach secretsharing.Recover, which panics on duplicate ids")
	c.Trust("XChaCha20-Poly1305 integrity", "circl secretsharing.Recover (panics only on duplicate ids / wrong count)", "protobuf-go-lite UnmarshalVT never panics")
}

func init() {
	register(&Def{ID: "C18", Run: c18,
		Explain:     "Decides on SSA: (R1) no grant is decrypted and no payload returned unless bytes.Equal(stored context hash, hash(context)) was true, and a mismatch returns a non-nil error; (MIRROR) seal and unseal build the grant context from (envelope id, caller's context, loop index) and the payload key from (scalar, envelope id, caller's context), encrypt/decrypt grants under exactly that context, and the envelope records hash(context); (CONCAT) both context-string builders write every string parameter immediately preceded by the decimal of its own length and a separator, and bind every parameter; (PANIC) unsealing has no undischarged compiler-unproven bounds check (the nonce split is guarded by len(ct) >= aead.NonceSize() of the same AEAD), and secretsharing.Recover's distinct-id precondition is carried by the canonical de-duplication key. (PANIC) the grant decryption chain (DecryptWithPrivKey/DecryptWithEd25519/extra25519) is part of the totality scope; (LOOPALLOC) one seen-set across all grants. Generated codec sanity for package envelope; decrypt leaves its input untouched.",
		NotCov:      "AEAD integrity and 'never a different payload' as a value statement (trusted AEAD + the mirror).",
		Assumptions: commonAssumptions})
}
