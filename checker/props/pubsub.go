package props

import (
	"fmt"
	"go/types"
	"strings"

	"bifrostverify/an"

	"golang.org/x/tools/go/ssa"
)

const (
	fsPkg = "pubsub/floodsub"
	pmPkg = "pubsub/util/pubmessage"
)

var cPMEAV = an.R(pmPkg, "", "ExtractAndVerify")

func pubmessageObligations(c *an.Check) {
	p := c.P
	loadConst(c, pmPkg, "pubMessageEncContext")
	eav := p.Func(pmPkg, "", "ExtractAndVerify")
	npm := p.Func(pmPkg, "", "NewPubMessage")
	iv := p.Func(pmPkg, "PubMessageInner", "Validate")
	if eav == nil || npm == nil || iv == nil {
		c.Undecided("GATE", "pubmessage.ExtractAndVerify", nil, "unresolved anchor")
		return
	}
	cUnm := an.R(pmPkg, "PubMessageInner", "UnmarshalVT")
	cVal := an.R(pmPkg, "PubMessageInner", "Validate")
	c.Gate(an.GateSpec{Construct: "pubmessage.ExtractAndVerify success-return", Fn: eav, Sink: successReturn, Reqs: []an.Req{
		an.CallOK("inner decodes", cUnm), an.CallOK("inner validates (non-empty channel)", cVal), an.CallOK("signature verifies", cSignedEAV)}})
	for _, cal := range []an.Callee{cUnm, cVal, cSignedEAV} {
		c.ErrProp(an.ErrPropSpec{Construct: "pubmessage.ExtractAndVerify propagates failure of " + cal.String(), Fn: eav, Failing: an.CallFailed(cal), ErrIdx: -1})
	}
	// context = constant ‖ the decoded inner's channel; the inner returned is that same decoded inner, decoded from the message's own data
	ok, why := true, ""
	var eavHelper *ssa.Function
	vc := an.Calls(eav, cSignedEAV)
	um := an.Calls(eav, cUnm)
	if len(vc) != 1 || len(um) != 1 {
		ok, why = false, "expected one decode and one verify call"
	} else {
		vConst, vChan, vHelper := ctxParts(p, vc[0].Call.Args[1])
		if !vConst {
			ok, why = false, "verification context is not the package constant followed by the channel"
		} else if gc := an.ResultCallTo(vChan, an.R(pmPkg, "PubMessageInner", "GetChannel")); gc == nil || gc.Call.Args[0] != um[0].Call.Args[0] {
			ok, why = false, "the channel in the verification context is not the decoded inner's channel"
		}
		eavHelper = vHelper
		if ok && !an.IsParam(vc[0].Call.Args[0], 0) {
			ok, why = false, "the signature verified is not the message parameter's"
		}
		if ok && an.ResultCallTo(um[0].Call.Args[1], an.R("peer", "SignedMsg", "GetData")) == nil {
			ok, why = false, "the inner is not decoded from the signed message's body"
		}
	}
	c.Require(ok, "PROVENANCE", "pubmessage.ExtractAndVerify verifies under const‖inner.channel of the body it decoded", eav, "", 2, "ExtractAndVerify(msg, ctx+out.GetChannel()) with out = Unmarshal(msg.GetData())", why)
	c.EachReturn("PROVENANCE", "pubmessage.ExtractAndVerify returns the verified inner", eav, "returned inner is the decoded+validated one", func(s *an.State, ret *ssa.Return) string {
		if s.KnownNonNilErr(s.RetVal(ret, -1)) {
			return ""
		}
		if len(um) != 1 || s.Key(s.RetVal(ret, 0)) != s.Key(um[0].Call.Args[0]) {
			return "a success return yields an inner other than the one that was decoded and validated"
		}
		return ""
	})
	// mirror: NewPubMessage signs under const‖channelID and records channelID in the inner
	ns := an.Calls(npm, an.R("peer", "", "NewSignedMsg"))
	okM := len(ns) == 1
	if okM {
		sConst, sChan, sHelper := ctxParts(p, ns[0].Call.Args[0])
		okM = sConst && an.IsParam(sChan, 0) && sHelper == eavHelper
		chF := p.FieldVar(an.FieldRef{Pkg: pmPkg, Type: "PubMessageInner", Field: "Channel"})
		rec := false
		for _, a := range p.FieldAccesses(chF, []*ssa.Function{npm}) {
			if a.Kind == an.Write && an.IsParam(a.Val, 0) {
				rec = true
			}
		}
		okM = okM && rec && an.ResultCallTo(ns[0].Call.Args[3], an.R(pmPkg, "PubMessageInner", "MarshalVT")) != nil
	}
	c.Require(okM, "MIRROR", "pubmessage.NewPubMessage signs Marshal(inner{Channel: ch}) under const‖ch", npm, "", 1, "sign side mirrors the verify side", "NewPubMessage does not sign the marshalled inner under the constant followed by the same channel it records")
	c.Gate(an.GateSpec{Construct: "pubmessage.PubMessageInner.Validate success-return", Fn: iv, Sink: successReturn, Reqs: []an.Req{
		an.FactReq("channel != \"\"", func(s *an.State, x, y ssa.Value, r an.Rel) bool {
			return r&an.EQ == 0 && an.IsStrConst(y, "") && an.ResultCallTo(x, an.R(pmPkg, "PubMessageInner", "GetChannel")) != nil
		})}})
}

// ctxParts decomposes a pubmessage signing context: the package constant followed by a channel id, written inline
// (const + ch) or through a one-argument repository helper whose result is built from that constant (then the helper is
// returned so that the sign and verify sides can be required to use the same one).
func ctxParts(p *an.Prog, v ssa.Value) (hasConst bool, ch ssa.Value, helper *ssa.Function) {
	if add, ok := v.(*ssa.BinOp); ok {
		return isNamedConst(add.X, "pubMessageEncContext"), add.Y, nil
	}
	if call, ok := v.(*ssa.Call); ok && len(call.Call.Args) == 1 {
		if f := call.Call.StaticCallee(); f != nil && f.Pkg != nil && strings.HasPrefix(f.Pkg.Pkg.Path(), an.Mod) && len(f.Blocks) > 0 {
			okH := len(f.Params) == 1
			for _, b := range an.ScanBlocks(f) {
				for _, ins := range b.Instrs {
					if r, isR := ins.(*ssa.Return); isR {
						add, isAdd := r.Results[0].(*ssa.BinOp)
						okH = okH && isAdd && isNamedConst(add.X, "pubMessageEncContext") && add.Y == ssa.Value(f.Params[0])
					}
				}
			}
			return okH, call.Call.Args[0], f
		}
	}
	return false, nil, nil
}

func c27(c *an.Check) {
	p := c.P
	hp := p.Func(fsPkg, "streamHandler", "handlePublish")
	chF := fv(c, fsPkg, "FloodSub", "channels")
	if hp == nil || chF == nil {
		c.Undecided("GATE", "floodsub.handlePublish", nil, "unresolved anchor")
		return
	}
	cHVM := an.R(fsPkg, "FloodSub", "handleValidMessage")
	c.Gate(an.GateSpec{Construct: "floodsub handlePublish accepts a message (handleValidMessage)", Fn: hp,
		Sink: func(s *an.State, ins ssa.Instruction) bool { return an.IsCallTo(ins, cHVM) },
		Reqs: []an.Req{
			an.CallOK("pubmessage.ExtractAndVerify ok", cPMEAV),
			{Name: "the verified channel is locally subscribed", Holds: func(s *an.State, at ssa.Instruction) bool {
				for _, b := range an.ScanBlocks(hp) {
					for _, ins := range b.Instrs {
						lk, ok := ins.(*ssa.Lookup)
						if !ok || !lk.CommaOk || !an.IsFieldLoad(lk.X, chF) {
							continue
						}
						gc := an.ResultCallTo(s.Canon(lk.Index), an.R(pmPkg, "PubMessageInner", "GetChannel"))
						if gc == nil || an.ResultCallTo(s.Canon(gc.Call.Args[0]), cPMEAV) == nil {
							continue
						}
						for _, r := range *lk.Referrers() {
							if e, ok := r.(*ssa.Extract); ok && e.Index == 1 && s.IsTrue(e) {
								return true
							}
						}
					}
				}
				return false
			}},
			{Name: "hands on the verified packet and its verified inner", Holds: func(s *an.State, at ssa.Instruction) bool {
				call := at.(*ssa.Call)
				a := call.Call.Args // m, ctx, prevHop, pkt, inner
				ev := an.Calls(hp, cPMEAV)
				if len(ev) != 1 || len(a) != 5 {
					return false
				}
				in, ok := s.Canon(a[4]).(*ssa.Extract)
				return ok && in.Index == 0 && in.Tuple == ssa.Value(ev[0]) && s.Key(a[3]) == s.Key(ev[0].Call.Args[0])
			}},
		}})
	pubmessageObligations(c)
	deliveredMessageProvenance(c)
	subscriptionReleaseDiscipline(c)
	signedMsgCore(c)
	sweepObligations(c)
	floodsubLockset(c)
}

func floodsubLockset(c *an.Check) {
	p := c.P
	var g []*types.Var
	for _, f := range []string{"peers", "channels", "peerChannels", "incSessions"} {
		g = append(g, fv(c, fsPkg, "FloodSub", f))
	}
	c.LockSet(an.LockSpec{Construct: "floodsub router state (FloodSub.mtx)", Guard: fv(c, fsPkg, "FloodSub", "mtx"), Guarded: g, Funcs: p.PkgFuncs(fsPkg), Min: 15})
	c.LockSet(an.LockSpec{Construct: "floodsub subscription handlers (subscription.mtx)", Guard: fv(c, fsPkg, "subscription", "mtx"), Guarded: []*types.Var{fv(c, fsPkg, "subscription", "handlers"), fv(c, fsPkg, "subscriptionHandler", "cb")}, Funcs: p.PkgFuncs(fsPkg), Min: 5})
}

// sweepObligations decides the bookkeeping of Execute's channel sweep: an empty channel entry is always removed (a stale
// entry keeps the channel "subscribed" for handlePublish), a withdrawal forgets the announcement (so a later
// re-subscription is announced again) and an announcement is remembered (so it is withdrawn later and not repeated).
func sweepObligations(c *an.Check) {
	p := c.P
	exe := p.Func(fsPkg, "FloodSub", "Execute")
	chF := fv(c, fsPkg, "FloodSub", "channels")
	if exe == nil || chF == nil {
		c.Undecided("MUSTCALL", "floodsub Execute sweep", nil, "unresolved anchor")
		return
	}
	st := p.NewState(exe)
	isLocalMap := func(v ssa.Value) bool {
		for _, src := range waitSources(p, v) {
			if _, ok := src.(*ssa.MakeMap); ok {
				return true
			}
		}
		_, ok := v.(*ssa.MakeMap)
		return ok
	}
	loopHead := func(at *ssa.BasicBlock) func(*ssa.BasicBlock) bool {
		loop := an.InnermostLoop(exe, at)
		return func(b *ssa.BasicBlock) bool {
			if loop == nil {
				return false
			}
			if !loop[b] {
				return true
			}
			// the header of the innermost loop = the block of it that dominates all others
			for o := range loop {
				if !b.Dominates(o) {
					return false
				}
			}
			return true
		}
	}
	// (1) len(subscriptions)==0 => delete(m.channels, ch) before the next iteration
	nEmpty, okEmpty, whyEmpty := 0, true, ""
	for _, b := range an.ScanBlocks(exe) {
		iff, ok := b.Instrs[len(b.Instrs)-1].(*ssa.If)
		if !ok {
			continue
		}
		for _, want := range []bool{true, false} {
			x, y, r, isCmp := st.CondRel(iff.Cond, want)
			if !isCmp || r != an.EQ || !an.IsIntConst(y, 0) || !an.LenOf(st, x, func(a ssa.Value) bool { return strings.Contains(a.Type().String(), "subscription") }) {
				continue
			}
			succ := b.Succs[0]
			if !want {
				succ = b.Succs[1]
			}
			nEmpty++
			ok, bad := an.MustExecBefore(succ.Instrs[0], func(ins ssa.Instruction) bool {
				call, isCall := ins.(*ssa.Call)
				return isCall && an.BuiltinName(call) == "delete" && an.IsFieldLoad(call.Call.Args[0], chF)
			}, loopHead(b))
			if call, isCall := succ.Instrs[0].(*ssa.Call); isCall && an.BuiltinName(call) == "delete" && an.IsFieldLoad(call.Call.Args[0], chF) {
				ok = true
			}
			if !ok {
				okEmpty = false
				whyEmpty = fmt.Sprintf("from the empty-channel branch at %s a path reaches %s without delete(m.channels, ch): the entry stays and handlePublish keeps treating the channel as subscribed", blockPos(p, b), blockPos(p, bad))
			}
		}
	}
	c.Require(okEmpty && nEmpty == 1, "MUSTCALL", "floodsub Execute sweep always removes an empty channel entry", exe, "", nEmpty, "every path from len(subscriptions)==0 deletes the entry before the next iteration", func() string {
		if whyEmpty != "" {
			return whyEmpty
		}
		return fmt.Sprintf("%d empty-channel branches found (anchor drift)", nEmpty)
	}())
	// (2)/(3) announcements and withdrawals keep the announced-set in step
	nAnn, nWd, okAnn, okWd, why := 0, 0, true, true, ""
	for _, b := range an.ScanBlocks(exe) {
		if an.InnermostLoop(exe, b) == nil {
			continue
		}
		for _, ins := range b.Instrs {
			al, ok := ins.(*ssa.Alloc)
			if !ok || !isNamedPtr(al.Type(), "SubscriptionOpts") {
				continue
			}
			// only the sweep's literals (their channel id comes from ranging over m.channels)
			inSweep := false
			for _, dc := range an.DominatingConds(ins) {
				if x, _, _, isCmp := st.CondRel(dc.Cond, dc.Want); isCmp {
					if lk, isLk := st.Canon(x).(*ssa.Extract); isLk {
						if l, isL := lk.Tuple.(*ssa.Lookup); isL && isLocalMap(l.X) {
							inSweep = true
						}
					}
				}
				if e, isE := dc.Cond.(*ssa.Extract); isE {
					if l, isL := e.Tuple.(*ssa.Lookup); isL && isLocalMap(l.X) {
						inSweep = true
					}
				}
			}
			if !inSweep {
				continue
			}
			subscribe := false
			for _, r := range *al.Referrers() {
				fa, isFA := r.(*ssa.FieldAddr)
				if !isFA || an.FieldOfAddr(fa) == nil || an.FieldOfAddr(fa).Name() != "Subscribe" {
					continue
				}
				for _, rr := range *fa.Referrers() {
					if stt, isSt := rr.(*ssa.Store); isSt && isTrueConst(stt.Val) {
						subscribe = true
					}
				}
			}
			if subscribe {
				nAnn++
				ok, _ := an.MustExecBefore(ins, func(i ssa.Instruction) bool {
					mu, isMU := i.(*ssa.MapUpdate)
					return isMU && isLocalMap(mu.Map)
				}, loopHead(b))
				// the record may also precede the literal in the same block
				for _, i := range b.Instrs {
					if mu, isMU := i.(*ssa.MapUpdate); isMU && isLocalMap(mu.Map) {
						ok = true
					}
				}
				if !ok {
					okAnn = false
					why = fmt.Sprintf("the announcement built at %s is not recorded in the announced-set: it is repeated on every evaluation and never withdrawn", p.Pos(al.Pos()))
				}
			} else {
				nWd++
				isDel := func(i ssa.Instruction) bool {
					call, isCall := i.(*ssa.Call)
					return isCall && an.BuiltinName(call) == "delete" && isLocalMap(call.Call.Args[0])
				}
				ok, _ := an.MustExecBefore(ins, isDel, loopHead(b))
				for _, i := range b.Instrs {
					if isDel(i) {
						ok = true
					}
				}
				if !ok {
					okWd = false
					why = fmt.Sprintf("the withdrawal built at %s does not remove the channel from the announced-set: a later re-subscription is never announced to peers again", p.Pos(al.Pos()))
				}
			}
		}
	}
	c.Require(okAnn && okWd && nAnn == 1 && nWd == 1, "MUSTCALL", "floodsub Execute sweep keeps the announced-set in step with what it tells peers", exe, "", nAnn+nWd, "announce => record; withdraw => forget", func() string {
		if why != "" {
			return why
		}
		return fmt.Sprintf("%d announcements / %d withdrawals found in the sweep (anchor drift)", nAnn, nWd)
	}())
}

func blockPos(p *an.Prog, b *ssa.BasicBlock) string {
	if b == nil {
		return "the function exit"
	}
	for _, ins := range b.Instrs {
		if ins.Pos().IsValid() {
			return p.Pos(ins.Pos())
		}
	}
	return fmt.Sprintf("block %d", b.Index)
}

func c28(c *an.Check) {
	p := c.P
	ep := p.Func(fsPkg, "FloodSub", "execPublish")
	hvm := p.Func(fsPkg, "FloodSub", "handleValidMessage")
	seenF := fv(c, fsPkg, "FloodSub", "seenMessages")
	if ep == nil || hvm == nil || seenF == nil {
		c.Undecided("GATE", "floodsub.execPublish", nil, "unresolved anchor")
		return
	}
	perKeySetsAreFresh(c, "floodsub per-channel subscriber sets are not shared between channels", []*ssa.Function{p.Func(fsPkg, "streamHandler", "handleSubscriptions")})
	cWrite := an.R(fsPkg, "streamHandler", "writePacket")
	c.Gate(an.GateSpec{Construct: "floodsub execPublish forwards to a peer (writePacket)", Fn: ep,
		Sink: func(s *an.State, ins ssa.Instruction) bool { return an.IsCallTo(ins, cWrite) },
		Reqs: []an.Req{
			an.FactReq("peer != claimed origin of the message", func(s *an.State, x, y ssa.Value, r an.Rel) bool {
				return r == an.NE && an.ResultCallTo(x, cIDString) != nil && an.ResultCallTo(y, an.R("peer", "SignedMsg", "GetFromPeerId")) != nil
			}),
			an.FactReq("peer != previous hop", func(s *an.State, x, y ssa.Value, r an.Rel) bool {
				if r != an.NE {
					return false
				}
				isHop := func(v ssa.Value) bool { return an.IsParam(v, 1) }
				isPeer := func(v ssa.Value) bool {
					f := an.FieldOfAddr(v)
					if f == nil {
						if u, ok := v.(*ssa.UnOp); ok {
							f = an.FieldOfAddr(u.X)
						}
					}
					return f != nil && f.Name() == "PeerID"
				}
				return (isHop(y) && isPeer(x)) || (isHop(x) && isPeer(y))
			}),
		}})
	// the packet forwarded is the queued message, to subscribers of its channel
	okP := false
	for _, call := range an.Calls(ep, cWrite) {
		okP = p.DependsOn(call.Call.Args[1], func(v ssa.Value) bool {
			f := an.FieldOfAddr(v)
			return f != nil && f.Name() == "msg"
		})
	}
	c.Require(okP, "PROVENANCE", "floodsub execPublish forwards the queued message", ep, "", 1, "packet built from pubMsg.msg", "the forwarded packet is not built from the queued message")
	// the queue entry carries the verified packet, its verified channel and the peer the packet arrived from
	okQ, whyQ := false, "publishChMsg literal not found in handleValidMessage"
	for _, b := range an.ScanBlocks(hvm) {
		for _, ins := range b.Instrs {
			al, ok := ins.(*ssa.Alloc)
			if !ok || !isNamedPtr(al.Type(), "publishChMsg") {
				continue
			}
			got := map[string]ssa.Value{}
			for _, r := range *al.Referrers() {
				if fa, isFA := r.(*ssa.FieldAddr); isFA && an.FieldOfAddr(fa) != nil {
					for _, rr := range *fa.Referrers() {
						if st, isSt := rr.(*ssa.Store); isSt {
							got[an.FieldOfAddr(fa).Name()] = st.Val
						}
					}
				}
			}
			okQ = true
			if !an.IsParam(got["prevHopPeer"], 2) {
				okQ, whyQ = false, "the queued prevHopPeer is not handleValidMessage's prevHopPeer argument (the stream the packet arrived on): the forwarder would echo the packet back to the peer it came from"
			}
			if !an.IsParam(got["msg"], 3) {
				okQ, whyQ = false, "the queued msg is not the verified packet argument"
			}
			if gc := an.ResultCallTo(got["channelID"], an.R(pmPkg, "PubMessageInner", "GetChannel")); gc == nil || !an.IsParam(gc.Call.Args[0], 4) {
				okQ, whyQ = false, "the queued channelID is not the verified inner's channel"
			}
		}
	}
	deliveredMessageProvenance(c)
	subscriptionReleaseDiscipline(c)
	publishedMessageFreshness(c)
	c.Require(okQ, "PROVENANCE", "floodsub handleValidMessage queues (verified packet, verified channel, arrival peer)", hvm, "", 3, "publishChMsg{msg: pkt, channelID: inner.GetChannel(), prevHopPeer: prevHopPeer}", whyQ)
	okX, whyX := false, "execPublish call not found in Execute"
	if exe := p.Func(fsPkg, "FloodSub", "Execute"); exe != nil {
		for _, call := range an.Calls(exe, an.R(fsPkg, "FloodSub", "execPublish")) {
			a := call.Call.Args // m, prevHop, pubMsg
			okX = false
			whyX = "execPublish's previous-hop argument is not the prevHopPeer recorded in the very queue entry it forwards"
			if u, ok := a[1].(*ssa.UnOp); ok {
				if fa, ok := u.X.(*ssa.FieldAddr); ok && an.FieldOfAddr(fa) != nil && an.FieldOfAddr(fa).Name() == "prevHopPeer" && fa.X == a[2] {
					okX = true
				}
			}
		}
	}
	c.Require(okX, "PROVENANCE", "floodsub Execute forwards with the recorded previous hop", nil, "", 1, "execPublish(pubMsg.prevHopPeer, pubMsg)", whyX)
	// the stream handler names itself as the previous hop
	okS, whyS := false, "handleValidMessage call not found in handlePublish"
	if hp := p.Func(fsPkg, "streamHandler", "handlePublish"); hp != nil {
		for _, call := range an.Calls(hp, an.R(fsPkg, "FloodSub", "handleValidMessage")) {
			okS, whyS = false, "handlePublish does not pass its own stream's peer id as the previous hop"
			if u, ok := call.Call.Args[2].(*ssa.UnOp); ok {
				if f := an.FieldOfAddr(u.X); f != nil && f.Name() == "peerID" {
					if fa, ok := u.X.(*ssa.FieldAddr); ok && an.IsParam(fa.X, 0) {
						okS = true
					}
				}
			}
		}
	}
	c.Require(okS, "PROVENANCE", "floodsub handlePublish names the receiving stream's peer as previous hop", nil, "", 1, "handleValidMessage(ctx, s.peerID, …)", whyS)
	sweepObligations(c)
	// R3 atomicity: the seen-cache is consulted with one atomic test-and-set
	methods := map[string]int{}
	for _, fn := range p.PkgFuncs(fsPkg) {
		for _, b := range an.ScanBlocks(fn) {
			for _, ins := range b.Instrs {
				call, ok := ins.(*ssa.Call)
				if !ok {
					continue
				}
				args := an.CallArgs(call.Common())
				if len(args) > 0 && p.DependsOn(args[0], func(v ssa.Value) bool { return an.IsFieldLoad(v, seenF) }) {
					if fo := an.CallObj(call.Common()); fo != nil {
						methods[fo.Name()]++
					}
				}
			}
		}
	}
	nonAtomic := methods["Get"] > 0 && (methods["Set"] > 0 || methods["SetDefault"] > 0)
	c.Require(!nonAtomic && methods["Add"] >= 1, "ATOMIC", "floodsub de-duplication is one atomic test-and-set on the seen cache", hvm, "", methods["Add"]+methods["Get"]+methods["Set"],
		"the seen cache is only used through its atomic Add", fmt.Sprintf("the seen cache is used through %v: a Get followed by a separate Set lets two concurrent handlers both deliver the same message", methods))
	cAdd := an.X("github.com/patrickmn/go-cache", "*", "Add")
	c.Gate(an.GateSpec{Construct: "floodsub handleValidMessage delivery", Fn: hvm,
		Sink: func(s *an.State, ins ssa.Instruction) bool {
			if _, isGo := ins.(*ssa.Go); isGo {
				return true
			}
			_, _, isSend := an.SelectSend(ins)
			return isSend
		},
		Reqs: []an.Req{{Name: "first sighting (atomic Add succeeded) for this message's id", Holds: func(s *an.State, at ssa.Instruction) bool {
			for _, call := range an.Calls(hvm, cAdd) {
				if s.IsNil(call) && an.ResultCallTo(s.Canon(call.Call.Args[1]), an.R("peer", "SignedMsg", "ComputeMessageID")) != nil {
					return true
				}
			}
			return false
		}}}})
	writePacketBlocking(c)
	floodsubLockset(c)
	c.Note("not decided: delivery to every reachable subscriber in a mesh (topology-quantified, dynamic)")
}

func c29(c *an.Check) {
	p := c.P
	tl := p.Func("pubsub/controller", "trackedLink", "trackLink")
	if tl == nil {
		c.Undecided("ROLE", "pubsub stream opener rule", nil, "unresolved anchor")
		return
	}
	isOpen := func(ins ssa.Instruction) bool { return isInvokeOf(ins, "", "OpenMountedStream") }
	c.Gate(an.GateSpec{Rule: "ROLE", Construct: "pubsub trackLink opens the stream", Fn: tl, Sink: func(s *an.State, ins ssa.Instruction) bool { return isOpen(ins) },
		Reqs: []an.Req{an.FactReq("strict order comparison of the same encoding of (local, remote) peer", func(s *an.State, x, y ssa.Value, r an.Rel) bool {
			if r == an.EQ || r == an.NE || r == an.ANY {
				return false
			}
			side := func(v ssa.Value, m string) bool {
				v = s.Canon(v)
				if sc := an.ResultCallTo(v, cIDString); sc != nil {
					v = s.Canon(sc.Call.Args[0])
				} else if cv, ok := v.(*ssa.Convert); ok {
					v = s.Canon(cv.X)
				}
				call, ok := v.(*ssa.Call)
				return ok && call.Call.IsInvoke() && call.Call.Method.Name() == m
			}
			enc := func(v ssa.Value) string {
				if an.ResultCallTo(s.Canon(v), cIDString) != nil {
					return "b58"
				}
				return "raw"
			}
			return side(x, "GetLocalPeer") && side(y, "GetRemotePeer") && enc(x) == enc(y)
		})}})
	// the passive side registers the stream as non-initiator
	hms := p.Func("pubsub/controller", "streamHandler", "HandleMountedStream")
	okH := false
	if hms != nil {
		for _, b := range an.ScanBlocks(hms) {
			for _, ins := range b.Instrs {
				if call, ok := ins.(*ssa.Call); ok && call.Call.IsInvoke() && call.Call.Method.Name() == "AddPeerStream" {
					k, isK := call.Call.Args[1].(*ssa.Const)
					okH = isK && k.Value != nil && k.Value.String() == "false"
				}
			}
		}
	}
	okT := false
	for _, b := range an.ScanBlocks(tl) {
		for _, ins := range b.Instrs {
			if call, ok := ins.(*ssa.Call); ok && call.Call.IsInvoke() && call.Call.Method.Name() == "AddPeerStream" {
				okT = isTrueConst(call.Call.Args[1])
			}
		}
	}
	c.Require(okH && okT, "ROLE", "pubsub stream roles: opener registers as initiator, acceptor as non-initiator", hms, "", 2, "AddPeerStream(tpl,true,…) by the opener / (…,false,…) by the acceptor", "the two ends do not register complementary roles")
	// subscription.Release
	rel := p.Func(fsPkg, "subscription", "Release")
	hF := fv(c, fsPkg, "subscription", "handlers")
	chF := fv(c, fsPkg, "FloodSub", "channels")
	okR := false
	if rel != nil {
		clears, removes, wakes := false, false, false
		for _, g := range an.WithClosures(rel) {
			for _, a := range p.FieldAccesses(hF, []*ssa.Function{g}) {
				if a.Kind == an.MapWrite {
					clears = true
				}
			}
			for _, b := range an.ScanBlocks(g) {
				for _, ins := range b.Instrs {
					if call, ok := ins.(*ssa.Call); ok && an.BuiltinName(call) == "delete" {
						if lk := an.MapLookupOf(call.Call.Args[0]); lk != nil && an.IsFieldLoad(lk.X, chF) {
							removes = true
						}
					}
					if d, ok := ins.(*ssa.Defer); ok && an.IsCallTo(d, an.R(fsPkg, "FloodSub", "wake")) {
						wakes = true
					}
					if an.IsCallTo(ins, an.R(fsPkg, "FloodSub", "wake")) {
						wakes = true
					}
				}
			}
		}
		okR = clears && removes && wakes
	}
	c.Require(okR, "MUSTCALL", "floodsub subscription.Release clears handlers, leaves the channel and wakes the router", rel, "", 3, "delete(handlers…), delete(channels[ch], s), wake()", "Release does not clear its handlers / remove itself from the channel / wake the router")
	// Execute's sweep: a channel entry is deleted only when it has no subscriptions; the withdrawal is sent only if it was announced
	exe := p.Func(fsPkg, "FloodSub", "Execute")
	// (dominance form: Execute's loops make full path enumeration needlessly expensive)
	nDel, okDel := 0, true
	if exe != nil {
		st := p.NewState(exe)
		for _, b := range an.ScanBlocks(exe) {
			for _, ins := range b.Instrs {
				call, ok := ins.(*ssa.Call)
				if !ok || an.BuiltinName(call) != "delete" || !an.IsFieldLoad(call.Call.Args[0], chF) {
					continue
				}
				nDel++
				guarded := false
				for _, dc := range an.DominatingConds(ins) {
					x, y, r, isCmp := st.CondRel(dc.Cond, dc.Want)
					if isCmp && r == an.EQ && an.IsIntConst(y, 0) && an.LenOf(st, x, func(a ssa.Value) bool { return strings.Contains(a.Type().String(), "subscription") }) {
						guarded = true
					}
				}
				okDel = okDel && guarded
			}
		}
	}
	c.Require(okDel && nDel == 1, "GATE", "floodsub Execute sweep deletes a channel only when it has no subscriptions", exe, "", nDel, "delete(m.channels, ch) is dominated by len(subscriptions)==0", "a channel entry can be deleted while it still has subscriptions")
	// only the sweep removes channel entries: it is the one place that also withdraws the announcement
	nDelAll, badDel := 0, ""
	for _, fn := range p.PkgFuncs(fsPkg) {
		for _, g := range an.WithClosures(fn) {
			for _, b := range an.ScanBlocks(g) {
				for _, ins := range b.Instrs {
					if call, ok := ins.(*ssa.Call); ok && an.BuiltinName(call) == "delete" && an.IsFieldLoad(call.Call.Args[0], chF) {
						nDelAll++
						if an.Outermost(g) != exe {
							badDel = fmt.Sprintf("%s at %s removes a channel entry outside Execute's sweep: the sweep then never sees the empty channel and never tells peers Subscribe=false", an.FuncName(g), p.Pos(call.Pos()))
						}
					}
				}
			}
		}
	}
	c.Require(badDel == "" && nDelAll >= 1, "WHO", "floodsub channel entries are removed only by Execute's sweep", exe, "", nDelAll, "delete(m.channels, …) occurs only in Execute", badDel)
	subscriptionReleaseDiscipline(c)
	channelSubReleaseUnconditional(c)
	sweepObligations(c)
	writePacketBlocking(c)
	floodsubLockset(c)
}

func init() {
	register(&Def{ID: "C27", Run: c27,
		Explain:     "Decides on SSA: floodsub's handlePublish hands a packet to handleValidMessage only past pubmessage.ExtractAndVerify ok and a successful lookup of the verified inner's channel in the local subscriptions, passing the verified packet and its verified inner; pubmessage.ExtractAndVerify succeeds only past decode, inner.Validate (non-empty channel) and SignedMsg.ExtractAndVerify under const‖inner.channel of the body it decoded, returns that inner, and propagates each failure; NewPubMessage mirrors it (MIRROR); router state only under its mutexes (LOCKSET). Inherits C01. (MUSTCALL) the sweep always removes an empty channel entry (a stale entry would keep the channel 'subscribed' for handlePublish) and keeps its announced-set in step (announce ⇒ record, withdraw ⇒ forget). (ORDER) subscription.Release removes exactly itself and tests emptiness after the removal; classifier shared via signedMsgCore.",
		NotCov:      "Ed25519 soundness; timestamp semantics.",
		Assumptions: commonAssumptions})
	register(&Def{ID: "C28", Run: c28,
		Explain:     "Decides on SSA: execPublish writes a packet to a peer only past (peer != claimed origin) and (peer != previous hop), forwarding the queued message; (ATOMIC) the seen-cache is used only through its atomic Add — no Get followed by a separate Set — and handleValidMessage delivers (handler goroutines, publish queue) only when Add succeeded for this message's id; router and subscription state only under their mutexes (LOCKSET). (PROVENANCE) the forwarding queue entry carries (verified packet, verified channel, arrival peer), Execute forwards with the recorded previous hop and the stream handler names its own peer as previous hop; sweep bookkeeping as in C27. (PROVENANCE) NewPubMessage stamps timestamp.Now() at full resolution; Release discipline as in C27. (LOOPALLOC) a per-channel subscriber set stored under a loop's key is created inside that loop.",
		NotCov:      "reachability/delivery in a mesh (topology-quantified, dynamic) and exactly-once across router restarts.",
		Assumptions: commonAssumptions})
	register(&Def{ID: "C29", Run: c29,
		Explain:     "Decides on SSA: (ROLE) trackLink opens the pubsub stream only on one side of a strict order comparison of the same encoding of (local peer, remote peer), registering as initiator, while the accepting handler registers as non-initiator; subscription.Release clears its handlers, removes itself from the channel and wakes the router; Execute's sweep deletes a channel entry only when it has no subscriptions; LOCKSET on router/subscription state. (LOCKSET) a handler callback is read/called only under subscription.mtx; (WHO) channel entries are removed only by Execute's sweep; sweep bookkeeping as in C27. (MUSTCALL) the controller's subscription value releases the router subscription unconditionally; Release discipline as in C27.",
		NotCov:      "that exactly one stream exists per link over all histories.",
		Assumptions: commonAssumptions})
}

// deliveredMessageProvenance: the message handed to subscription handlers reports, as its sender, the peer id decoded
// from the verified packet's own sender field, and carries the verified inner message.
func deliveredMessageProvenance(c *an.Check) {
	p := c.P
	hvm := p.Func(fsPkg, "FloodSub", "handleValidMessage")
	ok, why := false, "pubmessage.NewMessage call not found in handleValidMessage"
	if hvm != nil {
		for _, call := range an.Calls(hvm, an.R(pmPkg, "", "NewMessage")) {
			ok, why = true, ""
			dec := an.ResultCallTo(call.Call.Args[0], an.R("peer", "", "IDB58Decode"))
			if dec == nil {
				ok, why = false, "the sender reported to subscribers is not the peer id decoded from the packet (e.g. the previous hop): messages relayed over more than one hop are attributed to the relay while still flagged authenticated"
			} else if g := an.ResultCallTo(dec.Call.Args[0], an.R("peer", "SignedMsg", "GetFromPeerId")); g == nil || !an.IsParam(g.Call.Args[0], 3) {
				ok, why = false, "the reported sender is not decoded from the verified packet's own from_peer_id"
			}
			if !an.IsParam(call.Call.Args[1], 4) {
				ok, why = false, "the delivered message does not carry the verified inner message"
			}
		}
	}
	c.Require(ok, "PROVENANCE", "floodsub delivers messages attributed to the verified signer", hvm, "", 1, "NewMessage(IDB58Decode(pkt.GetFromPeerId()), verified inner)", why)
}

// writePacketBlocking: the per-peer send helper never drops a packet silently: its send on the peer's queue is a blocking
// select (no default case) whose only alternative is the stream context ending. The one-shot Subscribe=false notice and
// every forwarded message go through it.
func writePacketBlocking(c *an.Check) {
	wp := c.P.Func(fsPkg, "streamHandler", "writePacket")
	ok, why := false, "writePacket not found"
	if wp != nil {
		why = "no send on the peer's packet queue found"
		for _, b := range an.ScanBlocks(wp) {
			for _, ins := range b.Instrs {
				switch x := ins.(type) {
				case *ssa.Select:
					for _, st := range x.States {
						if st.Dir == types.SendOnly {
							ok, why = true, ""
							if !x.Blocking {
								ok, why = false, "the send on the peer's queue has a default case: when the queue is full the packet (e.g. the one-shot Subscribe=false notice) is dropped silently"
							}
						}
					}
				case *ssa.Send:
					ok, why = true, ""
				}
			}
		}
	}
	c.Require(ok, "MUSTCALL", "floodsub writePacket never drops a packet silently", wp, "", 1, "blocking send (alternatives: context done only)", why)
}

// subscriptionReleaseDiscipline: releasing a local subscription removes exactly that subscription from its channel (never
// its siblings), and the decision to wake the router ("the channel may now be empty") is taken on the state AFTER the
// removal — otherwise the empty entry is never swept and the node keeps accepting messages for the channel.
func subscriptionReleaseDiscipline(c *an.Check) {
	p := c.P
	rel := p.Func(fsPkg, "subscription", "Release")
	chF := fv(c, fsPkg, "FloodSub", "channels")
	if rel == nil || chF == nil {
		c.Undecided("ORDER", "floodsub subscription.Release bookkeeping", nil, "unresolved anchor")
		return
	}
	nDel, bad := 0, ""
	for _, g := range an.WithClosures(rel) {
		var dels []*ssa.Call
		for _, b := range an.ScanBlocks(g) {
			for _, ins := range b.Instrs {
				call, ok := ins.(*ssa.Call)
				if !ok {
					continue
				}
				switch an.BuiltinName(call) {
				case "delete":
					if lk := an.MapLookupOf(call.Call.Args[0]); lk != nil && an.IsFieldLoad(lk.X, chF) {
						dels = append(dels, call)
						nDel++
						// the key removed is the receiver itself
						k := call.Call.Args[1]
						if mi, isMI := k.(*ssa.MakeInterface); isMI {
							k = mi.X
						}
						if !(an.IsParam(k, 0) || p.DependsOn(k, func(v ssa.Value) bool { return an.IsParam(v, 0) }) || isFreeVarOfParam(p, k)) {
							bad = "Release removes something other than the released subscription from the channel's set"
						}
					}
				case "clear":
					if lk := an.MapLookupOf(call.Call.Args[0]); lk != nil && an.IsFieldLoad(lk.X, chF) {
						bad = "Release clears the channel's whole subscription set: sibling subscriptions on the same channel are dropped and the channel is withdrawn from peers"
					}
				}
			}
		}
		// len(channel set) is read only after the delete on every path
		for _, b := range an.ScanBlocks(g) {
			for _, ins := range b.Instrs {
				call, ok := ins.(*ssa.Call)
				if !ok || an.BuiltinName(call) != "len" {
					continue
				}
				lk := an.MapLookupOf(call.Call.Args[0])
				if lk == nil || !an.IsFieldLoad(lk.X, chF) {
					continue
				}
				for _, d := range dels {
					// the delete must dominate the length test, or be skipped only because the set is nil
					if !(d.Block().Dominates(call.Block())) {
						okNil := false
						for _, dc := range an.DominatingConds(d) {
							_ = dc
							okNil = true // the delete is conditional (set != nil): the len test after the join is still "after"
						}
						reach := false
						seen := map[*ssa.BasicBlock]bool{}
						var walk func(x *ssa.BasicBlock)
						walk = func(x *ssa.BasicBlock) {
							if x == call.Block() {
								reach = true
								return
							}
							if seen[x] {
								return
							}
							seen[x] = true
							for _, n := range x.Succs {
								walk(n)
							}
						}
						walk(d.Block())
						if !okNil || !reach {
							bad = "Release tests whether the channel became empty before it removed itself: releasing the last subscription never wakes the router, the empty entry is never swept"
						}
					}
				}
				if len(dels) == 0 {
					bad = "Release tests the channel's size but never removes itself"
				}
			}
		}
	}
	c.Require(bad == "" && nDel == 1, "ORDER", "floodsub subscription.Release removes exactly itself, then decides whether the channel is empty", rel, "", nDel, "delete(subs, s) precedes len(subs)==0", func() string {
		if bad != "" {
			return bad
		}
		return fmt.Sprintf("%d removals found (anchor drift)", nDel)
	}())
}

func isFreeVarOfParam(p *an.Prog, v ssa.Value) bool {
	if fvv, ok := v.(*ssa.FreeVar); ok {
		b := p.Binding(fvv)
		return b != nil && an.IsParam(b, 0)
	}
	return false
}

// publishedMessageFreshness: two publishes of the same payload by the same peer are different messages: the signed inner
// carries the current time at full resolution (the message id — the de-duplication key — is derived from the signature).
func publishedMessageFreshness(c *an.Check) {
	p := c.P
	npm := p.Func(pmPkg, "", "NewPubMessage")
	ok, why := false, "NewPubMessage / its inner literal not found"
	if npm != nil {
		for _, b := range an.ScanBlocks(npm) {
			for _, ins := range b.Instrs {
				st, isSt := ins.(*ssa.Store)
				if !isSt {
					continue
				}
				if f := an.FieldOfAddr(st.Addr); f != nil && f.Name() == "Timestamp" {
					call, isCall := st.Val.(*ssa.Call)
					if isCall && call.Call.StaticCallee() != nil && call.Call.StaticCallee().Name() == "Now" && len(call.Call.Args) == 0 {
						ok, why = true, ""
					} else {
						ok, why = false, "the timestamp signed into a published message is not timestamp.Now() itself (e.g. truncated): identical payloads published close together get the same message id and the second one is dropped as a duplicate everywhere"
					}
				}
			}
		}
	}
	c.Require(ok, "PROVENANCE", "pubmessage.NewPubMessage stamps each message with the current time at full resolution", npm, "", 1, "Timestamp: timestamp.Now()", why)
}

// channelSubReleaseUnconditional: the subscription value handed out by the pubsub controller releases the router's
// subscription whenever it is released — whether or not the directive value was still attached.
func channelSubReleaseUnconditional(c *an.Check) {
	p := c.P
	res := p.Func("pubsub/controller", "resolveBuildChannelSub", "Resolve")
	ok, why := false, "resolver / release function not found"
	condBad := false
	if res != nil {
		for _, g := range an.WithClosures(res)[1:] {
			for _, b := range an.ScanBlocks(g) {
				for _, ins := range b.Instrs {
					call, isCall := ins.(*ssa.Call)
					if !isCall || !call.Call.IsInvoke() || call.Call.Method.Name() != "Release" {
						continue
					}
					if !strings.Contains(call.Call.Value.Type().String(), "Subscription") {
						continue
					}
					if g.Blocks[0] != call.Block() && len(an.DominatingConds(call)) > 0 {
						condBad = true
					} else {
						ok, why = true, ""
					}
				}
			}
		}
	}
	if condBad {
		ok, why = false, "the router's subscription is released only under a condition (e.g. 'the directive value was still attached'): when the directive is disposed first the subscription, its handlers and the peers' view of it stay forever"
	}
	c.Require(ok, "MUSTCALL", "pubsub controller's subscription value always releases the router subscription", res, "", 1, "relFunc: RemoveValue(..); sub.Release() unconditionally", why)
}

// perKeySetsAreFresh: a set (map) stored as the value of a map-of-sets inside a loop is created inside that loop: one
// set shared between several keys makes a later removal under one key (an unsubscribe from one channel) remove the member
// under every other key as well.
func perKeySetsAreFresh(c *an.Check, construct string, fns []*ssa.Function) {
	p := c.P
	n, bad := 0, ""
	for _, fn := range fns {
		for _, g := range an.WithClosures(fn) {
			for _, b := range an.ScanBlocks(g) {
				for _, ins := range b.Instrs {
					mu, ok := ins.(*ssa.MapUpdate)
					if !ok {
						continue
					}
					if _, isMap := mu.Value.Type().Underlying().(*types.Map); !isMap {
						continue
					}
					loop := an.InnermostLoop(g, b)
					if loop == nil {
						continue
					}
					n++
					for _, src := range waitSources(p, mu.Value) {
						mm, isMake := src.(*ssa.MakeMap)
						if !isMake {
							continue // an existing set looked up from the table, a parameter: not this rule's business
						}
						if !loop[mm.Block()] {
							bad = fmt.Sprintf("%s stores at %s a set created outside the loop (at %s) under a per-iteration key: the keys inserted by one pass share one set", an.FuncName(g), p.Pos(mu.Pos()), p.Pos(mm.Pos()))
						}
					}
				}
			}
		}
		c.Touch(fn)
	}
	c.Sites(n)
	c.Require(bad == "" && n >= 1, "LOOPALLOC", construct, fns[0], "", n, "every set stored under a loop's key is made inside that loop", func() string {
		if bad != "" {
			return bad
		}
		return "no map-of-sets update inside a loop found (anchor drift)"
	}())
}
