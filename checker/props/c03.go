package props

import (
	"go/types"
	"strings"

	"bifrostverify/an"

	"golang.org/x/tools/go/ssa"
)

var (
	fnPubKeyFromCertChain = an.R("crypto/tls", "", "PubKeyFromCertChain")
	fnUnmarshalPublicKey  = an.R("crypto", "", "UnmarshalPublicKey")
	fnIDFromPublicKey     = an.R("peer", "", "IDFromPublicKey")
	fnMarshalPKIX         = an.X("crypto/x509", "", "MarshalPKIXPublicKey")
)

// findClosures returns the function literals nested (transitively) in fn that satisfy pred.
func findClosures(fn *ssa.Function, pred func(*ssa.Function) bool) []*ssa.Function {
	var out []*ssa.Function
	if fn == nil {
		return nil
	}
	for _, g := range an.WithClosures(fn)[1:] {
		if pred(g) {
			out = append(out, g)
		}
	}
	return out
}

func callsAny(fn *ssa.Function, cs ...an.Callee) bool { return len(an.Calls(fn, cs...)) > 0 }

func c03(c *an.Check) {
	expectedPeerForwarding(c)
	p := c.P
	pk := certChainGates(c)
	if pk != nil {
		// provenance of the verification: receiver = returned key = UnmarshalPublicKey(result); message = const prefix ‖ PKIX(cert key)
		vcalls := an.Calls(pk, fnPubKeyVerify)
		ok := len(vcalls) == 1
		det := ""
		for _, vc := range vcalls {
			recv := vc.Call.Value
			if an.ResultCallTo(recv, fnUnmarshalPublicKey) == nil {
				ok, det = false, "Verify receiver is not the key parsed from the extension"
			}
			msg := vc.Call.Args[0]
			if !p.DependsOn(msg, func(v ssa.Value) bool { return an.ResultCallTo(v, fnMarshalPKIX) != nil }) {
				ok, det = false, "verified message does not depend on the PKIX encoding of the certificate key"
			}
			if !p.DependsOnDeep(msg, func(v ssa.Value) bool { return isNamedConst(v, "certificatePrefix") }) {
				ok, det = false, "verified message does not include the certificate prefix constant"
			}
			sig := vc.Call.Args[1]
			if !p.DependsOn(sig, func(v ssa.Value) bool {
				return an.ResultCallTo(v, an.X("encoding/asn1", "", "Unmarshal")) != nil || isAllocOf(v, "signedKey")
			}) {
				ok, det = false, "signature operand does not come from the decoded extension"
			}
		}
		// the self-signature check is made on the chain's certificate over its own TBS bytes and signature
		okSelf, detSelf := false, "no CheckSignature call"
		for _, cs := range an.Calls(pk, an.X("crypto/x509", "Certificate", "CheckSignature")) {
			okSelf, detSelf = true, ""
			recv := cs.Call.Args[0]
			fieldOf := func(v ssa.Value, name string) bool {
				u, isLoad := v.(*ssa.UnOp)
				if !isLoad {
					return false
				}
				fa, isFA := u.X.(*ssa.FieldAddr)
				return isFA && an.FieldOfAddr(fa) != nil && an.FieldOfAddr(fa).Name() == name && fa.X == recv
			}
			if !fieldOf(cs.Call.Args[1], "SignatureAlgorithm") || !fieldOf(cs.Call.Args[2], "RawTBSCertificate") || !fieldOf(cs.Call.Args[3], "Signature") {
				okSelf, detSelf = false, "CheckSignature is not applied to the certificate's own (SignatureAlgorithm, RawTBSCertificate, Signature)"
			}
			// receiver is chain[0]
			if !p.DependsOn(recv, func(v ssa.Value) bool { return an.IsParam(v, 0) }) {
				okSelf, detSelf = false, "CheckSignature is not called on the presented certificate"
			}
		}
		c.Require(okSelf, "PROVENANCE", "p2ptls.PubKeyFromCertChain checks the presented certificate's signature with its own key", pk, "", 1, "cert.CheckSignature(cert.SignatureAlgorithm, cert.RawTBSCertificate, cert.Signature)", detSelf)
		c.Sites(len(vcalls))
		c.Require(ok, "PROVENANCE", "p2ptls.PubKeyFromCertChain verifies prefix‖PKIX(cert key) with the extension's key", pk, "", len(vcalls), "receiver, message and signature operands have the expected provenance", det)
		c.EachReturn("PROVENANCE", "p2ptls.PubKeyFromCertChain returns the verified key", pk, "success returns yield the key that Verify was called on", func(s *an.State, ret *ssa.Return) string {
			if s.KnownNonNilErr(s.RetVal(ret, -1)) {
				return ""
			}
			v := s.RetVal(ret, 0)
			if len(vcalls) == 1 && s.Key(v) == s.Key(vcalls[0].Call.Value) {
				return ""
			}
			return "a success return yields a key other than the one whose signature was verified"
		})
		// the PKIX input is the certificate's own public key (chain[0].PublicKey)
		mc := an.Calls(pk, fnMarshalPKIX)
		okm := len(mc) == 1 && p.DependsOn(mc[0].Call.Args[0], func(v ssa.Value) bool { return an.IsParam(v, 0) })
		c.Require(okm, "PROVENANCE", "p2ptls.PubKeyFromCertChain binds the certificate's own key", pk, "", len(mc), "MarshalPKIXPublicKey input derives from the chain parameter", "MarshalPKIXPublicKey input does not derive from the chain parameter")
	}
	// mirror: GenerateSignedExtension signs the same construction
	gse := p.Func("crypto/tls", "", "GenerateSignedExtension")
	if gse != nil {
		sc := an.Calls(gse, an.R("crypto", "PrivKey", "Sign"))
		ok := len(sc) == 1
		if ok {
			msg := sc[0].Call.Args[0]
			ok = p.DependsOn(msg, func(v ssa.Value) bool { return an.ResultCallTo(v, fnMarshalPKIX) != nil }) &&
				p.DependsOnDeep(msg, func(v ssa.Value) bool { return isNamedConst(v, "certificatePrefix") })
		}
		c.Require(ok, "MIRROR", "p2ptls.GenerateSignedExtension signs prefix‖PKIX(cert key)", gse, "", len(sc), "sign side builds the same message as the verify side", "sign side does not build certificatePrefix‖PKIX(key)")
	} else {
		c.Undecided("MIRROR", "p2ptls.GenerateSignedExtension signs prefix‖PKIX(cert key)", nil, "unresolved anchor")
	}

	// ConfigForPeer: the VerifyPeerCertificate closure
	cfp := p.Func("crypto/tls", "Identity", "ConfigForPeer")
	vcs := findClosures(cfp, func(g *ssa.Function) bool { return callsAny(g, fnPubKeyFromCertChain) })
	if len(vcs) != 1 {
		c.Undecided("GATE", "p2ptls.Identity.ConfigForPeer verify-closure", cfp, "unresolved anchor: expected exactly one closure calling PubKeyFromCertChain")
	} else {
		vc := vcs[0]
		init := p.NewState(vc)
		remoteIs := func(s *an.State, v ssa.Value) bool {
			// the captured `remote` parameter of ConfigForPeer
			v = s.Canon(v)
			if cv, ok := v.(*ssa.Convert); ok {
				v = s.Canon(cv.X)
			}
			return an.IsParam(v, 1) && v.Parent() == cfp
		}
		expectPeer := an.AnyOf("remote==\"\" or remote.MatchesPublicKey(key)",
			an.FactReq("remote==\"\"", func(s *an.State, x, y ssa.Value, r an.Rel) bool {
				return r == an.EQ && an.IsStrConst(y, "") && remoteIs(s, x)
			}),
			an.Req{Name: "MatchesPublicKey true", Holds: func(s *an.State, at ssa.Instruction) bool {
				for _, call := range an.Calls(vc, an.R("peer", "ID", "MatchesPublicKey")) {
					if s.IsTrue(call) && remoteIs(s, call.Call.Args[0]) && an.ResultCallTo(s.Canon(call.Call.Args[1]), fnPubKeyFromCertChain) != nil {
						return true
					}
				}
				return false
			}})
		reqs := []an.Req{an.CallOK("PubKeyFromCertChain ok", fnPubKeyFromCertChain), expectPeer}
		c.Gate(an.GateSpec{Construct: "p2ptls.Identity.ConfigForPeer verify-closure accepts (nil return)", Fn: vc, Init: init, Sink: successReturn, Reqs: reqs})
		c.Gate(an.GateSpec{Construct: "p2ptls.Identity.ConfigForPeer verify-closure publishes key", Fn: vc, Init: p.NewState(vc),
			Sink: func(s *an.State, ins ssa.Instruction) bool { _, ok := ins.(*ssa.Send); return ok }, Reqs: reqs})
		// the chain handed to PubKeyFromCertChain is parsed from the raw handshake certificates
		pc := an.Calls(vc, fnPubKeyFromCertChain)
		okc := len(pc) == 1 && p.DependsOn(pc[0].Call.Args[0], func(v ssa.Value) bool { return an.ResultCallTo(v, an.X("crypto/x509", "", "ParseCertificate")) != nil })
		c.Require(okc, "PROVENANCE", "p2ptls verify-closure checks the handshake's certificates", vc, "", len(pc), "chain elements come from x509.ParseCertificate(rawCerts[i])", "the chain passed to PubKeyFromCertChain is not parsed from rawCerts")
		// ConfigForPeer installs the closure on the config it returns
		vpc := p.ExtFieldVar("crypto/tls", "Config", "VerifyPeerCertificate")
		c.Gate(an.GateSpec{Rule: "MUSTCALL", Construct: "p2ptls.Identity.ConfigForPeer return", Fn: cfp,
			Sink: func(s *an.State, ins ssa.Instruction) bool { _, ok := ins.(*ssa.Return); return ok },
			Reqs: []an.Req{{Name: "VerifyPeerCertificate replaced by the peer-specific closure", Holds: func(s *an.State, at ssa.Instruction) bool {
				return s.Executed(at, func(ins ssa.Instruction) bool {
					st, ok := ins.(*ssa.Store)
					if !ok || an.FieldOfAddr(st.Addr) != vpc {
						return false
					}
					mc, ok := st.Val.(*ssa.MakeClosure)
					return ok && mc.Fn == ssa.Value(vc)
				})
			}}}})
	}

	// WHO: InsecureSkipVerify=true on a crypto/tls.Config only in NewIdentity; Identity.config only read by ConfigForPeer.
	ni := p.Func("crypto/tls", "", "NewIdentity")
	isv := p.ExtFieldVar("crypto/tls", "Config", "InsecureSkipVerify")
	if isv == nil {
		c.Undecided("WHO", "crypto/tls.Config.InsecureSkipVerify writers", nil, "unresolved anchor")
	} else {
		n, bad := 0, 0
		for _, a := range p.FieldAccesses(isv, p.AllRepoFuncs()) {
			if a.Kind != an.Write {
				continue
			}
			n++
			if k, ok := a.Val.(*ssa.Const); ok && k.Value != nil && k.Value.String() == "false" {
				continue
			}
			if !an.InFuncs(ni)(a.Fn) {
				bad++
				c.Fail("WHO", "crypto/tls.Config.InsecureSkipVerify set outside p2ptls.NewIdentity", a.Fn, p.Pos(a.Instr.Pos()), n, "a TLS config disables chain verification outside the identity constructor whose verifier is always replaced", nil)
			}
		}
		if bad == 0 {
			c.Require(n >= 1, "WHO", "crypto/tls.Config.InsecureSkipVerify set outside p2ptls.NewIdentity", ni, "", n, "the only tls.Config with InsecureSkipVerify is built in NewIdentity", "anchor drift: no InsecureSkipVerify store found")
		}
	}
	c.Who(an.WhoSpec{Construct: "p2ptls.Identity.config is used only by NewIdentity/ConfigForPeer", Field: p.FieldVar(an.FieldRef{Pkg: "crypto/tls", Type: "Identity", Field: "config"}),
		Kinds: []an.AccessKind{an.Read, an.Write, an.AddrTaken}, Allowed: an.InFuncs(ni, cfp), Min: 2})

	// Link identity: remotePeerID written only in NewLink from DetermineSessionIdentity(sess)
	nl := p.Func("transport/common/quic", "", "NewLink")
	dsi := an.R("transport/common/quic", "", "DetermineSessionIdentity")
	rp := p.FieldVar(an.FieldRef{Pkg: "transport/common/quic", Type: "Link", Field: "remotePeerID"})
	c.Who(an.WhoSpec{Construct: "quic.Link.remotePeerID written only in NewLink", Field: rp, Kinds: []an.AccessKind{an.Write, an.AddrTaken}, Allowed: an.InFuncs(nl), Min: 1})
	if rp != nil && nl != nil {
		ok, n := true, 0
		for _, a := range p.FieldAccesses(rp, []*ssa.Function{nl}) {
			if a.Kind == an.Write {
				n++
				call := an.ResultCallTo(a.Val, dsi)
				if call == nil || !an.IsParam(call.Call.Args[0], 6) {
					ok = false
				}
			}
		}
		c.Require(ok && n == 1, "PROVENANCE", "quic.Link.remotePeerID = DetermineSessionIdentity(sess)", nl, "", n, "stored value is result 0 of DetermineSessionIdentity applied to the session parameter", "remotePeerID is not the identity determined from the handshaken session")
		c.Gate(an.GateSpec{Construct: "quic.NewLink success-return", Fn: nl, Sink: successReturn, Reqs: []an.Req{an.CallOK("DetermineSessionIdentity ok", dsi)}})
	}
	df := p.Func("transport/common/quic", "", "DetermineSessionIdentity")
	c.Gate(an.GateSpec{Construct: "quic.DetermineSessionIdentity success-return", Fn: df, Sink: successReturn, Reqs: []an.Req{
		an.CallOK("PubKeyFromCertChain ok", fnPubKeyFromCertChain), an.CallOK("IDFromPublicKey ok", fnIDFromPublicKey)}})
	if df != nil {
		c.EachReturn("PROVENANCE", "quic.DetermineSessionIdentity returns ID of the chain's verified key", df, "id = IDFromPublicKey(PubKeyFromCertChain(TLS peer certificates))", func(s *an.State, ret *ssa.Return) string {
			if s.KnownNonNilErr(s.RetVal(ret, -1)) {
				return ""
			}
			idc := an.ResultCallTo(s.RetVal(ret, 0), fnIDFromPublicKey)
			if idc == nil {
				return "returned id is not the result of IDFromPublicKey"
			}
			kc := an.ResultCallTo(s.Canon(idc.Call.Args[0]), fnPubKeyFromCertChain)
			if kc == nil {
				return "id is not derived from the key returned by PubKeyFromCertChain"
			}
			if !p.DependsOn(kc.Call.Args[0], func(v ssa.Value) bool {
				fa, ok := v.(*ssa.FieldAddr)
				if ok {
					if fv := an.FieldOfAddr(fa); fv != nil && fv.Name() == "PeerCertificates" {
						return true
					}
				}
				f, ok := v.(*ssa.Field)
				return ok && an.FieldOfAddr(f) != nil && an.FieldOfAddr(f).Name() == "PeerCertificates"
			}) {
				return "certificate chain is not taken from the session's TLS PeerCertificates"
			}
			return ""
		})
	}
	thoroughCallers(c, "certificate-chain identity", 0, []string{"crypto/tls", "transport/common/quic"}, fnPubKeyFromCertChain, an.R("transport/common/quic", "", "DetermineSessionIdentity"))
	// NewLink callers (expected: quic transport + webrtc) hand over the session they handshook: listed for evidence
	nlc := 0
	for _, fn := range p.AllRepoFuncs() {
		nlc += len(an.Calls(fn, an.R("transport/common/quic", "", "NewLink")))
	}
	c.Sites(nlc)
	c.Require(nlc >= 2, "CALLARG", "quic.NewLink call sites present", nl, "", nlc, "NewLink call sites enumerated", "anchor drift: fewer than 2 NewLink call sites")
}

func isNamedConst(v ssa.Value, name string) bool {
	// go/ssa folds named constants; recognise by value of the repository constant instead of by name
	k, ok := v.(*ssa.Const)
	if !ok || k.Value == nil {
		return false
	}
	if b, ok := k.Type().Underlying().(*types.Basic); !ok || b.Info()&types.IsString == 0 {
		return false
	}
	return constValues[name] != "" && k.Value.ExactString() == constValues[name]
}

// constValues is filled per run from the type-checked package scopes (never from source text).
var constValues = map[string]string{}

func loadConst(c *an.Check, pkgRel, name string) {
	tp := c.P.TPkg(pkgRel)
	if tp == nil || tp.Types == nil {
		return
	}
	if k, ok := tp.Types.Scope().Lookup(name).(*types.Const); ok {
		constValues[name] = k.Val().ExactString()
	}
}

func isAllocOf(v ssa.Value, typeName string) bool {
	a, ok := v.(*ssa.Alloc)
	if !ok {
		return false
	}
	return strings.HasSuffix(a.Type().String(), "."+typeName)
}

func init() {
	register(&Def{ID: "C03", Run: func(c *an.Check) { loadConst(c, "crypto/tls", "certificatePrefix"); c03(c) },
		Explain:     "Decides on SSA: (R1) PubKeyFromCertChain reaches its success return only past {one certificate, key extension found, x509 Verify, CheckSignature of the certificate over its own TBS bytes with its own key (self-signature; x509.Verify alone skips the signature of a certificate that is its own root), asn1 decode, key parse, PKIX encode, signature err==nil, valid==true}; the verified message is certificatePrefix‖PKIX(chain[0].PublicKey) under the key parsed from the extension, which is the key returned; GenerateSignedExtension signs the same construction (MIRROR); the VerifyPeerCertificate closure of ConfigForPeer accepts / publishes the key only past PubKeyFromCertChain ok and (remote==\"\" or remote.MatchesPublicKey(key)); ConfigForPeer always installs that closure; (WHO) InsecureSkipVerify is set on a tls.Config only in NewIdentity and Identity.config is used only by NewIdentity/ConfigForPeer; quic.Link.remotePeerID is written only in NewLink from DetermineSessionIdentity(sess) = IDFromPublicKey(PubKeyFromCertChain(TLS peer certificates)). Shared: the Ed25519 leg and classifier (certChainGates → ed25519VerifyGates); (CALLARG) quic HandleConn / DialSession* / ListenSession / BuildIncomingTlsConf forward their expected-peer argument unchanged down to ConfigForPeer.",
		NotCov:      "x509/TLS/QUIC library behaviour and the value-level claim about forged or re-signed extensions are trusted/not decided.",
		Assumptions: commonAssumptions})
}

// certChainGates: the one function that turns a presented certificate chain into an authenticated identity succeeds only
// past every check (shared by C03 and by the properties that speak of a link's *authenticated* remote peer: C04, C05).
func certChainGates(c *an.Check) *ssa.Function {
	p := c.P
	ed25519VerifyGates(c)
	pk := p.Func("crypto/tls", "", "PubKeyFromCertChain")
	c.Gate(an.GateSpec{Construct: "p2ptls.PubKeyFromCertChain success-return", Fn: pk, Sink: successReturn, Reqs: []an.Req{
		an.FactReq("len(chain)==1", func(s *an.State, x, y ssa.Value, r an.Rel) bool {
			return r == an.EQ && an.IsIntConst(y, 1) && an.LenOf(s, x, func(a ssa.Value) bool { return an.IsParam(a, 0) })
		}),
		an.AnyOf("key extension found",
			an.CallTrue("extensionIDEqual(ext.Id, extensionID)", 0, an.R("crypto/tls", "", "extensionIDEqual")),
			an.Req{Name: "ext.Id.Equal(extensionID)", Holds: func(s *an.State, at ssa.Instruction) bool {
				// the standard-library spelling of the same comparison, against the package's extension id
				isExtID := func(v ssa.Value) bool {
					u, ok := s.Canon(v).(*ssa.UnOp)
					if !ok {
						return false
					}
					g, ok := u.X.(*ssa.Global)
					return ok && g.Name() == "extensionID"
				}
				for _, f := range an.WithClosures(pk) {
					for _, call := range an.Calls(f, an.X("encoding/asn1", "ObjectIdentifier", "Equal")) {
						if len(call.Call.Args) == 2 && (isExtID(call.Call.Args[0]) || isExtID(call.Call.Args[1])) && s.IsTrue(call) {
							return true
						}
					}
				}
				return false
			}}),
		an.CallOK("x509 Verify ok (validity, critical extensions, usage — NOT the signature: the certificate is its own root)", an.X("crypto/x509", "Certificate", "Verify")),
		an.CallOK("self-signature verifies (CheckSignature with the certificate's own key)", an.X("crypto/x509", "Certificate", "CheckSignature")),
		an.CallOK("asn1.Unmarshal ok", an.X("encoding/asn1", "", "Unmarshal")),
		an.CallOK("UnmarshalPublicKey ok", fnUnmarshalPublicKey),
		an.CallOK("MarshalPKIXPublicKey ok", fnMarshalPKIX),
		an.CallOK("PubKey.Verify err==nil", fnPubKeyVerify),
		an.CallTrue("PubKey.Verify valid==true", 0, fnPubKeyVerify),
	}})
	return pk
}
