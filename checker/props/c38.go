package props

import (
	"fmt"
	"strings"

	"bifrostverify/an"

	"golang.org/x/tools/go/ssa"
)

func protocolIDValidateGate(c *an.Check) *ssa.Function {
	pv := c.P.Func("protocol", "ID", "Validate")
	c.Gate(an.GateSpec{Construct: "protocol.ID.Validate success-return", Fn: pv, Sink: successReturn, Reqs: []an.Req{
		an.FactReq("id != \"\"", func(s *an.State, x, y ssa.Value, r an.Rel) bool {
			return an.IsParam(an.ConvOf(x), 0) && an.IsStrConst(an.ConvOf(y), "") && r&an.EQ == 0
		}),
		an.CallTrue("utf8.ValidString", 0, an.X("unicode/utf8", "", "ValidString")),
	}})
	if pv != nil {
		vs := an.Calls(pv, an.X("unicode/utf8", "", "ValidString"))
		c.Require(len(vs) == 1 && an.IsParam(an.ConvOf(vs[0].Call.Args[0]), 0), "PROVENANCE", "protocol.ID.Validate checks the id itself", pv, "", len(vs), "utf8.ValidString(string(id))", "the UTF-8 check is not applied to the id")
		// only the two rejections exist: a non-empty valid id is accepted (no third failing branch)
		errs := 0
		c.EachReturn("PROVENANCE", "protocol.ID.Validate rejects only empty or invalid-UTF-8 ids", pv, "every error return is behind id==\"\" or !ValidString", func(s *an.State, ret *ssa.Return) string {
			if !s.KnownNonNilErr(s.RetVal(ret, -1)) {
				return ""
			}
			errs++
			empty := s.AnyFact(func(s *an.State, x, y ssa.Value, r an.Rel) bool {
				return r == an.EQ && an.IsParam(an.ConvOf(x), 0) && an.IsStrConst(an.ConvOf(y), "")
			})
			invalid := false
			for _, call := range vs {
				if s.IsFalse(call) {
					invalid = true
				}
			}
			if empty || invalid {
				return ""
			}
			return "an error is returned for an id that is non-empty and valid UTF-8"
		})
	}
	return pv
}

func c38(c *an.Check) {
	p := c.P
	// ParsePrivateKey / ParsePeer bottom out in the ed25519 private-key decoder (both accepted layouts)
	ed25519PrivateKeyDecodeGates(c)
	pv := protocolIDValidateGate(c)
	// ParseTptAddr
	pt := p.Func("tptaddr", "", "ParseTptAddr")
	c.Gate(an.GateSpec{Construct: "tptaddr.ParseTptAddr success-return", Fn: pt, Sink: successReturn, Reqs: []an.Req{
		an.CallTrue("delimiter found", 2, an.X("strings", "", "Cut")),
		{Name: "transport id and address both non-empty", Holds: func(s *an.State, at ssa.Instruction) bool {
			n := 0
			for _, cut := range an.Calls(pt, an.X("strings", "", "Cut")) {
				for _, i := range []int{0, 1} {
					e := an.ErrResult(cut, i)
					if e != nil && s.AnyFact(func(s *an.State, x, y ssa.Value, r an.Rel) bool {
						return r&an.EQ == 0 && an.IsIntConst(y, 0) && an.LenOf(s, x, func(a ssa.Value) bool { return s.Key(a) == s.Key(e) })
					}) {
						n++
					}
				}
			}
			return n == 2
		}},
	}})
	if pt != nil {
		c.EachReturn("PROVENANCE", "tptaddr.ParseTptAddr returns the two halves of its input", pt, "(before, after) of strings.Cut(input, delimiter)", func(s *an.State, ret *ssa.Return) string {
			if s.KnownNonNilErr(s.RetVal(ret, -1)) {
				return ""
			}
			cuts := an.Calls(pt, an.X("strings", "", "Cut"))
			if len(cuts) != 1 || !an.IsParam(cuts[0].Call.Args[0], 0) {
				return "the input is not split with strings.Cut"
			}
			if s.Key(s.RetVal(ret, 0)) != s.Key(an.ErrResult(cuts[0], 0)) || s.Key(s.RetVal(ret, 1)) != s.Key(an.ErrResult(cuts[0], 1)) {
				return "the results are not the two halves of the cut"
			}
			return ""
		})
	}
	// ParsePeerAddressMap
	pm := p.Func("tptaddr/static", "", "ParsePeerAddressMap")
	if pm == nil {
		c.Undecided("ORDER", "tptaddr/static.ParsePeerAddressMap", nil, "unresolved anchor")
	} else {
		var peers *ssa.MakeMap
		for _, b := range an.ScanBlocks(pm) {
			for _, ins := range b.Instrs {
				if mm, ok := ins.(*ssa.MakeMap); ok {
					peers = mm
				}
			}
		}
		// insertion: keyed by the canonical string of the decoded id, only when decode succeeded and the entry is well-formed
		c.Gate(an.GateSpec{Construct: "ParsePeerAddressMap records an address", Fn: pm,
			Sink: func(s *an.State, ins ssa.Instruction) bool {
				mu, ok := ins.(*ssa.MapUpdate)
				if !ok || mu.Map != ssa.Value(peers) {
					return false
				}
				call, isApp := mu.Value.(*ssa.Call)
				return isApp && an.BuiltinName(call) == "append"
			},
			Reqs: []an.Req{
				an.CallOK("peer id decodes", an.R("peer", "", "IDB58Decode")),
				an.CallTrue("peer/address delimiter found", 2, an.X("strings", "", "Cut")),
				an.CallTrue("address part contains a transport delimiter", 0, an.X("strings", "", "Contains")),
				{Name: "keyed by the decoded id's canonical string", Holds: func(s *an.State, at ssa.Instruction) bool {
					mu := at.(*ssa.MapUpdate)
					sc := an.ResultCallTo(s.Canon(mu.Key), cIDString)
					return sc != nil && an.ResultCallTo(s.Canon(sc.Call.Args[0]), an.R("peer", "", "IDB58Decode")) != nil
				}},
			}})
		// normalisation: every list written back in the final loop went through sort.Strings then slices.Compact
		okN, nW := false, 0
		for _, b := range an.ScanBlocks(pm) {
			for _, ins := range b.Instrs {
				mu, ok := ins.(*ssa.MapUpdate)
				if !ok || mu.Map != ssa.Value(peers) {
					continue
				}
				if call, isCall := mu.Value.(*ssa.Call); isCall && an.BuiltinName(call) == "append" {
					continue
				}
				nW++
				cp := an.ResultCallTo(mu.Value, an.X("slices", "", "Compact"))
				if cp == nil {
					continue
				}
				// sort.Strings on the same slice executed before Compact in the same block
				sorted := false
				for _, ins2 := range cp.Block().Instrs {
					if ins2 == ssa.Instruction(cp) {
						break
					}
					if sc, ok := ins2.(*ssa.Call); ok && an.IsCallTo(sc, an.X("sort", "", "Strings"), an.X("slices", "", "Sort")) && sc.Call.Args[0] == cp.Call.Args[0] {
						sorted = true
					}
				}
				okN = sorted
			}
		}
		c.Require(okN && nW == 1, "ORDER", "ParsePeerAddressMap stores each peer's list sorted and then de-duplicated", pm, "", nW, "peers[k] = slices.Compact(sorted list)", "the stored address lists are not sort → compact normalised")
		// malformed entries are reported
		c.Gate(an.GateSpec{Rule: "MUSTCALL", Construct: "ParsePeerAddressMap reports malformed entries", Fn: pm,
			Sink: func(s *an.State, ins ssa.Instruction) bool {
				j, ok := ins.(*ssa.Jump)
				_ = j
				if !ok {
					return false
				}
				f, _ := an.CallFailed(an.R("peer", "", "IDB58Decode"))(s)
				return f && an.InnermostLoop(pm, ins.Block()) != nil
			},
			Reqs: []an.Req{{Name: "the decode error is appended to the error list", Holds: func(s *an.State, at ssa.Instruction) bool {
				return s.Executed(at, func(i ssa.Instruction) bool {
					call, ok := i.(*ssa.Call)
					return ok && an.BuiltinName(call) == "append" && strings.HasSuffix(call.Type().String(), "[]error")
				})
			}}}})
	}
	confparseKeyGates(c)
	// totality of all configuration parsers
	if bce := peerBCE(c, "./util/confparse", "./tptaddr", "./tptaddr/static", "./protocol", "./peer"); bce != nil {
		var fns []*ssa.Function
		// the peer-id decode chain behind ParsePeerID(s) / ParsePeerAddressMap
		if dec := one(pkgFuncsWhere(p, "peer", func(f *ssa.Function) bool { return callsAny(f, cUvarint) })); dec != nil {
			fns = append(fns, dec)
		} else {
			c.Undecided("PANIC", "peer multihash decoder", nil, "unresolved anchor")
		}
		fns = append(fns, p.Func("peer", "", "IDB58Decode"), p.Func("peer", "", "IDFromBytes"))
		for _, f := range p.PkgFuncs("util/confparse") {
			if f.Parent() == nil {
				fns = append(fns, f)
			}
		}
		fns = append(fns, pt, pm, pv, p.Func("protocol", "ID", "String"))
		// the PEM branch of the textual key parsers: pem.Decode's block may be nil
		var kfns []*ssa.Function
		for _, f := range p.PkgFuncs("keypem") {
			if f.Parent() == nil {
				kfns = append(kfns, f)
			}
		}
		an.NilProducer = nilProducers
		nK := c.NilDerefGuard("NILDEREF", "configuration parsers: pem.Decode's block and (value, error) results dereferenced only when known present", append(append([]*ssa.Function{}, fns...), kfns...), nilSafeRecv(p))
		an.NilProducer = nil
		c.Note("NILDEREF examined %d candidate calls in the configuration parsers and keypem", nK)
		c.Totality(an.PanicSpec{Construct: "configuration parser totality", Funcs: fns, BCE: bce, Min: 18, Reviewed: map[string]string{}})
		c.Note(fmt.Sprintf("totality scanned %d configuration parser functions", len(fns)))
	}
	c.Trust("strings.Cut/TrimSpace/Contains, sort.Strings, slices.Compact", "net/url, time, regexp parsers of the standard library never panic", "base58 Decode")
}

func init() {
	register(&Def{ID: "C38", Run: c38,
		Explain:     "Decides on SSA: protocol.ID.Validate succeeds only for non-empty ids for which utf8.ValidString(id) is true and errors only on those two conditions; ParseTptAddr succeeds only when the delimiter was found and both halves are non-empty, returning the two halves of strings.Cut(input); ParsePeerAddressMap records an address only past (delimiter found, address part has a transport delimiter, peer id decodes), keyed by the decoded id's canonical string, appends decode errors to its error list, and writes every list back as slices.Compact of the sort.Strings-ed list; confparse key parsers reject non-base58 text, return keys only from the PEM parser or base58+protobuf decode, and the PEM wrappers return (nil,nil) only for empty input; (PANIC) no undischarged panic site in any top-level function of util/confparse, ParseTptAddr, ParsePeerAddressMap, protocol.ID and the peer-id decode chain (IDB58Decode, IDFromBytes, multihash decoder) they rest on. The totality scope includes the peer-id decode chain. pem.Decode's block and (value, error) results are dereferenced only when known present (keypem included). The ed25519 private-key decoder gates (both accepted layouts keep seed‖public key, 64 bytes) are part of this check.",
		NotCov:      "format∘parse identities (value-level round trips) and the standard library parsers they delegate to.",
		Assumptions: commonAssumptions})
}

// confparseKeyGates: the textual key parsers return a key only from the PEM parser or from base58+protobuf decoding,
// report undecodable text as an error, and yield (nil, nil) only for empty input (shared by C38 and C11).
func confparseKeyGates(c *an.Check) {
	p := c.P
	// confparse key parsers: an undecodable base58 string is an error; PEM inputs go through the PEM parser
	for _, w := range []struct{ fn, pem, un string }{{"ParsePublicKey", "ParsePublicKeyPEM", "UnmarshalPublicKey"}, {"ParsePrivateKey", "ParsePrivateKeyPEM", "UnmarshalPrivateKey"}} {
		f := p.Func("util/confparse", "", w.fn)
		b58d := an.X("github.com/mr-tron/base58/base58", "", "Decode")
		c.ErrProp(an.ErrPropSpec{Construct: "confparse." + w.fn + " rejects non-base58 text", Fn: f, Failing: an.CallFailed(b58d), ErrIdx: -1})
		c.Gate(an.GateSpec{Construct: "confparse." + w.fn + " key return", Fn: f,
			Sink: func(s *an.State, ins ssa.Instruction) bool {
				ret, ok := ins.(*ssa.Return)
				return ok && !s.IsNil(s.RetVal(ret, 0))
			},
			Reqs: []an.Req{an.AnyOf("PEM parser or base58+protobuf decode produced it",
				an.Req{Name: "pem", Holds: func(s *an.State, at ssa.Instruction) bool {
					return an.ResultCallTo(s.RetVal(at.(*ssa.Return), 0), an.R("util/confparse", "", w.pem)) != nil
				}},
				an.Req{Name: "b58", Holds: func(s *an.State, at ssa.Instruction) bool {
					u := an.ResultCallTo(s.RetVal(at.(*ssa.Return), 0), an.R("crypto", "", w.un))
					return u != nil && an.ResultCallTo(s.Canon(u.Call.Args[0]), b58d) != nil && an.CallOK("", b58d).Holds(s, at)
				}})}})
	}
	// the PEM wrappers turn "no PEM block" into an error for non-empty input
	for _, w := range []struct{ fn, inner string }{{"ParsePublicKeyPEM", "ParsePubKeyPem"}, {"ParsePrivateKeyPEM", "ParsePrivKeyPem"}} {
		f := p.Func("util/confparse", "", w.fn)
		c.Gate(an.GateSpec{Construct: "confparse." + w.fn + " (nil,nil) return", Fn: f,
			Sink: func(s *an.State, ins ssa.Instruction) bool {
				ret, ok := ins.(*ssa.Return)
				if !ok || !s.KnownNilErr(s.RetVal(ret, -1)) {
					return false
				}
				v := s.RetVal(ret, 0)
				if s.IsNil(v) {
					return true
				}
				// the unchecked result of a keypem parser, which yields (nil,nil) when no PEM block is present
				return !s.NonNil(v) && an.ResultCallTo(v, an.R("keypem", "", w.inner)) != nil
			},
			Reqs: []an.Req{an.FactReq("input is empty", func(s *an.State, x, y ssa.Value, r an.Rel) bool {
				return r == an.EQ && an.IsIntConst(y, 0) && an.LenOf(s, x, func(a ssa.Value) bool { return an.IsParam(a, 0) })
			})}})
	}
}
