package props

import (
	"fmt"
	"go/token"

	"bifrostverify/an"

	"golang.org/x/tools/go/ssa"
)

var (
	fnSMExtractAndVerify = an.R("peer", "SignedMsg", "ExtractAndVerify")
	fnSMVerify           = an.R("peer", "SignedMsg", "Verify")
	fnSMExtractPubKey    = an.R("peer", "SignedMsg", "ExtractPubKey")
	fnSigValidate        = an.R("peer", "Signature", "Validate")
	fnSigVerifyWithPub   = an.R("peer", "Signature", "VerifyWithPublic")
	fnPubKeyVerify       = an.R("crypto", "PubKey", "Verify")
)

// getterOn reports whether v is a call to getter `name` on the function's receiver (param 0).
func getterOn(s *an.State, v ssa.Value, pkgRel, recv, name string) bool {
	c, ok := s.Canon(v).(*ssa.Call)
	if !ok || !an.IsCallTo(c, an.R(pkgRel, recv, name)) {
		return false
	}
	return true
}

// lenNonZero builds the requirement "len(<value satisfying pred>) != 0 is known".
func lenNonZero(name string, pred func(s *an.State, v ssa.Value) bool) an.Req {
	return an.FactReq(name, func(s *an.State, x, y ssa.Value, r an.Rel) bool {
		if r&an.EQ != 0 {
			return false
		}
		// the other spelling: str != ""
		if an.IsStrConst(y, "") && pred(s, x) {
			return true
		}
		if !an.IsIntConst(y, 0) {
			return false
		}
		return an.LenOf(s, x, func(a ssa.Value) bool { return pred(s, a) })
	})
}

// successReturn selects Return instructions whose error result (last) is not known to be non-nil.
func successReturn(s *an.State, ins ssa.Instruction) bool {
	ret, ok := ins.(*ssa.Return)
	if !ok || len(ret.Results) == 0 {
		return false
	}
	return !s.KnownNonNilErr(s.RetVal(ret, -1))
}

// nilErrReturn selects Return instructions whose error result is known nil.
func nilErrReturn(s *an.State, ins ssa.Instruction) bool {
	ret, ok := ins.(*ssa.Return)
	if !ok || len(ret.Results) == 0 {
		return false
	}
	return s.KnownNilErr(s.RetVal(ret, -1))
}

// signedMsgCore decides the signed-message verifier itself; C19, C20 and C27 build on it and re-decide it.
func signedMsgCore(c *an.Check) {
	p := c.P
	eav := p.Func("peer", "SignedMsg", "ExtractAndVerify")
	// R1: success only through all five gates.
	c.Gate(an.GateSpec{Construct: "peer.SignedMsg.ExtractAndVerify success-return", Fn: eav, Sink: successReturn, Reqs: []an.Req{
		lenNonZero("len(body)!=0", func(s *an.State, v ssa.Value) bool { return getterOn(s, v, "peer", "SignedMsg", "GetData") }),
		lenNonZero("len(sender id)!=0", func(s *an.State, v ssa.Value) bool { return getterOn(s, v, "peer", "SignedMsg", "GetFromPeerId") }),
		an.CallOK("Signature.Validate ok", fnSigValidate),
		an.CallOK("ExtractPubKey ok", fnSMExtractPubKey),
		an.CallOK("Verify ok", fnSMVerify),
	}})
	// R2a: failures of the three checks surface as errors.
	for _, cal := range []an.Callee{fnSigValidate, fnSMExtractPubKey, fnSMVerify} {
		c.ErrProp(an.ErrPropSpec{Construct: "peer.SignedMsg.ExtractAndVerify propagates failure of " + cal.String(), Fn: eav, Failing: an.CallFailed(cal), ErrIdx: -1})
	}
	// provenance: the key verified against is the one extracted from the sender ID.
	if eav != nil {
		calls := an.Calls(eav, fnSMVerify)
		okProv := len(calls) > 0
		for _, call := range calls {
			args := call.Call.Args // recv, encContext, pubKey
			if len(args) != 3 || an.ResultCallTo(args[2], fnSMExtractPubKey) == nil || !an.IsParam(args[1], 1) || !an.IsParam(args[0], 0) {
				okProv = false
			}
		}
		c.Sites(len(calls))
		c.Require(okProv, "PROVENANCE", "peer.SignedMsg.ExtractAndVerify verifies receiver with caller context and extracted key", eav, "", len(calls),
			"Verify(recv, encContext param, key from ExtractPubKey)", "Verify is not called with (receiver, the encContext parameter, the key returned by ExtractPubKey)")
	}

	// SignedMsg.Verify: !ok must become an error.
	ver := p.Func("peer", "SignedMsg", "Verify")
	c.Gate(an.GateSpec{Construct: "peer.SignedMsg.Verify success-return", Fn: ver, Sink: successReturn, Reqs: []an.Req{
		an.CallTrue("VerifyWithPublic ok==true", 0, fnSigVerifyWithPub),
	}})
	if ver != nil {
		calls := an.Calls(ver, fnSigVerifyWithPub)
		okProv := len(calls) == 1
		for _, call := range calls {
			a := call.Call.Args // sig, encContext, pubKey, data
			okProv = okProv && len(a) == 4 && an.IsParam(a[1], 1) && an.IsParam(a[2], 2) &&
				an.ResultCallTo(a[3], an.R("peer", "SignedMsg", "GetData")) != nil && an.ResultCallTo(a[0], an.R("peer", "SignedMsg", "GetSignature")) != nil
		}
		c.Sites(len(calls))
		c.Require(okProv, "PROVENANCE", "peer.SignedMsg.Verify checks own signature over own body", ver, "", len(calls),
			"VerifyWithPublic(m.GetSignature(), encContext, pubKey, m.GetData())", "VerifyWithPublic is not called on the message's own signature/body with the caller's context and key")
	}

	// ExtractPubKey: key comes from the claimed sender id.
	epk := p.Func("peer", "SignedMsg", "ExtractPubKey")
	c.Gate(an.GateSpec{Construct: "peer.SignedMsg.ExtractPubKey success-return", Fn: epk, Sink: successReturn, Reqs: []an.Req{
		// the sender id is parsed by ParseFromPeerID or by what that method consists of: IDB58Decode(m.GetFromPeerId())
		an.AnyOf("ParseFromPeerID ok", an.CallOK("ParseFromPeerID ok", an.R("peer", "SignedMsg", "ParseFromPeerID")),
			an.Req{Name: "IDB58Decode(m.GetFromPeerId()) ok", Holds: func(s *an.State, at ssa.Instruction) bool {
				for _, call := range an.Calls(epk, an.R("peer", "", "IDB58Decode")) {
					if e := an.ErrResult(call, -1); e != nil && s.IsNil(e) && an.ResultCallTo(s.Canon(call.Call.Args[0]), an.R("peer", "SignedMsg", "GetFromPeerId")) != nil {
						return true
					}
				}
				return false
			}}),
		an.CallOK("ID.ExtractPublicKey ok", an.R("peer", "ID", "ExtractPublicKey")),
	}})
	if epk != nil {
		calls := an.Calls(epk, an.R("peer", "ID", "ExtractPublicKey"))
		okProv := len(calls) == 1
		for _, call := range calls {
			fromParse := an.ResultCallTo(call.Call.Args[0], an.R("peer", "SignedMsg", "ParseFromPeerID")) != nil
			if dc := an.ResultCallTo(call.Call.Args[0], an.R("peer", "", "IDB58Decode")); dc != nil && an.ResultCallTo(dc.Call.Args[0], an.R("peer", "SignedMsg", "GetFromPeerId")) != nil {
				fromParse = true
			}
			okProv = okProv && fromParse
		}
		c.Require(okProv, "PROVENANCE", "peer.SignedMsg.ExtractPubKey extracts key from parsed sender id", epk, "", len(calls), "ExtractPublicKey(ParseFromPeerID())", "the key is not extracted from the parsed sender id")
	}
	pfp := p.Func("peer", "SignedMsg", "ParseFromPeerID")
	if pfp != nil {
		calls := an.Calls(pfp, an.R("peer", "", "IDB58Decode"))
		ok := len(calls) == 1 && an.ResultCallTo(calls[0].Call.Args[0], an.R("peer", "SignedMsg", "GetFromPeerId")) != nil
		c.Require(ok, "PROVENANCE", "peer.SignedMsg.ParseFromPeerID decodes the message's sender field", pfp, "", len(calls), "IDB58Decode(m.GetFromPeerId())", "sender id is not decoded from the message's own field")
	} else {
		c.Undecided("PROVENANCE", "peer.SignedMsg.ParseFromPeerID decodes the message's sender field", nil, "unresolved anchor")
	}

	sigVerifyWithPublicGates(c)
	sigValidateGates(c)
}

func c01(c *an.Check) {
	signedMsgCore(c)
	thoroughCallers(c, "signed-message verification", 0, []string{"peer", "signaling/rpc", "pubsub"}, fnSMExtractAndVerify, fnSMExtractPubKey, cSMEV)
	thoroughCallers(c, "pubsub message verification", 0, []string{"pubsub"}, cPMEAV)
	// the claimed sender is decoded exactly (no trailing or missing bytes): shared with C10
	peerIDDecodeObligations(c)
}

// sigVerifyWithPublicGates: pubKey.Verify only behind the four rejections (shared by C01 and C02).
// ed25519VerifyGates: the Ed25519 leg under every signature verification — a parsed public key is exactly 32 bytes
// (crypto/ed25519.Verify panics on any other length) and a key of small order never verifies anything (for such keys
// the constant signature (identity, 0) verifies every message: they have no private key).
func ed25519VerifyGates(c *an.Check) {
	p := c.P
	// the key that verifies is parsed by the unmarshaller registered for the key type the encoding itself declares
	keyUnmarshalDispatchGates(c)
	upk := p.Func("crypto", "", "UnmarshalEd25519PublicKey")
	c.Gate(an.GateSpec{Construct: "crypto.UnmarshalEd25519PublicKey success-return", Fn: upk, Sink: successReturn, Reqs: []an.Req{
		an.FactReq("len(data)==32", func(s *an.State, x, y ssa.Value, r an.Rel) bool {
			return r == an.EQ && an.IsIntConst(y, 32) && an.LenOf(s, x, func(a ssa.Value) bool { return an.IsParam(a, 0) })
		})}})
	// the generic public-key decoder under every embedded / sender key: success only past protobuf decode and the registry
	c.Gate(an.GateSpec{Construct: "crypto.UnmarshalPublicKey success-return", Fn: p.Func("crypto", "", "UnmarshalPublicKey"), Sink: successReturn, Reqs: []an.Req{
		an.CallOK("protobuf decodes", an.R("crypto", "PublicKey", "UnmarshalVT")), an.CallOK("PublicKeyFromProto ok", an.R("crypto", "", "PublicKeyFromProto"))}})
	vf := p.Func("crypto", "Ed25519PublicKey", "Verify")
	kF := fv(c, "crypto", "Ed25519PublicKey", "k")
	if vf == nil || kF == nil {
		c.Undecided("GATE", "crypto.Ed25519PublicKey.Verify", nil, "unresolved anchor")
		return
	}
	cLow := an.R("util/extra25519", "", "IsEdLowOrder")
	lowOrderClassifier(c)
	c.Gate(an.GateSpec{Construct: "crypto.Ed25519PublicKey.Verify reports a valid signature", Fn: vf,
		Sink: func(s *an.State, ins ssa.Instruction) bool {
			ret, ok := ins.(*ssa.Return)
			return ok && !s.IsFalse(s.RetVal(ret, 0))
		},
		Reqs: []an.Req{
			{Name: "the key is not of small order (IsEdLowOrder(k) == false)", Holds: func(s *an.State, at ssa.Instruction) bool {
				for _, call := range an.Calls(vf, cLow) {
					if s.IsFalse(call) && an.IsFieldLoad(s.Canon(an.ConvOf(call.Call.Args[0])), kF) {
						return true
					}
				}
				return false
			}},
			{Name: "the verdict is ed25519.Verify(k, data, sig)", Holds: func(s *an.State, at ssa.Instruction) bool {
				v := an.ResultCallTo(s.RetVal(at.(*ssa.Return), 0), an.X("crypto/ed25519", "", "Verify"))
				return v != nil && an.IsFieldLoad(s.Canon(an.ConvOf(v.Call.Args[0])), kF) && an.IsParam(v.Call.Args[1], 1) && an.IsParam(v.Call.Args[2], 2)
			}},
		}})
}

// signedMsgNilDeref: "verification never panics on arbitrary message bytes" — in the signed-message verification
// functions a possibly-absent sub-message (or the value half of a failed (value, error) call) is dereferenced only where
// it is known present; methods that tolerate a nil receiver are recognised by a computed summary.
func signedMsgNilDeref(c *an.Check) {
	p := c.P
	var fns []*ssa.Function
	for _, w := range [][2]string{{"SignedMsg", "ExtractAndVerify"}, {"SignedMsg", "Verify"}, {"SignedMsg", "ExtractPubKey"}, {"SignedMsg", "ParseFromPeerID"}, {"SignedMsg", "ComputeMessageID"}, {"Signature", "Validate"}, {"Signature", "VerifyWithPublic"}, {"Signature", "ParsePubKey"}, {"ID", "ExtractPublicKey"}, {"ID", "MatchesPublicKey"}} {
		if f := p.Func("peer", w[0], w[1]); f != nil {
			fns = append(fns, f)
		}
	}
	for _, n := range []string{"UnmarshalSignedMsg", "IDFromBytes", "IDB58Decode"} {
		if f := p.Func("peer", "", n); f != nil {
			fns = append(fns, f)
		}
	}
	for _, n := range []string{"UnmarshalPublicKey", "PublicKeyFromProto", "UnmarshalEd25519PublicKey"} {
		if f := p.Func("crypto", "", n); f != nil {
			fns = append(fns, f)
		}
	}
	an.NilProducer = nilProducers
	n := c.NilDerefGuard("NILDEREF", "signed message verification: possibly-absent message fields and (value, error) results dereferenced only when known present", fns, nilSafeRecv(p))
	an.NilProducer = nil
	if len(fns) < 16 || n == 0 {
		c.Undecided("NILDEREF", "signed message verification", nil, fmt.Sprintf("only %d verification functions / %d sites resolved (anchor drift)", len(fns), n))
	}
}

func sigVerifyWithPublicGates(c *an.Check) {
	ed25519VerifyGates(c)
	signedMsgNilDeref(c)
	vwp := c.P.Func("peer", "Signature", "VerifyWithPublic")
	// the verification runs on the caller's key (the one derived from the claimed sender), never on a key the signature
	// object brings along, and over the signature's own bytes
	if vwp != nil {
		st := c.P.NewState(vwp)
		kv := an.Calls(vwp, fnPubKeyVerify)
		ok := len(kv) == 1 && an.IsParam(kv[0].Call.Value, 2) && getterOn(st, kv[0].Call.Args[1], "peer", "Signature", "GetSigData")
		c.Require(ok, "PROVENANCE", "peer.Signature.VerifyWithPublic verifies with the caller's key", vwp, "", len(kv), "pubKey.Verify(body, s.GetSigData()) on the pubKey parameter", "the key that verifies is not (only) the pubKey parameter — e.g. a pub_key embedded in the signature takes precedence: anyone can sign as anyone")
	}
	isHT := func(s *an.State, v ssa.Value) bool { return getterOn(s, v, "peer", "Signature", "GetHashType") }
	c.Gate(an.GateSpec{Construct: "peer.Signature.VerifyWithPublic key-verify call", Fn: vwp,
		Sink: func(s *an.State, ins ssa.Instruction) bool { return an.IsCallTo(ins, fnPubKeyVerify) },
		Reqs: []an.Req{
			an.FactReq("hash type != UNKNOWN", func(s *an.State, x, y ssa.Value, r an.Rel) bool {
				return isHT(s, x) && an.IsIntConst(y, 0) && r&an.EQ == 0
			}),
			lenNonZero("len(sig)!=0", func(s *an.State, v ssa.Value) bool { return getterOn(s, v, "peer", "Signature", "GetSigData") }),
			an.CallOK("HashType.Validate ok", an.R("hash", "HashType", "Validate")),
			an.CallOK("hash.Sum ok", an.R("hash", "", "Sum")),
		}})
	// the result of VerifyWithPublic is exactly the key's verdict
	c.EachReturn("PROVENANCE", "peer.Signature.VerifyWithPublic returns false or the key's verdict", vwp,
		"every return yields constant false or the result of PubKey.Verify", func(s *an.State, ret *ssa.Return) string {
			r0 := s.Canon(ret.Results[0])
			if s.IsFalse(r0) {
				return ""
			}
			if an.ResultCallTo(r0, fnPubKeyVerify) != nil {
				return ""
			}
			return "a return yields an ok-value that is neither constant false nor the result of PubKey.Verify"
		})
}

// derefRet looks through the defer-spill of results (load of a result cell with a single store).
func derefRet(p *an.Prog, v ssa.Value) ssa.Value {
	if u, ok := v.(*ssa.UnOp); ok && u.Op == token.MUL {
		if a, ok := u.X.(*ssa.Alloc); ok {
			if sv := p.SingleStore(a); sv != nil {
				return sv
			}
		}
	}
	return v
}

func sigValidateGates(c *an.Check) {
	sv := c.P.Func("peer", "Signature", "Validate")
	c.Gate(an.GateSpec{Construct: "peer.Signature.Validate success-return", Fn: sv, Sink: successReturn, Reqs: []an.Req{
		an.CallOK("HashType.Validate ok", an.R("hash", "HashType", "Validate")),
		lenNonZero("len(sig)!=0", func(s *an.State, v ssa.Value) bool { return getterOn(s, v, "peer", "Signature", "GetSigData") }),
		an.AnyOf("no embedded key or it parses", an.CallOK("ParsePubKey ok", an.R("peer", "Signature", "ParsePubKey")),
			an.FactReq("len(pubkey)==0", func(s *an.State, x, y ssa.Value, r an.Rel) bool {
				return an.IsIntConst(y, 0) && r == an.EQ && an.LenOf(s, x, func(a ssa.Value) bool { return getterOn(s, a, "peer", "Signature", "GetPubKey") })
			})),
	}})
}

func init() {
	register(&Def{ID: "C01", Pkgs: []string{"./peer"}, Run: c01,
		Explain:     "Decides structural necessary conditions of C01 on the SSA of package peer: (R1) SignedMsg.ExtractAndVerify, SignedMsg.Verify, SignedMsg.ExtractPubKey, Signature.VerifyWithPublic and Signature.Validate can reach a non-error return (or the key's Verify call) only on paths on which each listed rejection test passed; (R2a) a failing Signature.Validate / ExtractPubKey / Verify inside ExtractAndVerify never leads to a return whose error is known nil; (PROVENANCE) the key verified against is the one extracted from the message's own sender field, over the message's own body with the caller's context. The Ed25519 leg: a parsed public key is exactly 32 bytes and Ed25519PublicKey.Verify reports a valid signature only for keys that are not of small order, the verdict being ed25519.Verify(k, data, sig). Shared with every signature-verifying check: the small-order classifier itself (TABLE, SIGNBIT, ACCUMULATE), crypto.UnmarshalPublicKey succeeds only past the protobuf decode, and Signature.VerifyWithPublic verifies with the caller's key over the signature's own bytes. (NILDEREF) in the signed-message verification functions a possibly-absent sub-message is dereferenced only where it is known present; the key that verifies is parsed by the unmarshaller registered for the key type its own encoding declares, into a zero message; (GATE) ID.ExtractPublicKey hands out a key only when the id is the canonical id of that key.",
		NotCov:      "Ed25519 soundness, the value-level statement that any byte change is rejected, and panic-freedom of third-party decoders (base58, protobuf) are not decided here; bounds-check obligations of the in-repo decoders are decided under C40/C10.",
		Assumptions: commonAssumptions})
}
