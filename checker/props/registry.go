// Package props holds the per-property obligation tables.
package props

import (
	"sort"

	"bifrostverify/an"
)

// Def describes one property check.
type Def struct {
	ID string
	// Pkgs are the go/packages patterns (relative to the repo root) loaded by the quick tier.
	Pkgs []string
	// Run adds the obligations. tier is "quick" or "thorough".
	Run func(c *an.Check)
	// Explain says which structural clause is decided; NotCov what is not.
	Explain, NotCov string
	Assumptions     []string
	// Technique names the deciding method for MANIFEST.
	Technique string
	// NA, when set, marks the property as not applicable (no check) with this reason.
	NA string
}

var registry = map[string]*Def{}

func register(d *Def) { registry[d.ID] = d }

// Get returns the definition of a property check.
func Get(id string) *Def { return registry[id] }

// IDs lists the implemented properties.
func IDs() []string {
	var out []string
	for k := range registry {
		out = append(out, k)
	}
	sort.Strings(out)
	return out
}

var commonAssumptions = []string{
	"go/packages + go/types + go/ssa (x/tools v0.50.0) faithfully represent the program the go toolchain builds for linux/amd64 without build tags",
	"facts are nil/bool/order relations on SSA values along explored paths; no alias analysis beyond SSA def-use, phi resolution and captured single-variable cells",
	"standard library and third-party callees behave as documented (listed in coverage.trusted_base)",
}
