// Package props holds the per-property obligation tables.
package props

import (
	"sort"
	"strings"

	"bifrostverify/an"

	"golang.org/x/tools/go/ssa"
)

// Def describes one property check.
type Def struct {
	ID string
	// Pkgs are the go/packages patterns (relative to the repo root) loaded by the quick tier.
	Pkgs []string
	// Run adds the obligations. tier is "quick" or "thorough".
	Run func(c *an.Check)
	// Explain says which structural clause is decided; NotCov what is not.
	Explain, NotCov string
	Assumptions     []string
	// Technique names the deciding method for MANIFEST.
	Technique string
	// NA, when set, marks the property as not applicable (no check) with this reason.
	NA string
}

var registry = map[string]*Def{}

func register(d *Def) { registry[d.ID] = d }

// Get returns the definition of a property check.
func Get(id string) *Def { return registry[id] }

// IDs lists the implemented properties.
func IDs() []string {
	var out []string
	for k := range registry {
		out = append(out, k)
	}
	sort.Strings(out)
	return out
}

var commonAssumptions = []string{
	"go/packages + go/types + go/ssa (x/tools v0.50.0) faithfully represent the program the go toolchain builds for linux/amd64 without build tags",
	"facts are nil/bool/order relations on SSA values along explored paths; no alias analysis beyond SSA def-use, phi resolution and captured single-variable cells",
	"standard library and third-party callees behave as documented (listed in coverage.trusted_base)",
}

// thoroughCallers (thorough tier): every repository caller of the given verifier/decoder uses its value result only
// on paths where the returned error is nil. Callers inside the property's surface (the packages named) fail the check;
// all other callers are reported as non-failing cross-reference notes (DESIGN §2: breadth never leaves the property).
func thoroughCallers(c *an.Check, what string, valIdx int, surface []string, callees ...an.Callee) {
	if c.Tier != "thorough" {
		return
	}
	p := c.P
	var core, other []*ssa.Function
	for _, fn := range p.AllRepoFuncs() {
		rel := strings.TrimPrefix(fn.Pkg.Pkg.Path(), an.Mod+"/")
		in := false
		for _, sfc := range surface {
			if rel == sfc || strings.HasPrefix(rel, sfc+"/") {
				in = true
			}
		}
		if in {
			core = append(core, fn)
		} else {
			other = append(other, fn)
		}
	}
	total, notes := 0, 0
	for _, cal := range callees {
		total += c.UsesGuarded("USEGUARD", what+": result of "+cal.String()+" used only when err==nil", cal, valIdx, core, nil)
		sub := an.NewCheck(c.Prop, c.Tier, p)
		total += sub.UsesGuarded("USEGUARD", what, cal, valIdx, other, nil)
		for _, o := range sub.Obls {
			if o.Status != an.Discharged {
				notes++
				c.Note("cross-reference (outside the property's surface): %s %s — %s", o.Func, o.Pos, o.Detail)
			}
		}
	}
	c.Note("thorough: %d call sites of %s checked for use-before-error-check (%d cross-reference notes)", total, what, notes)
}
