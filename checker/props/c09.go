package props

import (
	"fmt"
	"go/constant"
	"go/token"
	"go/types"

	"bifrostverify/an"

	"golang.org/x/tools/go/ssa"
)

func c09(c *an.Check) {
	ioWrapperTransparency(c)
	p := c.P
	T := "Conn"
	rd := p.Func("util/rwc", T, "Read")
	wr := p.Func("util/rwc", T, "Write")
	rx := p.Func("util/rwc", T, "rxPump")
	rwcF := p.FieldVar(an.FieldRef{Pkg: "util/rwc", Type: T, Field: "rwc"})
	if rd == nil || wr == nil || rx == nil || rwcF == nil {
		c.Undecided("GATE", "rwc.Conn", nil, "unresolved anchor")
		return
	}
	// Read: nil error only when the whole chunk fit
	c.Gate(an.GateSpec{Construct: "rwc.Conn.Read nil-error return", Fn: rd, Sink: nilErrReturn, Reqs: []an.Req{
		an.FactReq("len(b) >= len(chunk)", func(s *an.State, x, y ssa.Value, r an.Rel) bool {
			return r != an.ANY && r&an.LT == 0 && an.LenOf(s, x, func(a ssa.Value) bool { return an.IsParam(a, 1) }) && an.LenOf(s, y, func(a ssa.Value) bool { _, isE := a.(*ssa.Extract); return isE })
		})}})
	closedChannelReported(c, rd, "rwc.Conn.Read reports a closed connection as an error")
	// Read copies the received chunk into the caller's buffer and returns its length
	okCopy := false
	for _, b := range an.ScanBlocks(rd) {
		for _, ins := range b.Instrs {
			if cc, ok := ins.(*ssa.Call); ok && an.BuiltinName(cc) == "copy" && an.IsParam(cc.Call.Args[0], 1) {
				src := varOf(cc.Call.Args[1])
				if a, isCell := src.(*ssa.Alloc); isCell {
					for _, st := range p.Stores(a) {
						if e, ok := st.Val.(*ssa.Extract); ok {
							if _, isSel := e.Tuple.(*ssa.Select); isSel {
								okCopy = true
							}
						}
					}
				} else if e, ok := src.(*ssa.Extract); ok {
					if _, isSel := e.Tuple.(*ssa.Select); isSel {
						okCopy = true
					}
				}
			}
		}
	}
	c.Require(okCopy, "PROVENANCE", "rwc.Conn.Read copies the received chunk into the caller's buffer", rd, "", 1, "copy(b, chunk received from packetCh)", "Read does not copy the received chunk into the caller's buffer")
	// rxPump ordering: bytes read are queued before a read error ends the pump
	var reads []*ssa.Call
	for _, b := range an.ScanBlocks(rx) {
		for _, ins := range b.Instrs {
			if isInvokeOf(ins, "", "Read") {
				reads = append(reads, ins.(*ssa.Call))
			}
		}
	}
	if len(reads) != 1 {
		c.Undecided("ORDER", "rwc.Conn.rxPump queues read bytes before returning the read error", rx, "unresolved anchor: expected exactly one rwc.Read call")
	} else {
		r0 := reads[0]
		nres := an.ErrResult(r0, 0)
		n, ok := fieldUsedOnlyAsArg0ofInvoke(p, rx, rwcF, "Read")
		c.Require(ok && n == 1, "EXACTREAD", "rwc.Conn.rxPump uses the stream only through its single Read", rx, "", n, "single p.rwc.Read", "the pump touches the stream elsewhere")
		c.Gate(an.GateSpec{Rule: "ORDER", Construct: "rwc.Conn.rxPump returns the read error", Fn: rx,
			Sink: func(s *an.State, ins ssa.Instruction) bool {
				if _, isRet := ins.(*ssa.Return); !isRet {
					return false
				}
				e := an.ErrResult(r0, -1)
				return e != nil && s.NonNil(e)
			},
			Reqs: []an.Req{{Name: "no bytes were read (n==0) or the chunk was offered to the queue first", Holds: func(s *an.State, at ssa.Instruction) bool {
				if s.Rel(nres, ssa.NewConst(zeroInt(), nres.Type())) == an.EQ {
					return true
				}
				return s.ExecutedSince(at, r0, func(ins ssa.Instruction) bool {
					ch, v, ok := an.SelectSend(ins)
					_ = ch
					if !ok {
						return false
					}
					sl, isSl := v.(*ssa.Slice)
					return isSl && varOf(sl.X) == varOf(r0.Call.Args[0]) && sl.Low == nil && sl.High == nres
				})
			}}}})
		// every delivery is exactly the bytes just read
		c.Gate(an.GateSpec{Construct: "rwc.Conn.rxPump delivery", Fn: rx,
			Sink: func(s *an.State, ins ssa.Instruction) bool { _, _, ok := an.SelectSend(ins); return ok },
			Reqs: []an.Req{{Name: "delivers buf[:n] of the buffer just read, n != 0", Holds: func(s *an.State, at ssa.Instruction) bool {
				_, v, _ := an.SelectSend(at)
				sl, isSl := v.(*ssa.Slice)
				if !isSl || varOf(sl.X) != varOf(r0.Call.Args[0]) || sl.Low != nil || sl.High != nres {
					return false
				}
				r := s.Rel(nres, ssa.NewConst(zeroInt(), nres.Type()))
				return r != an.ANY && r&an.EQ == 0
			}}}})
		// freshness: each iteration reads into a buffer obtained in that iteration — chunks still waiting in the queue must
		// not share storage with the buffer of the next read
		{
			okFresh, whyFresh := false, "the buffer read into is not a local variable assigned from an allocation"
			loop := an.InnermostLoop(rx, r0.Block())
			if cell, isCell := varOf(r0.Call.Args[0]).(*ssa.Alloc); isCell && loop != nil {
				for _, sto := range p.Stores(cell) {
					if loop[sto.Block()] && sto.Block().Dominates(r0.Block()) {
						if _, isCall := sto.Val.(*ssa.Call); isCall {
							okFresh = true
						}
						if _, isMk := sto.Val.(*ssa.MakeSlice); isMk {
							okFresh = true
						}
					}
				}
				if !okFresh {
					whyFresh = "the read buffer is obtained outside the pump loop: every queued chunk aliases the one buffer the next Read overwrites"
				}
			} else if loop == nil {
				whyFresh = "the stream Read is not inside the pump loop"
			}
			c.Require(okFresh, "LOOPALLOC", "rwc.Conn.rxPump reads each chunk into a buffer of its own", rx, "", 1, "buffer (re)assigned from the arena inside the loop, before the Read", whyFresh)
		}
		// ownership: a buffer that was offered to the queue is never handed back to the arena by the pump
		c.Gate(an.GateSpec{Rule: "OWNERSHIP", Construct: "rwc.Conn.rxPump recycles a read buffer", Fn: rx,
			Sink: func(s *an.State, ins ssa.Instruction) bool {
				call, ok := ins.(*ssa.Call)
				if !ok || !an.IsCallTo(call, an.X("sync", "Pool", "Put")) {
					return false
				}
				return stripIface(call.Call.Args[1]) == varOf(r0.Call.Args[0])
			},
			Reqs: []an.Req{{Name: "the buffer was not queued in this iteration (nothing was read into it)", Holds: func(s *an.State, at ssa.Instruction) bool {
				if s.ExecutedSince(at, r0, func(i ssa.Instruction) bool { _, _, isSend := an.SelectSend(i); return isSend }) {
					return false
				}
				return s.Rel(nres, ssa.NewConst(zeroInt(), nres.Type())) == an.EQ
			}}}})
		c.ErrProp(an.ErrPropSpec{Construct: "rwc.Conn.rxPump propagates the read error", Fn: rx, ErrIdx: -1, Failing: func(s *an.State) (bool, string) {
			return s.NonNil(an.ErrResult(r0, -1)), "rwc.Read failed"
		}})
	}
	// a buffer handed back to the arena is not touched again (another WriteTo / the pump may already own it)
	if n := c.NotUsedAfterRelease("OWNERSHIP", "rwc arena buffers are not used after release", c.P.PkgFuncs("util/rwc")); n < 3 {
		c.Undecided("OWNERSHIP", "rwc arena buffers are not used after release", nil, fmt.Sprintf("only %d arena releases found (anchor drift)", n))
	}
	pumpCloses(c, rx, T)
	// Write: loops until everything is written or an error occurs
	var writes []*ssa.Call
	for _, b := range an.ScanBlocks(wr) {
		for _, ins := range b.Instrs {
			if isInvokeOf(ins, "", "Write") {
				writes = append(writes, ins.(*ssa.Call))
			}
		}
	}
	if len(writes) != 1 {
		c.Undecided("GATE", "rwc.Conn.Write", wr, "unresolved anchor: expected one rwc.Write call")
	} else {
		w := writes[0]
		sl, isSl := w.Call.Args[0].(*ssa.Slice)
		okSl := isSl && an.IsParam(sl.X, 1) && sl.High == nil && sl.Low != nil
		var written ssa.Value
		if okSl {
			written = sl.Low
			// written is advanced by the count Write returned
			phi, isPhi := written.(*ssa.Phi)
			okSl = false
			if isPhi {
				for _, e := range phi.Edges {
					if add, ok := e.(*ssa.BinOp); ok && add.Op == token.ADD && (add.X == ssa.Value(phi) && add.Y == an.ErrResult(w, 0) || add.Y == ssa.Value(phi) && add.X == an.ErrResult(w, 0)) {
						okSl = true
					}
				}
			}
		}
		c.Require(okSl, "PROVENANCE", "rwc.Conn.Write writes pkt[written:] and advances by the count written", wr, "", 1, "Write(pkt[written:]); written += n", "the loop does not resume from the first unwritten byte")
		c.Gate(an.GateSpec{Construct: "rwc.Conn.Write nil-error return", Fn: wr, Sink: nilErrReturn, Reqs: []an.Req{an.AnyOf("empty input or everything written",
			an.FactReq("len(pkt)==0", func(s *an.State, x, y ssa.Value, r an.Rel) bool {
				return r == an.EQ && an.IsIntConst(y, 0) && an.LenOf(s, x, func(a ssa.Value) bool { return an.IsParam(a, 1) })
			}),
			an.FactReq("written >= len(pkt)", func(s *an.State, x, y ssa.Value, r an.Rel) bool {
				if written == nil || r == an.ANY || r&an.LT != 0 || !an.LenOf(s, y, func(a ssa.Value) bool { return an.IsParam(a, 1) }) {
					return false
				}
				if s.Key(x) == s.Key(written) {
					return true
				}
				// post-tested loop: the test is made on the advanced count (written + n) that feeds the loop variable
				if phi, ok := written.(*ssa.Phi); ok {
					for _, e := range phi.Edges {
						if add, isAdd := e.(*ssa.BinOp); isAdd && add.Op == token.ADD && s.Key(x) == s.Key(add) {
							return true
						}
					}
				}
				return false
			}))}})
		c.ErrProp(an.ErrPropSpec{Construct: "rwc.Conn.Write propagates write errors", Fn: wr, ErrIdx: -1, Failing: func(s *an.State) (bool, string) { return s.NonNil(an.ErrResult(w, -1)), "rwc.Write failed" }})
	}
	if bce := peerBCE(c, "./util/rwc"); bce != nil {
		c.Totality(an.PanicSpec{Construct: "rwc.Conn totality", Funcs: []*ssa.Function{rd, wr, rx, p.Func("util/rwc", T, "getArenaBuf")}, BCE: bce, Min: 4, Reviewed: map[string]string{
			"(*util/rwc.Conn).Write: bounds pkt[written:]":    "written starts at 0 and grows by Write's count n <= len(pkt[written:]) (io.Writer contract); the loop runs only while written < len(pkt)",
			"(*util/rwc.Conn).rxPump: bounds pktBuf[:n]":      "n is Read's count for pktBuf itself: 0 <= n <= len(pktBuf) (io.Reader contract)",
			"(*util/rwc.Conn).getArenaBuf: bounds buf[:size]": "taken only on the branch cap(buf) >= size",
			"(*util/rwc.Conn).getArenaBuf: assert to *[]byte": "the pool only ever receives *[]byte (all ar.Put calls in the package pass &[]byte)",
		}})
	}
	c.Trust("io.Reader/io.Writer contracts (0<=n<=len)", "FIFO order of Go channels with a single sender")
}

func zeroInt() constant.Value { return constant.MakeInt64(0) }

// fieldUsedOnlyAsArg0ofInvoke: every use of the field's loaded value in fn is the receiver of an interface call to method.
func fieldUsedOnlyAsArg0ofInvoke(p *an.Prog, fn *ssa.Function, fv *types.Var, method string) (int, bool) {
	n, ok := 0, true
	for _, a := range p.FieldAccesses(fv, []*ssa.Function{fn}) {
		ld, isLoad := a.Instr.(*ssa.UnOp)
		if a.Kind != an.Read || !isLoad || ld.Referrers() == nil {
			ok = false
			continue
		}
		for _, r := range *ld.Referrers() {
			if _, dbg := r.(*ssa.DebugRef); dbg {
				continue
			}
			n++
			call, isCall := r.(*ssa.Call)
			if !isCall || !call.Call.IsInvoke() || call.Call.Method.Name() != method || call.Call.Value != ssa.Value(ld) {
				ok = false
			}
		}
	}
	return n, ok
}

func init() {
	register(&Def{ID: "C09", Run: c09,
		Explain:     "Decides on SSA for rwc.Conn: (R1) Read returns a nil error only when len(b) >= len(chunk), copies the received chunk, and reports a closed channel as a non-nil error; (ORDER) in the pump, whenever Read returned n!=0 together with an error, buf[:n] of that very buffer is offered to the queue before the error return, and every delivery is buf[:n] of the buffer just read; the pump's deferred cleanup records its error and closes the channel, and it is the only sender/closer; (R1) Write returns nil only when everything was written, resuming at pkt[written:]; (PANIC) totality of these functions. (LOOPALLOC) every pump iteration reads into a buffer (re)assigned from the arena inside the loop before the Read, so queued chunks never alias the buffer of the next read. (PROVENANCE) the logging stream wrappers (util/logconn, util/logrw) return the underlying call's (n, err) unchanged on the caller's buffer. (OWNERSHIP) an arena buffer is not touched after it was handed back to the pool.",
		NotCov:      "ordering across chunks (single pump goroutine + FIFO channel: trusted); the explicit short-buffer truncation is permitted by the property.",
		Assumptions: commonAssumptions})
}

// ioWrapperTransparency: the logging stream wrappers that can sit between rwc.Conn and the real stream hand the
// (count, error) of the one underlying Read/Write back unchanged and pass the caller's buffer through — a wrapper that
// rounds the count up or swallows bytes that came with an error breaks "no byte lost, none invented" for every Conn
// built on it.
func ioWrapperTransparency(c *an.Check) {
	p := c.P
	n, bad := 0, ""
	for _, pkg := range []string{"util/logconn", "util/logrw"} {
		for _, fn := range p.PkgFuncs(pkg) {
			if fn.Parent() != nil || fn.Signature.Recv() == nil || (fn.Name() != "Read" && fn.Name() != "Write") {
				continue
			}
			n++
			var inner []*ssa.Call
			for _, b := range an.ScanBlocks(fn) {
				for _, ins := range b.Instrs {
					if call, ok := ins.(*ssa.Call); ok && call.Call.IsInvoke() && call.Call.Method.Name() == fn.Name() {
						inner = append(inner, call)
					}
				}
			}
			if len(inner) != 1 || !an.IsParam(inner[0].Call.Args[0], 1) {
				bad = fmt.Sprintf("%s does not make exactly one underlying %s call on the caller's buffer", an.FuncName(fn), fn.Name())
				continue
			}
			st := p.NewState(fn)
			_ = st
			c.EachReturn("PROVENANCE", an.FuncName(fn)+" returns the underlying call's (n, err) unchanged", fn, "return = results of the single underlying call", func(s *an.State, ret *ssa.Return) string {
				r0, r1 := s.RetVal(ret, 0), s.RetVal(ret, 1)
				e0, ok0 := s.Canon(r0).(*ssa.Extract)
				e1, ok1 := s.Canon(r1).(*ssa.Extract)
				if !ok0 || !ok1 || e0.Tuple != ssa.Value(inner[0]) || e1.Tuple != ssa.Value(inner[0]) || e0.Index != 0 || e1.Index != 1 {
					return "the count or the error reported is not the one the underlying stream returned: bytes are lost (or invented) between the stream and the buffered connection on top"
				}
				return ""
			})
		}
	}
	c.Require(bad == "" && n >= 4, "PROVENANCE", "stream log wrappers are transparent", nil, "", n, "one underlying call on the caller's buffer per Read/Write", func() string {
		if bad != "" {
			return bad
		}
		return "fewer than 4 wrapper Read/Write methods found (anchor drift)"
	}())
}
