package props

import (
	"bifrostverify/an"

	"golang.org/x/tools/go/ssa"
)

// signBody extracts (operands, separator) of the single bytes.Join call of fn.
func signBody(c *an.Check, fn *ssa.Function) ([]ssa.Value, string, *ssa.Call) {
	if fn == nil {
		return nil, "", nil
	}
	js := an.Calls(fn, an.X("bytes", "", "Join"))
	if len(js) != 1 {
		return nil, "", nil
	}
	el := c.P.SliceLitElems(js[0].Call.Args[0])
	sep, _ := an.StrConstOf(js[0].Call.Args[1])
	return el, sep, js[0]
}

func c02(c *an.Check) {
	p := c.P
	sigVerifyWithPublicGates(c)
	sigValidateGates(c)
	hashTypeSiblings(c)

	sign := p.Func("peer", "", "NewSignatureWithHashedData")
	ver := p.Func("peer", "Signature", "VerifyWithPublic")
	so, ssep, sj := signBody(c, sign)
	vo, vsep, vj := signBody(c, ver)
	if sj == nil || vj == nil || len(so) != 3 || len(vo) != 3 {
		c.Undecided("MIRROR", "peer sign body construction", sign, "unresolved anchor: expected one bytes.Join of a 3-element literal in both NewSignatureWithHashedData and VerifyWithPublic")
		return
	}
	itoa := an.X("strconv", "", "Itoa")
	htOfItoa := func(v ssa.Value) ssa.Value {
		call := an.ResultCallTo(an.ConvOf(v), itoa)
		if call == nil {
			return nil
		}
		return an.ConvOf(call.Call.Args[0])
	}
	// sign side
	sHT := htOfItoa(so[1])
	okS := an.IsParam(an.ConvOf(so[0]), 0) && sHT != nil && an.IsParam(sHT, 2) && an.IsParam(so[2], 3)
	c.Require(okS, "MIRROR", "peer.NewSignatureWithHashedData signs context‖itoa(hashType)‖digest", sign, "", 3,
		"operands = ([]byte(encContext), []byte(Itoa(int(hashType))), hashData)", "the signed bytes are not built from (context parameter, decimal hash type parameter, digest parameter)")
	// verify side
	vHT := htOfItoa(vo[1])
	st := p.NewState(ver)
	okV := an.IsParam(an.ConvOf(vo[0]), 1) && vHT != nil && getterOn(st, vHT, "peer", "Signature", "GetHashType")
	var sumCall *ssa.Call
	if okV {
		// digest operand: field Hash of the *hash.Hash returned by hash.Sum(ht, data)
		okV = false
		if u, ok := vo[2].(*ssa.UnOp); ok {
			if fa, ok := u.X.(*ssa.FieldAddr); ok && an.FieldOfAddr(fa) != nil && an.FieldOfAddr(fa).Name() == "Hash" {
				sumCall = an.ResultCallTo(fa.X, an.R("hash", "", "Sum"))
			}
		}
		if call := an.ResultCallTo(vo[2], an.R("hash", "Hash", "GetHash")); call != nil {
			sumCall = an.ResultCallTo(call.Call.Args[0], an.R("hash", "", "Sum"))
		}
		if sumCall != nil {
			okV = p.Key(sumCall.Call.Args[0]) == p.Key(vHT) || (getterOn(st, sumCall.Call.Args[0], "peer", "Signature", "GetHashType"))
			okV = okV && an.IsParam(sumCall.Call.Args[1], 3)
			// both uses must be the same SSA value (one read of the hash type)
			okV = okV && sumCall.Call.Args[0] == vHT
		}
	}
	c.Require(okV, "MIRROR", "peer.Signature.VerifyWithPublic verifies context‖itoa(hashType)‖H_hashType(data)", ver, "", 3,
		"operands = ([]byte(encContext), []byte(Itoa(int(ht))), hash.Sum(ht,data).Hash) with one ht", "the verified bytes are not (context parameter, decimal of the signature's hash type, digest of the data parameter under that same hash type)")
	c.Require(ssep == vsep && ssep != "", "MIRROR", "peer sign/verify use the same separator", ver, "", 2, "separator constants are equal", "sign and verify join with different separators")
	// the key's Verify is called on (that body, the signature's own bytes)
	if ver != nil {
		kv := an.Calls(ver, fnPubKeyVerify)
		ok := len(kv) == 1 && kv[0].Call.Args[0] == ssa.Value(vj) && getterOn(st, kv[0].Call.Args[1], "peer", "Signature", "GetSigData") && an.IsParam(kv[0].Call.Value, 2)
		c.Require(ok, "PROVENANCE", "peer.Signature.VerifyWithPublic calls pubKey.Verify(body, own sig bytes)", ver, "", len(kv), "Verify(pubKey param; joined body, s.GetSigData())", "PubKey.Verify is not applied to (the joined body, the signature's own bytes) on the key parameter")
	}
	// sign: the body is what gets signed with the private key parameter, and the stored hash type is the signed one
	if sign != nil {
		sc := an.Calls(sign, an.R("crypto", "PrivKey", "Sign"))
		ok := len(sc) == 1 && sc[0].Call.Args[0] == ssa.Value(sj) && an.IsParam(sc[0].Call.Value, 1)
		c.Require(ok, "PROVENANCE", "peer.NewSignatureWithHashedData signs the joined body with the key parameter", sign, "", len(sc), "privKey.Sign(body)", "the joined body is not what is signed with the private key parameter")
		htf := p.FieldVar(an.FieldRef{Pkg: "peer", Type: "Signature", Field: "HashType"})
		sdf := p.FieldVar(an.FieldRef{Pkg: "peer", Type: "Signature", Field: "SigData"})
		okF, n := true, 0
		for _, a := range p.FieldAccesses(htf, []*ssa.Function{sign}) {
			if a.Kind == an.Write {
				n++
				okF = okF && an.IsParam(a.Val, 2)
			}
		}
		for _, a := range p.FieldAccesses(sdf, []*ssa.Function{sign}) {
			if a.Kind == an.Write {
				n++
				okF = okF && an.ResultCallTo(a.Val, an.R("crypto", "PrivKey", "Sign")) != nil
			}
		}
		c.Require(okF && n == 2, "PROVENANCE", "peer.NewSignatureWithHashedData records the signed hash type and the signature bytes", sign, "", n, "Signature{HashType: hashType, SigData: Sign(body)}", "the Signature object does not record the hash type that was signed / the bytes Sign returned")
		c.Gate(an.GateSpec{Construct: "peer.NewSignatureWithHashedData sign call", Fn: sign, Sink: func(s *an.State, ins ssa.Instruction) bool {
			return an.IsCallTo(ins, an.R("crypto", "PrivKey", "Sign"))
		},
			Reqs: []an.Req{an.CallOK("HashType.Validate ok", an.R("hash", "HashType", "Validate"))}})
	}
	// NewSignature hashes with the same type it passes on
	ns := p.Func("peer", "", "NewSignature")
	if ns != nil {
		cs := an.Calls(ns, an.R("peer", "", "NewSignatureWithHashedData"))
		ok := len(cs) == 1
		if ok {
			a := cs[0].Call.Args
			gh := an.ResultCallTo(a[3], an.R("hash", "Hash", "GetHash"))
			ok = an.IsParam(a[0], 0) && an.IsParam(a[1], 1) && an.IsParam(a[2], 2) && gh != nil
			if ok {
				sm := an.ResultCallTo(gh.Call.Args[0], an.R("hash", "", "Sum"))
				ok = sm != nil && an.IsParam(sm.Call.Args[0], 2) && an.IsParam(sm.Call.Args[1], 3)
			}
		}
		c.Require(ok, "PROVENANCE", "peer.NewSignature hashes data with the hash type it signs", ns, "", len(cs), "NewSignatureWithHashedData(ctx,key,ht,Sum(ht,data).GetHash())", "NewSignature does not hash the data with the same hash type it passes to the signer")
		c.Gate(an.GateSpec{Construct: "peer.NewSignature success-return", Fn: ns, Sink: successReturn, Reqs: []an.Req{an.CallOK("hash.Sum ok", an.R("hash", "", "Sum"))}})
	} else {
		c.Undecided("PROVENANCE", "peer.NewSignature hashes data with the hash type it signs", nil, "unresolved anchor")
	}
	c.Trust("crypto ed25519 Sign/Verify", "bytes.Join", "strconv.Itoa")
}

func init() {
	register(&Def{ID: "C02", Run: c02,
		Explain:     "Decides on SSA: (MIRROR) NewSignatureWithHashedData and VerifyWithPublic join the same three operands (context, decimal hash type, digest) with the same separator; on the verify side the digest is hash.Sum(ht,data) for the very ht value that is written into the body; the Signature object records the signed hash type; NewSignature hashes with the type it signs; (R1) PubKey.Verify / PrivKey.Sign are reached only past the hash-type and empty-signature rejections; Signature.Validate succeeds only past its three rejections; (SIBLING) the HashType switches agree (UNKNOWN and undeclared values are rejected everywhere). The Ed25519 leg: a parsed public key is exactly 32 bytes and a small-order key never verifies. Shared: small-order classifier obligations, UnmarshalPublicKey decode gate, VerifyWithPublic on the caller's key.",
		NotCov:      "that signatures under different keys/contexts/data do not verify is a property of Ed25519 and the digest functions (trusted); 'verifies exactly when' is decided only as equality of the two constructions.",
		Assumptions: commonAssumptions})
}
