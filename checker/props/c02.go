package props

import (
	"fmt"
	"strings"

	"bifrostverify/an"

	"golang.org/x/tools/go/ssa"
)

// bodyExpr describes how the bytes handed to Sign / Verify are built: one bytes.Join of a literal operand list, or one
// call of a repository helper (then both sides must call the same helper, which must be a pure function).
type bodyExpr struct {
	kind   string // "join" | "call"
	sep    string
	callee *ssa.Function
	ops    []ssa.Value
	val    ssa.Value
}

func bodyOf(c *an.Check, v ssa.Value) *bodyExpr {
	call, ok := v.(*ssa.Call)
	if !ok {
		return nil
	}
	if an.IsCallTo(call, an.X("bytes", "", "Join")) {
		sep, _ := an.StrConstOf(call.Call.Args[1])
		return &bodyExpr{kind: "join", sep: sep, ops: c.P.SliceLitElems(call.Call.Args[0]), val: v}
	}
	if f := call.Call.StaticCallee(); f != nil && f.Pkg != nil && strings.HasPrefix(f.Pkg.Pkg.Path(), an.Mod) && len(f.Blocks) > 0 {
		return &bodyExpr{kind: "call", callee: f, ops: call.Call.Args, val: v}
	}
	return nil
}

// peel strips conversions and single-argument calls of non-repository functions (strconv.Itoa, string(...)) from v and
// returns the value underneath together with a description of what was stripped.
func peel(v ssa.Value) (ssa.Value, string) {
	wrap := ""
	for {
		switch x := v.(type) {
		case *ssa.Convert:
			wrap += "conv<" + x.Type().String() + ">|"
			v = x.X
			continue
		case *ssa.ChangeType:
			v = x.X
			continue
		case *ssa.Call:
			if f := x.Call.StaticCallee(); f != nil && len(x.Call.Args) == 1 && (f.Pkg == nil || !strings.HasPrefix(f.Pkg.Pkg.Path(), an.Mod)) {
				wrap += "call<" + f.String() + ">|"
				v = x.Call.Args[0]
				continue
			}
		}
		return v, wrap
	}
}

func c02(c *an.Check) {
	p := c.P
	sigVerifyWithPublicGates(c)
	sigValidateGates(c)
	hashTypeSiblings(c)

	sign := p.Func("peer", "", "NewSignatureWithHashedData")
	ver := p.Func("peer", "Signature", "VerifyWithPublic")
	var sb, vb *bodyExpr
	if sign != nil {
		if sc := an.Calls(sign, an.R("crypto", "PrivKey", "Sign")); len(sc) == 1 {
			sb = bodyOf(c, sc[0].Call.Args[0])
		}
	}
	if ver != nil {
		if kv := an.Calls(ver, fnPubKeyVerify); len(kv) == 1 {
			vb = bodyOf(c, kv[0].Call.Args[0])
		}
	}
	if sb == nil || vb == nil || len(sb.ops) != 3 || len(vb.ops) != 3 {
		c.Undecided("MIRROR", "peer sign body construction", sign, "unresolved anchor: expected the bytes given to Sign / Verify to be one bytes.Join of a 3-element literal, or one call of a shared helper on three operands, in both NewSignatureWithHashedData and VerifyWithPublic")
		return
	}
	// sign side: roles of the three operands
	sRole, sWrap := make([]string, 3), make([]string, 3)
	for i, o := range sb.ops {
		core, w := peel(o)
		sWrap[i] = w
		switch {
		case an.IsParam(core, 0):
			sRole[i] = "context"
		case an.IsParam(core, 2):
			sRole[i] = "hashType"
		case an.IsParam(core, 3):
			sRole[i] = "digest"
		}
	}
	distinct := func(r []string) bool {
		seen := map[string]bool{}
		for _, x := range r {
			if x == "" || seen[x] {
				return false
			}
			seen[x] = true
		}
		return true
	}
	okS := distinct(sRole)
	c.Require(okS, "MIRROR", "peer.NewSignatureWithHashedData signs context‖itoa(hashType)‖digest", sign, "", 3,
		"operands = ([]byte(encContext), []byte(Itoa(int(hashType))), hashData)", "the signed bytes are not built from (context parameter, decimal hash type parameter, digest parameter)")
	// verify side
	st := p.NewState(ver)
	vRole, vWrap := make([]string, 3), make([]string, 3)
	var vHT ssa.Value
	var sumCall *ssa.Call
	for i, o := range vb.ops {
		core, w := peel(o)
		vWrap[i] = w
		switch {
		case an.IsParam(core, 1):
			vRole[i] = "context"
		case getterOn(st, core, "peer", "Signature", "GetHashType"):
			vRole[i] = "hashType"
			vHT = core
		default:
			// digest operand: field Hash of the *hash.Hash returned by hash.Sum(ht, data)
			if u, ok := core.(*ssa.UnOp); ok {
				if fa, ok := u.X.(*ssa.FieldAddr); ok && an.FieldOfAddr(fa) != nil && an.FieldOfAddr(fa).Name() == "Hash" {
					sumCall = an.ResultCallTo(fa.X, an.R("hash", "", "Sum"))
				}
			}
			if call := an.ResultCallTo(core, an.R("hash", "Hash", "GetHash")); call != nil {
				sumCall = an.ResultCallTo(call.Call.Args[0], an.R("hash", "", "Sum"))
			}
			if sumCall != nil {
				vRole[i] = "digest"
			}
		}
	}
	okV := distinct(vRole)
	if okV {
		// the digest is of the data parameter under the very hash type that is also signed (one read of the hash type)
		okV = sumCall.Call.Args[0] == vHT && an.IsParam(sumCall.Call.Args[1], 3)
	}
	c.Require(okV, "MIRROR", "peer.Signature.VerifyWithPublic verifies context‖itoa(hashType)‖H_hashType(data)", ver, "", 3,
		"operands = ([]byte(encContext), []byte(Itoa(int(ht))), hash.Sum(ht,data).Hash) with one ht", "the verified bytes are not (context parameter, decimal of the signature's hash type, digest of the data parameter under that same hash type)")
	same, whyM := sb.kind == vb.kind, "sign and verify build the body in different ways"
	if same {
		switch sb.kind {
		case "join":
			same, whyM = sb.sep == vb.sep && sb.sep != "", "sign and verify join with different separators"
		case "call":
			same, whyM = sb.callee == vb.callee, "sign and verify build the body with different helpers"
			if same {
				if bad, _ := impureIn(p, repoCallTree(p, sb.callee)); bad != "" {
					same, whyM = false, "the shared body helper is not a pure function: "+bad
				}
			}
		}
	}
	if same {
		for i := range sRole {
			if sRole[i] != vRole[i] || sWrap[i] != vWrap[i] {
				same, whyM = false, fmt.Sprintf("operand %d differs between the two sides: sign has %s%s, verify has %s%s", i, sWrap[i], sRole[i], vWrap[i], vRole[i])
			}
		}
	}
	c.Require(same, "MIRROR", "peer sign/verify use the same separator", ver, "", 2, "same construction (separator constant or shared pure helper), same operand order and encoding", whyM)
	vj, sj := vb.val, sb.val
	// the key's Verify is called on (that body, the signature's own bytes)
	if ver != nil {
		kv := an.Calls(ver, fnPubKeyVerify)
		ok := len(kv) == 1 && kv[0].Call.Args[0] == vj && getterOn(st, kv[0].Call.Args[1], "peer", "Signature", "GetSigData") && an.IsParam(kv[0].Call.Value, 2)
		c.Require(ok, "PROVENANCE", "peer.Signature.VerifyWithPublic calls pubKey.Verify(body, own sig bytes)", ver, "", len(kv), "Verify(pubKey param; joined body, s.GetSigData())", "PubKey.Verify is not applied to (the joined body, the signature's own bytes) on the key parameter")
	}
	// sign: the body is what gets signed with the private key parameter, and the stored hash type is the signed one
	if sign != nil {
		sc := an.Calls(sign, an.R("crypto", "PrivKey", "Sign"))
		ok := len(sc) == 1 && sc[0].Call.Args[0] == sj && an.IsParam(sc[0].Call.Value, 1)
		c.Require(ok, "PROVENANCE", "peer.NewSignatureWithHashedData signs the joined body with the key parameter", sign, "", len(sc), "privKey.Sign(body)", "the joined body is not what is signed with the private key parameter")
		htf := p.FieldVar(an.FieldRef{Pkg: "peer", Type: "Signature", Field: "HashType"})
		sdf := p.FieldVar(an.FieldRef{Pkg: "peer", Type: "Signature", Field: "SigData"})
		okF, n := true, 0
		for _, a := range p.FieldAccesses(htf, []*ssa.Function{sign}) {
			if a.Kind == an.Write {
				n++
				okF = okF && an.IsParam(a.Val, 2)
			}
		}
		for _, a := range p.FieldAccesses(sdf, []*ssa.Function{sign}) {
			if a.Kind == an.Write {
				n++
				okF = okF && an.ResultCallTo(a.Val, an.R("crypto", "PrivKey", "Sign")) != nil
			}
		}
		c.Require(okF && n == 2, "PROVENANCE", "peer.NewSignatureWithHashedData records the signed hash type and the signature bytes", sign, "", n, "Signature{HashType: hashType, SigData: Sign(body)}", "the Signature object does not record the hash type that was signed / the bytes Sign returned")
		c.Gate(an.GateSpec{Construct: "peer.NewSignatureWithHashedData sign call", Fn: sign, Sink: func(s *an.State, ins ssa.Instruction) bool {
			return an.IsCallTo(ins, an.R("crypto", "PrivKey", "Sign"))
		},
			Reqs: []an.Req{an.CallOK("HashType.Validate ok", an.R("hash", "HashType", "Validate"))}})
	}
	// NewSignature hashes with the same type it passes on
	ns := p.Func("peer", "", "NewSignature")
	if ns != nil {
		cs := an.Calls(ns, an.R("peer", "", "NewSignatureWithHashedData"))
		ok := len(cs) == 1
		if ok {
			a := cs[0].Call.Args
			gh := an.ResultCallTo(a[3], an.R("hash", "Hash", "GetHash"))
			ok = an.IsParam(a[0], 0) && an.IsParam(a[1], 1) && an.IsParam(a[2], 2) && gh != nil
			if ok {
				sm := an.ResultCallTo(gh.Call.Args[0], an.R("hash", "", "Sum"))
				ok = sm != nil && an.IsParam(sm.Call.Args[0], 2) && an.IsParam(sm.Call.Args[1], 3)
			}
		}
		c.Require(ok, "PROVENANCE", "peer.NewSignature hashes data with the hash type it signs", ns, "", len(cs), "NewSignatureWithHashedData(ctx,key,ht,Sum(ht,data).GetHash())", "NewSignature does not hash the data with the same hash type it passes to the signer")
		c.Gate(an.GateSpec{Construct: "peer.NewSignature success-return", Fn: ns, Sink: successReturn, Reqs: []an.Req{an.CallOK("hash.Sum ok", an.R("hash", "", "Sum"))}})
	} else {
		c.Undecided("PROVENANCE", "peer.NewSignature hashes data with the hash type it signs", nil, "unresolved anchor")
	}
	c.Trust("crypto ed25519 Sign/Verify", "bytes.Join", "strconv.Itoa")
}

func init() {
	register(&Def{ID: "C02", Run: c02,
		Explain:     "Decides on SSA: (MIRROR) NewSignatureWithHashedData and VerifyWithPublic join the same three operands (context, decimal hash type, digest) with the same separator; on the verify side the digest is hash.Sum(ht,data) for the very ht value that is written into the body; the Signature object records the signed hash type; NewSignature hashes with the type it signs; (R1) PubKey.Verify / PrivKey.Sign are reached only past the hash-type and empty-signature rejections; Signature.Validate succeeds only past its three rejections; (SIBLING) the HashType switches agree (UNKNOWN and undeclared values are rejected everywhere). The Ed25519 leg: a parsed public key is exactly 32 bytes and a small-order key never verifies. Shared: small-order classifier obligations, UnmarshalPublicKey decode gate, VerifyWithPublic on the caller's key. (NILDEREF) possibly-absent sub-messages are dereferenced only where known present; the embedded key is parsed by the unmarshaller registered for its own declared type, into a zero message; the sign/verify body may be built by one shared pure helper.",
		NotCov:      "that signatures under different keys/contexts/data do not verify is a property of Ed25519 and the digest functions (trusted); 'verifies exactly when' is decided only as equality of the two constructions.",
		Assumptions: commonAssumptions})
}
