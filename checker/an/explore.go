package an

import (
	"fmt"
	"go/constant"
	"go/token"
	"go/types"
	"regexp"
	"sort"
	"strconv"
	"strings"

	"golang.org/x/tools/go/ssa"
)

// Rel is a set of possible order relations between two values.
type Rel uint8

const (
	LT Rel = 1 << iota
	EQ
	GT
	NE  = LT | GT
	LE  = LT | EQ
	GE  = GT | EQ
	ANY = LT | EQ | GT
)

func (r Rel) String() string {
	switch r {
	case LT:
		return "<"
	case EQ:
		return "=="
	case GT:
		return ">"
	case NE:
		return "!="
	case LE:
		return "<="
	case GE:
		return ">="
	case ANY:
		return "?"
	case 0:
		return "false"
	}
	return "?"
}

func flip(r Rel) Rel {
	var o Rel
	if r&LT != 0 {
		o |= GT
	}
	if r&GT != 0 {
		o |= LT
	}
	if r&EQ != 0 {
		o |= EQ
	}
	return o
}

// State is the abstract state along one explored path.
type State struct {
	P     *Prog
	Fn    *ssa.Function
	Res   map[ssa.Value]ssa.Value // phi / load / free-variable resolution on this path
	Cell  map[*ssa.Alloc]ssa.Value
	Facts map[string]Rel
	Trail []*ssa.BasicBlock
	Snap  map[*ssa.Alloc]ssa.Value // cell contents just before the function's deferred calls ran
	// Marks are sticky gate bits set by a GateSpec.Mark hook when a pass edge is traversed. The value is the
	// subject whose redefinition (re-entry of its defining block) resets the mark; nil = never reset.
	Marks map[string]ssa.Value
	Outer *State // state at the closure creation site (for nested exploration), for witness only
	// Stack holds the resume points of same-package helpers being explored inline (InlineHelpers mode).
	Stack []inlFrame
	// Segs, when non-nil, refines Trail into executed instruction ranges (a caller block is split around an inlined call).
	Segs []trailSeg
}

type inlFrame struct {
	call *ssa.Call
	b    *ssa.BasicBlock
	idx  int
}

type trailSeg struct {
	b        *ssa.BasicBlock
	from, to int
}

// InlineHelpers switches the explorer to "helpers inline" mode: a static call of an unexported function of the
// root's own package (with a body, not recursive, bounded depth and size) is explored as part of the caller's path —
// parameters are bound to the canonical arguments, the callee's returns resume the caller with the results bound.
// The driver enables it for a second pass over a check that did not pass as written (helper extraction is the most
// common behaviour-preserving refactoring); an obligation discharged in either pass is discharged.
var InlineHelpers bool

// NewState creates an empty state for fn.
func (p *Prog) NewState(fn *ssa.Function) *State {
	return &State{P: p, Fn: fn, Res: map[ssa.Value]ssa.Value{}, Cell: map[*ssa.Alloc]ssa.Value{}, Facts: map[string]Rel{}}
}

func (s *State) clone() *State {
	n := &State{P: s.P, Fn: s.Fn, Outer: s.Outer,
		Res: make(map[ssa.Value]ssa.Value, len(s.Res)+2), Cell: make(map[*ssa.Alloc]ssa.Value, len(s.Cell)+2), Facts: make(map[string]Rel, len(s.Facts)+2)}
	for k, v := range s.Res {
		n.Res[k] = v
	}
	for k, v := range s.Cell {
		n.Cell[k] = v
	}
	for k, v := range s.Facts {
		n.Facts[k] = v
	}
	n.Trail = append([]*ssa.BasicBlock(nil), s.Trail...)
	if len(s.Stack) > 0 {
		n.Stack = append([]inlFrame(nil), s.Stack...)
	}
	if s.Segs != nil {
		n.Segs = append([]trailSeg(nil), s.Segs...)
	}
	n.Snap = s.Snap
	if len(s.Marks) > 0 {
		n.Marks = make(map[string]ssa.Value, len(s.Marks))
		for k, v := range s.Marks {
			n.Marks[k] = v
		}
	}
	return n
}

// SetMark sets a sticky gate bit.
func (s *State) SetMark(name string, subject ssa.Value) {
	if s.Marks == nil {
		s.Marks = map[string]ssa.Value{}
	}
	s.Marks[name] = subject
}

// HasMark reports whether the gate bit is set on this path.
func (s *State) HasMark(name string) bool { _, ok := s.Marks[name]; return ok }

// CondRel normalises a branch condition taken with outcome want into "x rel y" (ok=false for non-comparisons).
func (s *State) CondRel(cond ssa.Value, want bool) (x, y ssa.Value, rel Rel, ok bool) {
	c := s.Canon(cond)
	switch v := c.(type) {
	case *ssa.UnOp:
		if v.Op == token.NOT {
			return s.CondRel(v.X, !want)
		}
	case *ssa.BinOp:
		if r, isCmp := relOfOp(v.Op); isCmp {
			if !want {
				r = ANY &^ r
			}
			return s.Canon(v.X), s.Canon(v.Y), r, true
		}
	}
	return nil, nil, 0, false
}

// Canon resolves a value along this path: representation wrappers, resolved phis, loads of known cells,
// free variables.
func (s *State) Canon(v ssa.Value) ssa.Value {
	for i := 0; i < 24 && v != nil; i++ {
		v = Strip(v)
		if r, ok := s.Res[v]; ok && r != v {
			v = r
			continue
		}
		switch x := v.(type) {
		case *ssa.FreeVar:
			if b := s.P.Binding(x); b != nil {
				v = b
				continue
			}
		case *ssa.UnOp:
			if x.Op == token.MUL {
				if cell := s.P.cellOf(s.Canon(x.X)); cell != nil {
					if sv := s.P.SingleStore(cell); sv != nil && !s.P.partiallyWritten(cell) && s.P.storeReaches(s.P.Stores(cell)[0], x) {
						v = sv
						continue
					}
				}
			}
		}
		return v
	}
	return v
}

// partiallyWritten reports whether a cell is also written through derived addresses or escapes to calls,
// which makes "the single stored value" an unreliable description of its content.
func (p *Prog) partiallyWritten(a *ssa.Alloc) bool {
	if a.Referrers() == nil {
		return false
	}
	for _, r := range *a.Referrers() {
		switch r := r.(type) {
		case *ssa.Store, *ssa.UnOp, *ssa.MakeClosure, *ssa.DebugRef:
		case *ssa.FieldAddr, *ssa.IndexAddr:
			// fine for pointer-to-struct reads; writes through it change the content only for value cells
			_ = r
		default:
			return true
		}
	}
	return false
}

// Key returns the path-sensitive structural key of v.
func (s *State) Key(v ssa.Value) string { return s.key(v, 0) }

func (s *State) key(v ssa.Value, d int) string {
	v = s.Canon(v)
	if v == nil {
		return "<nil>"
	}
	if d > 6 {
		return "#" + strconv.Itoa(s.P.id(v))
	}
	switch v := v.(type) {
	case *ssa.Const:
		if v.Value == nil {
			return "nil"
		}
		if v.Value.Kind() == constant.Bool {
			return v.Value.String()
		}
		return "c:" + v.Value.ExactString()
	case *ssa.Extract:
		return "x(" + s.key(v.Tuple, d+1) + "," + strconv.Itoa(v.Index) + ")"
	case *ssa.Call:
		if b := BuiltinName(v); b == "len" || b == "cap" {
			return b + "(" + s.key(v.Call.Args[0], d+1) + ")"
		}
		// pure size getters: two calls on the same receiver denote the same value
		if v.Call.IsInvoke() && len(v.Call.Args) == 0 && pureGetters[v.Call.Method.Name()] {
			return "pure:" + v.Call.Method.Name() + "(" + s.key(v.Call.Value, d+1) + ")"
		}
	case *ssa.Convert:
		return "cv:" + v.Type().String() + "(" + s.key(v.X, d+1) + ")"
	case *ssa.BinOp:
		return "(" + s.key(v.X, d+1) + v.Op.String() + s.key(v.Y, d+1) + ")"
	case *ssa.UnOp:
		if v.Op != token.MUL && v.Op != token.ARROW {
			return v.Op.String() + s.key(v.X, d+1)
		}
		// a load of a field that is only ever written during construction: the same value for the same object
		if v.Op == token.MUL {
			if fa, ok := v.X.(*ssa.FieldAddr); ok {
				if f := FieldOfAddr(fa); f != nil && s.P.FrozenField(f) {
					return "fld:" + s.key(fa.X, d+1) + "." + f.Name()
				}
			}
		}
	case *ssa.Global:
		return "g:" + v.String()
	case *ssa.Function:
		return "f:" + v.String()
	}
	return "#" + strconv.Itoa(s.P.id(v))
}

func constRel(a, b *ssa.Const) (Rel, bool) {
	if a.Value == nil || b.Value == nil {
		if a.Value == nil && b.Value == nil {
			return EQ, true
		}
		return 0, false
	}
	switch {
	case a.Value.Kind() == constant.Bool && b.Value.Kind() == constant.Bool:
		if constant.BoolVal(a.Value) == constant.BoolVal(b.Value) {
			return EQ, true
		}
		return NE, true
	case (a.Value.Kind() == constant.Int || a.Value.Kind() == constant.Float) && (b.Value.Kind() == constant.Int || b.Value.Kind() == constant.Float),
		a.Value.Kind() == constant.String && b.Value.Kind() == constant.String:
		if constant.Compare(a.Value, token.LSS, b.Value) {
			return LT, true
		}
		if constant.Compare(a.Value, token.EQL, b.Value) {
			return EQ, true
		}
		return GT, true
	}
	return 0, false
}

// Rel returns what is known about x versus y on this path.
func (s *State) Rel(x, y ssa.Value) Rel {
	cx, cy := s.Canon(x), s.Canon(y)
	if a, ok := cx.(*ssa.Const); ok {
		if b, ok := cy.(*ssa.Const); ok {
			if r, ok := constRel(a, b); ok {
				return r
			}
		}
	}
	kx, ky := s.Key(cx), s.Key(cy)
	if kx == ky {
		return EQ
	}
	r := s.relKeys(kx, ky)
	// len/cap are never negative: versus the constant 0 only == and > remain
	if isLenKey(kx) && isZeroInt(cy) {
		r &= EQ | GT
	} else if isLenKey(ky) && isZeroInt(cx) {
		r &= EQ | LT
	}
	return r
}

func isLenKey(k string) bool { return strings.HasPrefix(k, "len(") || strings.HasPrefix(k, "cap(") }

func isZeroInt(v ssa.Value) bool {
	k, ok := v.(*ssa.Const)
	if !ok || k.Value == nil || k.Value.Kind() != constant.Int {
		return false
	}
	n, exact := constant.Int64Val(k.Value)
	return exact && n == 0
}

func (s *State) relKeys(kx, ky string) Rel {
	if kx > ky {
		if r, ok := s.Facts[ky+"|"+kx]; ok {
			return flip(r)
		}
		return ANY
	}
	if r, ok := s.Facts[kx+"|"+ky]; ok {
		return r
	}
	return ANY
}

// SetRel adds the knowledge "x rel y"; it returns false when this contradicts the path.
func (s *State) SetRel(x, y ssa.Value, rel Rel) bool {
	cx, cy := s.Canon(x), s.Canon(y)
	if a, ok := cx.(*ssa.Const); ok {
		if b, ok := cy.(*ssa.Const); ok {
			if r, ok := constRel(a, b); ok {
				return r&rel != 0
			}
		}
	}
	kx, ky := s.Key(cx), s.Key(cy)
	if kx == ky {
		return rel&EQ != 0
	}
	// a freshly made value is never nil
	if ky == "nil" && structNonNil(cx) || kx == "nil" && structNonNil(cy) {
		return rel&NE != 0
	}
	// a package-level error value (ErrXxx) and a nil-transparent wrapper of a non-nil error are never nil: the branch
	// "helper returned ErrXxx, caller saw nil" is infeasible
	if ky == "nil" && s.errNeverNil(cx, 0) || kx == "nil" && s.errNeverNil(cy, 0) {
		return rel&NE != 0
	}
	if kx > ky {
		kx, ky = ky, kx
		rel = flip(rel)
	}
	k := kx + "|" + ky
	cur, ok := s.Facts[k]
	if !ok {
		cur = ANY
	}
	n := cur & rel
	if n == 0 {
		return false
	}
	if n != ANY {
		s.Facts[k] = n
	}
	return true
}

// IsNil / NonNil report the path knowledge about v.
func (s *State) IsNil(v ssa.Value) bool {
	c := s.Canon(v)
	if k, ok := c.(*ssa.Const); ok {
		return k.Value == nil && !isBasic(k)
	}
	return s.relKeys(s.Key(c), "nil") == EQ || s.relKeys("nil", s.Key(c)) == EQ
}

func isBasic(k *ssa.Const) bool {
	// a nil constant.Value on a basic-typed const denotes the zero value only for non-basic types
	return false
}

func (s *State) NonNil(v ssa.Value) bool {
	c := s.Canon(v)
	switch c.(type) {
	case *ssa.Alloc, *ssa.MakeInterface, *ssa.MakeClosure, *ssa.MakeMap, *ssa.MakeSlice, *ssa.MakeChan, *ssa.Function, *ssa.FieldAddr, *ssa.IndexAddr:
		return true
	}
	r := s.relKeys(s.Key(c), "nil")
	return r != ANY && r&EQ == 0
}

// IsTrue / IsFalse report knowledge about a boolean value.
func (s *State) IsTrue(v ssa.Value) bool  { return s.boolIs(v, true) }
func (s *State) IsFalse(v ssa.Value) bool { return s.boolIs(v, false) }

func (s *State) boolIs(v ssa.Value, want bool) bool {
	c := s.Canon(v)
	if k, ok := c.(*ssa.Const); ok && k.Value != nil && k.Value.Kind() == constant.Bool {
		return constant.BoolVal(k.Value) == want
	}
	if u, ok := c.(*ssa.UnOp); ok && u.Op == token.NOT {
		return s.boolIs(u.X, !want)
	}
	r := s.relKeys(s.Key(c), "true")
	if want {
		return r == EQ
	}
	return r != ANY && r&EQ == 0
}

func relOfOp(op token.Token) (Rel, bool) {
	switch op {
	case token.EQL:
		return EQ, true
	case token.NEQ:
		return NE, true
	case token.LSS:
		return LT, true
	case token.LEQ:
		return LE, true
	case token.GTR:
		return GT, true
	case token.GEQ:
		return GE, true
	}
	return 0, false
}

// Assume adds "cond == want" to the path; false when infeasible.
func (s *State) Assume(cond ssa.Value, want bool) bool {
	c := s.Canon(cond)
	switch x := c.(type) {
	case *ssa.Const:
		if x.Value != nil && x.Value.Kind() == constant.Bool {
			return constant.BoolVal(x.Value) == want
		}
	case *ssa.UnOp:
		if x.Op == token.NOT {
			return s.Assume(x.X, !want)
		}
	case *ssa.BinOp:
		if rel, ok := relOfOp(x.Op); ok {
			if !want {
				rel = ANY &^ rel
			}
			return s.SetRel(x.X, x.Y, rel)
		}
	}
	k := s.Key(c)
	rel := EQ
	if !want {
		rel = NE
	}
	kx, ky := k, "true"
	if kx > ky {
		kx, ky = ky, kx
	}
	key := kx + "|" + ky
	cur, ok := s.Facts[key]
	if !ok {
		cur = ANY
	}
	n := cur & rel
	if n == 0 {
		return false
	}
	s.Facts[key] = n
	return true
}

var idTok = regexp.MustCompile(`#(\d+)`)

func (p *Prog) keyIDs(k string) []int {
	if !strings.Contains(k, "#") {
		return nil
	}
	var out []int
	for _, m := range idTok.FindAllStringSubmatch(k, -1) {
		n, _ := strconv.Atoi(m[1])
		out = append(out, n)
	}
	return out
}

// Explorer enumerates the paths of one function with phi resolution and nil/bool/order facts.
type Explorer struct {
	P         *Prog
	MaxStates int
	States    int
	Paths     int
	Truncated bool
	// OnInstr is called for every instruction along every explored path; returning false ends the path.
	OnInstr func(s *State, ins ssa.Instruction) bool
	// OnEdge, when set, is consulted before following the i-th successor; returning false prunes it.
	OnEdge   func(s *State, from *ssa.BasicBlock, succ int) bool
	volatile map[*ssa.Alloc]bool
	volDone  map[*ssa.Alloc]bool
	// syncWriters: for cells written only by literals that are passed directly to known-synchronous callees
	// (broadcast.HoldLock*, sync.Once.Do, ...): the call instructions during which the cell may change.
	syncWriters map[*ssa.Alloc]map[ssa.Instruction]bool
	keyIDc      map[string][]int
}

// knownSyncCallee: callees documented to run their function argument before returning and not to retain it.
func knownSyncCallee(ci ssa.CallInstruction) bool {
	fo := CallObj(ci.Common())
	if fo == nil || fo.Pkg() == nil {
		return false
	}
	switch fo.Pkg().Path() {
	case broadcastPkg:
		switch fo.Name() {
		case "HoldLock", "HoldLockMaybeAsync", "TryHoldLock":
			return fo.Name() != "HoldLockMaybeAsync"
		}
	case "sync":
		return fo.Name() == "Do"
	case "slices", "sort":
		return true
	}
	return false
}

type workItem struct {
	b     *ssa.BasicBlock
	pred  *ssa.BasicBlock
	s     *State
	start int  // first instruction to process (>0: resuming a caller block after an inlined call)
	entry bool // entering an inlined callee's first block
}

func (e *Explorer) isVolatile(a *ssa.Alloc) bool {
	if e.volDone == nil {
		e.volDone = map[*ssa.Alloc]bool{}
		e.volatile = map[*ssa.Alloc]bool{}
	}
	if e.volDone[a] {
		return e.volatile[a]
	}
	e.volDone[a] = true
	v := false
	syncOnly := true
	calls := map[ssa.Instruction]bool{}
	for _, st := range e.P.Stores(a) {
		g := st.Parent()
		if g == a.Parent() {
			continue
		}
		v = true
		// is the writer a literal of the cell's own function that is only ever passed directly to a synchronous callee?
		if g.Parent() != a.Parent() {
			syncOnly = false
			continue
		}
		for _, mc := range e.P.MakeClosureSites(g) {
			if mc.Referrers() == nil {
				continue
			}
			for _, r := range nonDebug(*mc.Referrers()) {
				ci, isCall := r.(*ssa.Call)
				if !isCall || !knownSyncCallee(ci) {
					syncOnly = false
					continue
				}
				calls[ci] = true
			}
		}
	}
	if v && syncOnly {
		if e.syncWriters == nil {
			e.syncWriters = map[*ssa.Alloc]map[ssa.Instruction]bool{}
		}
		e.syncWriters[a] = calls
	}
	if a.Referrers() != nil {
		for _, r := range *a.Referrers() {
			switch r.(type) {
			case *ssa.Store, *ssa.UnOp, *ssa.MakeClosure, *ssa.DebugRef:
			default:
				v = true
				delete(e.syncWriters, a) // the address escapes: anything may write it
			}
			if st, ok := r.(*ssa.Store); ok && st.Val == ssa.Value(a) {
				v = true
				delete(e.syncWriters, a)
			}
		}
	}
	e.volatile[a] = v
	return v
}

func (e *Explorer) stateHash(b *ssa.BasicBlock, s *State) string {
	var sb strings.Builder
	sb.WriteString(strconv.Itoa(b.Index))
	if len(s.Stack) > 0 {
		sb.WriteString("@" + b.Parent().Name())
		for _, fr := range s.Stack {
			sb.WriteString("/" + strconv.Itoa(e.P.id(fr.call)))
		}
	}
	sb.WriteByte(';')
	var ks []string
	for k, v := range s.Res {
		ks = append(ks, strconv.Itoa(e.P.id(k))+">"+s.Key(v))
	}
	sort.Strings(ks)
	sb.WriteString(strings.Join(ks, ","))
	sb.WriteByte(';')
	ks = ks[:0]
	for k, v := range s.Cell {
		ks = append(ks, strconv.Itoa(e.P.id(k))+">"+s.Key(v))
	}
	sort.Strings(ks)
	sb.WriteString(strings.Join(ks, ","))
	sb.WriteByte(';')
	ks = ks[:0]
	for k, v := range s.Facts {
		ks = append(ks, k+string(rune('0'+v)))
	}
	sort.Strings(ks)
	sb.WriteString(strings.Join(ks, ","))
	if len(s.Marks) > 0 {
		ks = ks[:0]
		for k := range s.Marks {
			ks = append(ks, k)
		}
		sort.Strings(ks)
		sb.WriteByte(';')
		sb.WriteString(strings.Join(ks, ","))
	}
	return sb.String()
}

// invalidate drops everything known about the values (re)defined in block b.
func (e *Explorer) invalidate(s *State, b *ssa.BasicBlock) {
	ids := map[int]bool{}
	for _, ins := range b.Instrs {
		if v, ok := ins.(ssa.Value); ok {
			if _, isPhi := v.(*ssa.Phi); !isPhi {
				delete(s.Res, v)
			}
			if id, ok := e.P.valID[v]; ok {
				ids[id] = true
			}
		}
	}
	for k, subj := range s.Marks {
		if iv, ok := subj.(ssa.Instruction); ok && iv.Block() == b {
			delete(s.Marks, k)
		}
	}
	if len(ids) == 0 || len(s.Facts) == 0 {
		return
	}
	if e.keyIDc == nil {
		e.keyIDc = map[string][]int{}
	}
	for k := range s.Facts {
		l, ok := e.keyIDc[k]
		if !ok {
			l = e.P.keyIDs(k)
			e.keyIDc[k] = l
		}
		for _, id := range l {
			if ids[id] {
				delete(s.Facts, k)
				break
			}
		}
	}
	// resolutions pointing at redefined values become stale as well
	for k, v := range s.Res {
		if iv, ok := v.(ssa.Instruction); ok && iv.Block() == b {
			if _, isPhi := k.(*ssa.Phi); isPhi && k.(*ssa.Phi).Block() == b {
				continue
			}
			delete(s.Res, k)
		}
	}
	for k, v := range s.Cell {
		if iv, ok := v.(ssa.Instruction); ok && iv.Block() == b {
			delete(s.Cell, k)
		}
	}
}

// Run explores fn from its entry block starting in state init (may be nil).
func (e *Explorer) Run(fn *ssa.Function, init *State) {
	if e.MaxStates == 0 {
		e.MaxStates = 400000
	}
	if init == nil {
		init = e.P.NewState(fn)
	}
	init.Fn = fn
	if len(fn.Blocks) == 0 {
		return
	}
	visited := map[string]bool{}
	stack := []workItem{{b: fn.Blocks[0], s: init}}
	for len(stack) > 0 {
		it := stack[len(stack)-1]
		stack = stack[:len(stack)-1]
		s, b := it.s, it.b
		// phi resolution (parallel) then invalidation of values defined here
		if it.start == 0 && it.pred != nil {
			pi := -1
			for i, pb := range b.Preds {
				if pb == it.pred {
					pi = i
					break
				}
			}
			newRes := map[*ssa.Phi]ssa.Value{}
			for _, ins := range b.Instrs {
				phi, ok := ins.(*ssa.Phi)
				if !ok {
					break
				}
				if pi >= 0 {
					newRes[phi] = s.Canon(phi.Edges[pi])
				}
			}
			e.invalidate(s, b)
			for phi, v := range newRes {
				if v == ssa.Value(phi) {
					delete(s.Res, phi)
					continue
				}
				s.Res[phi] = v
			}
		}
		if it.start == 0 {
			h := e.stateHash(b, s)
			if visited[h] {
				continue
			}
			visited[h] = true
			e.States++
			if e.States > e.MaxStates {
				e.Truncated = true
				return
			}
			s.Trail = append(s.Trail, b)
		}
		if InlineHelpers {
			s.Segs = append(s.Segs, trailSeg{b, it.start, len(b.Instrs)})
		}
		alive := true
		descended := false
		for idx := it.start; idx < len(b.Instrs); idx++ {
			ins := b.Instrs[idx]
			if InlineHelpers {
				if call, ok := ins.(*ssa.Call); ok {
					if g := e.inlinable(s, fn, call); g != nil {
						if e.OnInstr != nil && !e.OnInstr(s, ins) {
							alive = false
							break
						}
						for _, gb := range g.Blocks {
							e.invalidate(s, gb)
						}
						args := call.Call.Args
						for k, pv := range g.Params {
							if k < len(args) {
								s.Res[pv] = s.Canon(args[k])
							}
						}
						s.Segs[len(s.Segs)-1].to = idx + 1
						s.Stack = append(s.Stack, inlFrame{call, b, idx + 1})
						stack = append(stack, workItem{b: g.Blocks[0], s: s, entry: true})
						descended = true
						break
					}
				}
				if ret, ok := ins.(*ssa.Return); ok && len(s.Stack) > 0 {
					fr := s.Stack[len(s.Stack)-1]
					s.Stack = s.Stack[:len(s.Stack)-1]
					switch len(ret.Results) {
					case 0:
					case 1:
						s.Res[fr.call] = s.Canon(ret.Results[0])
					default:
						if refs := fr.call.Referrers(); refs != nil {
							for _, r := range *refs {
								if ex, ok := r.(*ssa.Extract); ok && ex.Index < len(ret.Results) {
									s.Res[ex] = s.Canon(ret.Results[ex.Index])
								}
							}
						}
					}
					stack = append(stack, workItem{b: fr.b, s: s, start: fr.idx})
					descended = true
					break
				}
			}
			switch x := ins.(type) {
			case *ssa.Store:
				if cell := e.P.cellOf(s.Canon(x.Addr)); cell != nil {
					s.Cell[cell] = s.Canon(x.Val)
				}
			case *ssa.UnOp:
				if x.Op == token.MUL {
					if cell := e.P.cellOf(s.Canon(x.X)); cell != nil {
						if cv, ok := s.Cell[cell]; ok {
							s.Res[x] = cv
						} else if scalarCell(cell) {
							// first load of a cell with unknown content: later loads on this path read the same value
							// until a store or an invalidating call intervenes (two tests of one flag agree)
							s.Cell[cell] = x
						}
					}
				}
			case *ssa.Call, *ssa.Go, *ssa.Defer, *ssa.RunDefers:
				if _, ok := x.(*ssa.RunDefers); ok {
					s.Snap = make(map[*ssa.Alloc]ssa.Value, len(s.Cell))
					for k, v := range s.Cell {
						s.Snap[k] = v
					}
				}
				for cell := range s.Cell {
					if e.isVolatile(cell) {
						if sw, ok := e.syncWriters[cell]; ok && !sw[ins] {
							continue // only changes during the synchronous calls that receive its writer
						}
						delete(s.Cell, cell)
					}
				}
			}
			if e.OnInstr != nil && !e.OnInstr(s, ins) {
				alive = false
				break
			}
		}
		if !alive {
			e.Paths++
			continue
		}
		if descended {
			continue
		}
		last := b.Instrs[len(b.Instrs)-1]
		switch t := last.(type) {
		case *ssa.If:
			for i := 1; i >= 0; i-- {
				ns := s.clone()
				if !ns.Assume(t.Cond, i == 0) {
					continue
				}
				if e.OnEdge != nil && !e.OnEdge(ns, b, i) {
					continue
				}
				stack = append(stack, workItem{b: b.Succs[i], pred: b, s: ns})
			}
		case *ssa.Jump:
			if e.OnEdge != nil && !e.OnEdge(s, b, 0) {
				continue
			}
			stack = append(stack, workItem{b: b.Succs[0], pred: b, s: s})
		default:
			e.Paths++
		}
	}
}

// EnterClosure derives the initial state for exploring the function created by mc from the state at mc.
func (s *State) EnterClosure(mc *ssa.MakeClosure) *State {
	g := mc.Fn.(*ssa.Function)
	n := s.clone()
	n.Outer = s
	n.Fn = g
	n.Trail = nil
	for i, fv := range g.FreeVars {
		n.Res[fv] = s.Canon(mc.Bindings[i])
	}
	return n
}

// Witness renders the block trail of the state (outer closures first).
func (s *State) Witness() []string {
	var out []string
	if s.Outer != nil {
		out = append(out, s.Outer.Witness()...)
		out = append(out, "-> closure "+FuncName(s.Fn))
	}
	var parts []string
	for _, b := range s.Trail {
		pos := "-"
		for _, ins := range b.Instrs {
			if ins.Pos().IsValid() {
				pos = s.P.Pos(ins.Pos())
				break
			}
		}
		parts = append(parts, fmt.Sprintf("b%d(%s)", b.Index, pos))
	}
	out = append(out, FuncName(s.Fn)+": "+strings.Join(parts, " "))
	return out
}

// FactList renders the facts for diagnostics.
func (s *State) FactList() []string {
	var out []string
	for k, v := range s.Facts {
		out = append(out, strings.Replace(k, "|", " "+v.String()+" ", 1))
	}
	sort.Strings(out)
	return out
}

// RetVal returns the i-th result of a Return as it stood before deferred calls ran (named results of
// functions with defers are spilled to cells; a deferred recover handler may overwrite them only on panic).
func (s *State) RetVal(ret *ssa.Return, i int) ssa.Value {
	if i < 0 {
		i += len(ret.Results)
	}
	v := ret.Results[i]
	if u, ok := v.(*ssa.UnOp); ok && u.Op == token.MUL {
		if _, resolved := s.Res[u]; !resolved {
			if cell := s.P.cellOf(s.Canon(u.X)); cell != nil && s.Snap != nil {
				if sv, ok := s.Snap[cell]; ok {
					return sv
				}
			}
		}
	}
	return s.Canon(v)
}

// Executed reports whether an instruction satisfying pred was executed on this path before `at`
// (searching the current function's trail and the creation-site paths of enclosing closures).
func (s *State) Executed(at ssa.Instruction, pred func(ins ssa.Instruction) bool) bool {
	if s.Segs != nil {
		for i, sg := range s.Segs {
			for j := sg.from; j < sg.to && j < len(sg.b.Instrs); j++ {
				ins := sg.b.Instrs[j]
				if ins == at && i == len(s.Segs)-1 {
					break
				}
				if pred(ins) {
					return true
				}
			}
		}
		if s.Outer != nil {
			return s.Outer.Executed(nil, pred)
		}
		return false
	}
	for _, b := range s.Trail {
		for _, ins := range b.Instrs {
			if ins == at && b == s.Trail[len(s.Trail)-1] {
				break
			}
			if pred(ins) {
				return true
			}
		}
	}
	if s.Outer != nil {
		return s.Outer.Executed(nil, pred)
	}
	return false
}

// ExecutedSince is Executed restricted to the part of the current function's path after the most recent
// execution of instruction `since` (used for per-iteration ordering rules in loops).
func (s *State) ExecutedSince(at, since ssa.Instruction, pred func(ins ssa.Instruction) bool) bool {
	start := -1
	for i := len(s.Trail) - 1; i >= 0; i-- {
		if s.Trail[i] == since.Block() {
			start = i
			break
		}
	}
	if start < 0 {
		return false
	}
	after := false
	for i := start; i < len(s.Trail); i++ {
		b := s.Trail[i]
		for _, ins := range b.Instrs {
			if ins == at && i == len(s.Trail)-1 {
				return false
			}
			if ins == since && i == start {
				after = true
				continue
			}
			if after && pred(ins) {
				return true
			}
		}
	}
	return false
}

// IsFieldLoad reports whether v (canonical) is a load of the given struct field.
func IsFieldLoad(v ssa.Value, fv *types.Var) bool {
	u, ok := v.(*ssa.UnOp)
	if !ok || u.Op != token.MUL || fv == nil {
		return false
	}
	f := FieldOfAddr(u.X)
	return f != nil && f.Origin() == fv
}

// SelectSend returns the (channel, value) of the send case of a select instruction, if any.
func SelectSend(ins ssa.Instruction) (ch, val ssa.Value, ok bool) {
	switch x := ins.(type) {
	case *ssa.Select:
		for _, st := range x.States {
			if st.Dir == types.SendOnly {
				return st.Chan, st.Send, true
			}
		}
	case *ssa.Send:
		return x.Chan, x.X, true
	}
	return nil, nil, false
}

// structNonNil: values that are non-nil by construction.
func structNonNil(v ssa.Value) bool {
	switch v.(type) {
	case *ssa.Alloc, *ssa.MakeInterface, *ssa.MakeClosure, *ssa.MakeMap, *ssa.MakeSlice, *ssa.MakeChan, *ssa.Function, *ssa.FieldAddr, *ssa.IndexAddr:
		return true
	}
	return ResultCallTo(v, nonNilErrMakers...) != nil
}

// pureGetters are argument-less interface methods documented to return a constant of the receiver
// (cipher.AEAD.NonceSize/Overhead, hash.Hash.Size/BlockSize).
var pureGetters = map[string]bool{"NonceSize": true, "Overhead": true, "Size": true, "BlockSize": true}

func instrIndex(ins ssa.Instruction) int {
	for i, x := range ins.Block().Instrs {
		if x == ins {
			return i
		}
	}
	return -1
}

func dominatesInstr(a, b ssa.Instruction) bool {
	if a.Block() == b.Block() {
		return instrIndex(a) < instrIndex(b)
	}
	return a.Block().Dominates(b.Block())
}

// storeReaches: the (only) store to a variable cell certainly executed before the load: it is in the cell's own
// function and dominates the load, or dominates every creation site of the closure (chain) the load sits in.
// Otherwise the load may still observe the variable's zero value.
func (p *Prog) storeReaches(st *ssa.Store, load ssa.Instruction) bool {
	home := st.Parent()
	cell := p.cellOf(st.Addr)
	if cell == nil || cell.Parent() != home {
		return false
	}
	f := load.Parent()
	if f == home {
		return dominatesInstr(st, load)
	}
	// climb to the literal created directly in home
	for f != nil && f.Parent() != home {
		f = f.Parent()
	}
	if f == nil {
		return false
	}
	sites := p.MakeClosureSites(f)
	if len(sites) == 0 {
		return false
	}
	for _, mc := range sites {
		if mc.Parent() != home || !dominatesInstr(st, mc) {
			return false
		}
	}
	return true
}

// InstrDominates reports whether a is executed before b on every path reaching b (same function).
func InstrDominates(a, b ssa.Instruction) bool { return dominatesInstr(a, b) }

// scalarCell: the variable holds a value that cannot be changed piecewise through a derived address.
func scalarCell(a *ssa.Alloc) bool {
	pt, ok := a.Type().Underlying().(*types.Pointer)
	if !ok {
		return false
	}
	switch pt.Elem().Underlying().(type) {
	case *types.Basic, *types.Pointer, *types.Interface, *types.Chan, *types.Signature:
		return true
	}
	return false
}

// inlinable returns the callee of call when it is to be explored inline (see InlineHelpers).
func (e *Explorer) inlinable(s *State, root *ssa.Function, call *ssa.Call) *ssa.Function {
	g := call.Call.StaticCallee()
	if g == nil || len(g.Blocks) == 0 || len(g.Blocks) > 80 || g.Pkg == nil || len(s.Stack) >= 3 {
		return nil
	}
	rootPkg := Outermost(root).Pkg
	if rootPkg == nil || g.Pkg != rootPkg || g.Parent() != nil || g.Synthetic != "" {
		return nil
	}
	if n := g.Name(); n == "" || !(n[0] >= 'a' && n[0] <= 'z') {
		return nil
	}
	if g == Outermost(root) || Anchored[g] {
		return nil
	}
	for _, fr := range s.Stack {
		if fr.call.Call.StaticCallee() == g {
			return nil
		}
	}
	if e.P.IsGenerated(g.Pos()) {
		return nil
	}
	return g
}

func (s *State) errNeverNil(cv ssa.Value, depth int) bool {
	if depth > 3 {
		return false
	}
	if u, ok := cv.(*ssa.UnOp); ok && u.Op == token.MUL {
		if g, ok := u.X.(*ssa.Global); ok && strings.HasPrefix(g.Name(), "Err") {
			return true
		}
	}
	if c := ResultCallTo(cv, nilTransparent...); c != nil && len(c.Call.Args) > 0 {
		a := s.Canon(c.Call.Args[0])
		if structNonNil(a) || s.errNeverNil(a, depth+1) {
			return true
		}
		k := s.Key(a)
		kx, ky := k, "nil"
		fl := false
		if kx > ky {
			kx, ky = ky, kx
			fl = true
		}
		if r, ok := s.Facts[kx+"|"+ky]; ok {
			if fl {
				r = flip(r)
			}
			return r&EQ == 0
		}
	}
	return false
}
