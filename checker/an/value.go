package an

import (
	"fmt"
	"go/constant"
	"go/token"
	"go/types"
	"strings"

	"golang.org/x/tools/go/ssa"
)

// ---------- callee matching ----------

// Callee describes a function by package path (full), receiver type name ("" for none, "*" any) and name.
type Callee struct {
	Pkg  string // full import path, or module-relative when it starts with "./"
	Recv string // receiver named type ("" = package-level function; "*" = any)
	Name string
}

// R is shorthand for a repository callee.
func R(rel, recv, name string) Callee { return Callee{Pkg: "./" + rel, Recv: recv, Name: name} }

// X is shorthand for an external callee.
func X(pkg, recv, name string) Callee { return Callee{Pkg: pkg, Recv: recv, Name: name} }

func (c Callee) pkgPath() string {
	if strings.HasPrefix(c.Pkg, "./") {
		rel := strings.TrimPrefix(c.Pkg, "./")
		if rel == "" {
			return Mod
		}
		return Mod + "/" + rel
	}
	return c.Pkg
}

func (c Callee) String() string {
	if c.Recv != "" {
		return fmt.Sprintf("(%s.%s).%s", strings.TrimPrefix(c.Pkg, "./"), c.Recv, c.Name)
	}
	return fmt.Sprintf("%s.%s", strings.TrimPrefix(c.Pkg, "./"), c.Name)
}

// recvNamed returns the named receiver type name of a func object ("" if none).
func recvNamed(fo *types.Func) string {
	sig, _ := fo.Type().(*types.Signature)
	if sig == nil || sig.Recv() == nil {
		return ""
	}
	t := sig.Recv().Type()
	if pt, ok := t.(*types.Pointer); ok {
		t = pt.Elem()
	}
	switch t := t.(type) {
	case *types.Named:
		return t.Obj().Name()
	case *types.Alias:
		return t.Obj().Name()
	}
	return "?"
}

// MatchObj reports whether a types.Func object matches.
func (c Callee) MatchObj(fo *types.Func) bool {
	if fo == nil {
		return false
	}
	fo = fo.Origin()
	if fo.Name() != c.Name {
		return false
	}
	if fo.Pkg() == nil || fo.Pkg().Path() != c.pkgPath() {
		return false
	}
	rn := recvNamed(fo)
	if c.Recv == "*" {
		return true
	}
	return rn == c.Recv
}

// CallObj returns the types.Func a call resolves to statically (direct call, method call,
// or interface invoke), or nil (closure/func-value call).
func CallObj(cc *ssa.CallCommon) *types.Func {
	if cc.IsInvoke() {
		return cc.Method
	}
	switch v := cc.Value.(type) {
	case *ssa.Function:
		if fo, ok := v.Object().(*types.Func); ok {
			return fo
		}
		if v.Origin() != nil {
			if fo, ok := v.Origin().Object().(*types.Func); ok {
				return fo
			}
		}
	case *ssa.MakeClosure:
		// bound method value
		if f, ok := v.Fn.(*ssa.Function); ok {
			if fo, ok := f.Object().(*types.Func); ok {
				return fo
			}
		}
	}
	return nil
}

// IsCallTo reports whether instruction/value v is a call to one of the callees.
func IsCallTo(v any, cs ...Callee) bool {
	var cc *ssa.CallCommon
	switch v := v.(type) {
	case *ssa.Call:
		cc = v.Common()
	case *ssa.Defer:
		cc = v.Common()
	case *ssa.Go:
		cc = v.Common()
	case *ssa.CallCommon:
		cc = v
	default:
		return false
	}
	fo := CallObj(cc)
	if fo == nil {
		return false
	}
	for _, c := range cs {
		if c.MatchObj(fo) {
			return true
		}
	}
	return false
}

// BuiltinName returns the builtin a call invokes ("" if not a builtin).
func BuiltinName(c *ssa.Call) string {
	if b, ok := c.Call.Value.(*ssa.Builtin); ok {
		return b.Name()
	}
	return ""
}

// CallArgs returns the arguments with the receiver first for method calls (both forms).
func CallArgs(cc *ssa.CallCommon) []ssa.Value {
	if cc.IsInvoke() {
		return append([]ssa.Value{cc.Value}, cc.Args...)
	}
	return cc.Args
}

// Calls lists all calls in fn (not nested closures) to any of the callees.
func Calls(fn *ssa.Function, cs ...Callee) []*ssa.Call {
	var out []*ssa.Call
	for _, b := range fn.Blocks {
		for _, ins := range b.Instrs {
			if c, ok := ins.(*ssa.Call); ok && IsCallTo(c, cs...) {
				out = append(out, c)
			}
		}
	}
	if InlineHelpers && !NoWiden && !inHelperScan {
		inHelperScan = true
		for _, h := range HelperCallees(fn) {
			out = append(out, Calls(h, cs...)...)
		}
		inHelperScan = false
	}
	return out
}

var inHelperScan bool

// NoWiden temporarily switches the helper widening of Calls / WithClosures / ScanBlocks off (anchor finders first look
// for a function that has the construct itself, and only then for one that has it through a helper).
var NoWiden bool

// CallsDeep lists calls in fn and all nested closures.
func CallsDeep(fn *ssa.Function, cs ...Callee) []*ssa.Call {
	out := Calls(fn, cs...)
	for _, a := range fn.AnonFuncs {
		out = append(out, CallsDeep(a, cs...)...)
	}
	return out
}

// WithClosures returns fn and all transitively nested anonymous functions.
func WithClosures(fn *ssa.Function) []*ssa.Function {
	out := withClosuresRaw(fn)
	if InlineHelpers && !NoWiden && fn.Parent() == nil && !inHelperScan {
		out = append(out, HelperCallees(fn)...)
	}
	return out
}

func withClosuresRaw(fn *ssa.Function) []*ssa.Function {
	out := []*ssa.Function{fn}
	for _, a := range fn.AnonFuncs {
		out = append(out, withClosuresRaw(a)...)
	}
	return out
}

// IsParamOf is IsParam that, in InlineHelpers mode, first resolves a helper's parameter to the argument of its only
// call site.

// Outermost returns the top-level function enclosing fn.
func Outermost(fn *ssa.Function) *ssa.Function {
	for fn.Parent() != nil {
		fn = fn.Parent()
	}
	return fn
}

// ErrResult returns the SSA value holding result #idx of call c (idx<0 counts from the end).
// For single-result calls it is the call itself; for tuples the matching Extract (nil if never extracted).
func ErrResult(c *ssa.Call, idx int) ssa.Value {
	res := c.Call.Signature().Results()
	n := res.Len()
	if idx < 0 {
		idx = n + idx
	}
	if n == 1 {
		if idx == 0 {
			return c
		}
		return nil
	}
	if c.Referrers() == nil {
		return nil
	}
	for _, r := range *c.Referrers() {
		if e, ok := r.(*ssa.Extract); ok && e.Index == idx {
			return e
		}
	}
	return nil
}

// ---------- value identity ----------

func (p *Prog) id(v ssa.Value) int {
	if n, ok := p.valID[v]; ok {
		return n
	}
	n := len(p.valID) + 1
	p.valID[v] = n
	return n
}

// Key is a structural key for pure expressions and an identity key otherwise.
func (p *Prog) Key(v ssa.Value) string {
	return p.key(v, 0)
}

func (p *Prog) key(v ssa.Value, d int) string {
	if v == nil {
		return "<nil>"
	}
	if d > 6 {
		return fmt.Sprintf("#%d", p.id(v))
	}
	switch v := v.(type) {
	case *ssa.Const:
		if v.Value == nil {
			return "nil"
		}
		if v.Value.Kind() == constant.Bool {
			return v.Value.String()
		}
		return "c:" + v.Value.ExactString()
	case *ssa.Extract:
		return fmt.Sprintf("x(%s,%d)", p.key(v.Tuple, d+1), v.Index)
	case *ssa.Call:
		if b := BuiltinName(v); b == "len" || b == "cap" {
			return b + "(" + p.key(v.Call.Args[0], d+1) + ")"
		}
	case *ssa.Convert:
		return "cv:" + v.Type().String() + "(" + p.key(v.X, d+1) + ")"
	case *ssa.ChangeType:
		return p.key(v.X, d+1)
	case *ssa.BinOp:
		return "(" + p.key(v.X, d+1) + v.Op.String() + p.key(v.Y, d+1) + ")"
	case *ssa.UnOp:
		if v.Op != token.MUL && v.Op != token.ARROW {
			return v.Op.String() + p.key(v.X, d+1)
		}
	case *ssa.Global:
		return "g:" + v.String()
	case *ssa.Function:
		return "f:" + v.String()
	}
	return fmt.Sprintf("#%d", p.id(v))
}

// Describe renders a value for humans.
func (p *Prog) Describe(v ssa.Value) string {
	if v == nil {
		return "<nil>"
	}
	switch x := v.(type) {
	case *ssa.Const:
		return x.String()
	case *ssa.Call:
		if fo := CallObj(x.Common()); fo != nil {
			return fmt.Sprintf("%s(...)@%s", fo.Name(), p.Pos(x.Pos()))
		}
	case *ssa.Extract:
		return fmt.Sprintf("%s#%d", p.Describe(x.Tuple), x.Index)
	case *ssa.Parameter:
		return "param " + x.Name()
	case *ssa.Phi:
		return "phi " + x.Comment
	}
	return v.Name() + " (" + strings.TrimPrefix(fmt.Sprintf("%T", v), "*ssa.") + ")"
}

// ---------- closures and cells ----------

func (p *Prog) indexFuncTree(fn *ssa.Function) {
	top := Outermost(fn)
	if p.storesDone[top] {
		return
	}
	p.storesDone[top] = true
	for _, f := range WithClosures(top) {
		for _, b := range f.Blocks {
			for _, ins := range b.Instrs {
				switch ins := ins.(type) {
				case *ssa.Store:
					a := p.cellOf(ins.Addr)
					if a != nil {
						p.storesTo[a] = append(p.storesTo[a], ins)
					}
				case *ssa.MakeClosure:
					if g, ok := ins.Fn.(*ssa.Function); ok {
						p.makeClosures[g] = append(p.makeClosures[g], ins)
					}
				}
			}
		}
	}
}

// cellOf resolves an address to the Alloc it denotes (through free variables), or nil.
func (p *Prog) cellOf(addr ssa.Value) *ssa.Alloc {
	for i := 0; i < 8; i++ {
		switch a := addr.(type) {
		case *ssa.Alloc:
			return a
		case *ssa.FreeVar:
			b := p.Binding(a)
			if b == nil {
				return nil
			}
			addr = b
		default:
			return nil
		}
	}
	return nil
}

// Binding returns the value bound to a free variable when the closure has exactly one creation site.
func (p *Prog) Binding(fv *ssa.FreeVar) ssa.Value {
	fn := fv.Parent()
	p.indexFuncTree(fn)
	mcs := p.makeClosures[fn]
	if len(mcs) != 1 {
		return nil
	}
	for i, v := range fn.FreeVars {
		if v == fv {
			return mcs[0].Bindings[i]
		}
	}
	return nil
}

// MakeClosureSites returns the creation sites of an anonymous function.
func (p *Prog) MakeClosureSites(fn *ssa.Function) []*ssa.MakeClosure {
	p.indexFuncTree(fn)
	return p.makeClosures[fn]
}

// Stores returns all stores (in the whole enclosing function tree) to an Alloc cell.
func (p *Prog) Stores(a *ssa.Alloc) []*ssa.Store {
	p.indexFuncTree(a.Parent())
	return p.storesTo[a]
}

// SingleStore returns the only value ever stored into the cell (ignoring nothing), if there is exactly one store.
func (p *Prog) SingleStore(a *ssa.Alloc) ssa.Value {
	st := p.Stores(a)
	if len(st) == 1 {
		return st[0].Val
	}
	return nil
}

// Strip removes representation-only wrappers.
func Strip(v ssa.Value) ssa.Value {
	for {
		switch x := v.(type) {
		case *ssa.ChangeType:
			v = x.X
		case *ssa.ChangeInterface:
			v = x.X
		default:
			return v
		}
	}
}

// Operands returns the non-nil value operands of an instruction.
func Operands(ins ssa.Instruction) []ssa.Value {
	var out []ssa.Value
	for _, o := range ins.Operands(nil) {
		if *o != nil {
			out = append(out, *o)
		}
	}
	return out
}

// DependsOn reports whether v data-depends (transitively through operands, loads of cells that have
// stores, and closure bindings) on a value satisfying pred. Bounded breadth-first search.
func (p *Prog) DependsOn(v ssa.Value, pred func(ssa.Value) bool) bool {
	return p.dependsOn(v, pred, false)
}

// DependsOnDeep is DependsOn that also looks at what statically called repository functions return. Only for
// predicates that are not relative to a function (constants, calls), never for parameter predicates.
func (p *Prog) DependsOnDeep(v ssa.Value, pred func(ssa.Value) bool) bool {
	return p.dependsOn(v, pred, true)
}

func (p *Prog) dependsOn(v ssa.Value, pred func(ssa.Value) bool, deep bool) bool {
	seen := map[ssa.Value]bool{}
	work := []ssa.Value{v}
	for len(work) > 0 && len(seen) < 5000 {
		x := work[0]
		work = work[1:]
		if x == nil || seen[x] {
			continue
		}
		seen[x] = true
		if pred(x) {
			return true
		}
		if pv, ok := x.(*ssa.Parameter); ok && InlineHelpers && helperArg != nil {
			// helpers-inline pass: a parameter of a single-call-site helper depends on the argument passed there
			if a := helperArg(pv); a != nil {
				work = append(work, a)
			}
		}
		if call, ok := x.(*ssa.Call); ok && !deep && InlineHelpers {
			if f := call.Call.StaticCallee(); f != nil && f.Pkg != nil && f.Parent() == nil && len(f.Blocks) > 0 && strings.HasPrefix(f.Pkg.Pkg.Path(), Mod) {
				if n := f.Name(); n != "" && n[0] >= 'a' && n[0] <= 'z' {
					for _, b := range f.Blocks {
						for _, ins := range b.Instrs {
							if r, ok := ins.(*ssa.Return); ok {
								work = append(work, r.Results...)
							}
						}
					}
				}
			}
		}
		if call, ok := x.(*ssa.Call); ok && deep {
			if f := call.Call.StaticCallee(); f != nil && f.Pkg != nil && strings.HasPrefix(f.Pkg.Pkg.Path(), Mod) {
				for _, b := range f.Blocks {
					for _, ins := range b.Instrs {
						if r, ok := ins.(*ssa.Return); ok {
							work = append(work, r.Results...)
						}
					}
				}
			}
		}
		switch x := x.(type) {
		case *ssa.FreeVar:
			if b := p.Binding(x); b != nil {
				work = append(work, b)
			}
		case *ssa.Alloc:
			for _, s := range p.Stores(x) {
				work = append(work, s.Val)
			}
			// stores through derived addresses (fields/elements of the cell)
			p.indexFuncTree(x.Parent())
			for _, f := range WithClosures(Outermost(x.Parent())) {
				for _, b := range f.Blocks {
					for _, ins := range b.Instrs {
						if s, ok := ins.(*ssa.Store); ok && p.baseAlloc(s.Addr) == x {
							work = append(work, s.Val)
						}
						// copy(dst, src) / append into the cell
						if c, ok := ins.(*ssa.Call); ok && BuiltinName(c) == "copy" && p.baseAlloc(c.Call.Args[0]) == x {
							work = append(work, c.Call.Args[1])
						}
					}
				}
			}
		case *ssa.MakeSlice:
			for _, b := range x.Parent().Blocks {
				for _, ins := range b.Instrs {
					if st, ok := ins.(*ssa.Store); ok && rootOf(st.Addr) == ssa.Value(x) {
						work = append(work, st.Val)
					}
					if c, ok := ins.(*ssa.Call); ok && BuiltinName(c) == "copy" && rootOf(c.Call.Args[0]) == ssa.Value(x) {
						work = append(work, c.Call.Args[1])
					}
				}
			}
			for _, o := range Operands(x) {
				work = append(work, o)
			}
		case ssa.Instruction:
			for _, o := range Operands(x) {
				work = append(work, o)
			}
		}
	}
	return false
}

// rootOf follows IndexAddr/FieldAddr/Slice chains to the underlying value.
func rootOf(v ssa.Value) ssa.Value {
	for i := 0; i < 10; i++ {
		switch x := v.(type) {
		case *ssa.FieldAddr:
			v = x.X
		case *ssa.IndexAddr:
			v = x.X
		case *ssa.Slice:
			v = x.X
		default:
			return v
		}
	}
	return v
}

// baseAlloc follows FieldAddr/IndexAddr/Slice chains down to an Alloc.
func (p *Prog) baseAlloc(v ssa.Value) *ssa.Alloc {
	for i := 0; i < 10; i++ {
		switch x := v.(type) {
		case *ssa.Alloc:
			return x
		case *ssa.FreeVar:
			b := p.Binding(x)
			if b == nil {
				return nil
			}
			v = b
		case *ssa.FieldAddr:
			v = x.X
		case *ssa.IndexAddr:
			v = x.X
		case *ssa.Slice:
			v = x.X
		default:
			return nil
		}
	}
	return nil
}

// IsParam reports whether v is the i-th parameter (receiver counts as 0 for methods) of its function.
func IsParam(v ssa.Value, i int) bool {
	pv, ok := v.(*ssa.Parameter)
	if !ok {
		return false
	}
	if InlineHelpers && helperArg != nil {
		for k := 0; k < 4; k++ {
			a := helperArg(pv)
			if a == nil {
				break
			}
			npv, isP := a.(*ssa.Parameter)
			if !isP {
				return false
			}
			pv = npv
		}
	}
	ps := pv.Parent().Params
	return i < len(ps) && ps[i] == pv
}

// helperArg resolves a parameter of an unexported helper with exactly one static call site in the repository to the
// argument passed there (nil otherwise). Installed by Load.
var helperArg func(pv *ssa.Parameter) ssa.Value

// SliceLitElems returns the elements of a slice built from a composite literal ([]T{a,b,c}): the value must be
// a Slice of a fresh array Alloc whose elements are stored through constant IndexAddr. nil if not of that shape.
func (p *Prog) SliceLitElems(v ssa.Value) []ssa.Value {
	sl, ok := Strip(v).(*ssa.Slice)
	if !ok {
		return nil
	}
	al, ok := sl.X.(*ssa.Alloc)
	if !ok || al.Referrers() == nil {
		return nil
	}
	elems := map[int64]ssa.Value{}
	for _, r := range *al.Referrers() {
		ia, ok := r.(*ssa.IndexAddr)
		if !ok {
			continue
		}
		k, ok := ia.Index.(*ssa.Const)
		if !ok || ia.Referrers() == nil {
			return nil
		}
		for _, rr := range *ia.Referrers() {
			if st, ok := rr.(*ssa.Store); ok && st.Addr == ssa.Value(ia) {
				elems[k.Int64()] = st.Val
			}
		}
	}
	out := make([]ssa.Value, len(elems))
	for i := range out {
		e, ok := elems[int64(i)]
		if !ok {
			return nil
		}
		out[i] = e
	}
	return out
}

// ConvOf returns the operand of a conversion (Convert / ChangeType), or v itself.
func ConvOf(v ssa.Value) ssa.Value {
	for {
		switch x := v.(type) {
		case *ssa.Convert:
			v = x.X
		case *ssa.ChangeType:
			v = x.X
		default:
			return v
		}
	}
}

// StrConstOf returns the string value of a (possibly converted) string constant.
func StrConstOf(v ssa.Value) (string, bool) {
	k, ok := ConvOf(v).(*ssa.Const)
	if !ok || k.Value == nil || k.Value.Kind() != constant.String {
		return "", false
	}
	return constant.StringVal(k.Value), true
}

// ---------- loops ----------

// Loops computes the natural loops of fn: for each back edge t->h (h dominates t) the set of blocks.
func Loops(fn *ssa.Function) []map[*ssa.BasicBlock]bool {
	var out []map[*ssa.BasicBlock]bool
	byHead := map[*ssa.BasicBlock]map[*ssa.BasicBlock]bool{}
	for _, t := range fn.Blocks {
		for _, h := range t.Succs {
			if !h.Dominates(t) {
				continue
			}
			// back edges sharing a header form one loop
			loop := byHead[h]
			if loop == nil {
				loop = map[*ssa.BasicBlock]bool{h: true}
				byHead[h] = loop
				out = append(out, loop)
			}
			work := []*ssa.BasicBlock{t}
			for len(work) > 0 {
				b := work[len(work)-1]
				work = work[:len(work)-1]
				if loop[b] {
					continue
				}
				loop[b] = true
				work = append(work, b.Preds...)
			}
		}
	}
	return out
}

// InnermostLoop returns the smallest natural loop containing b (nil if none).
func InnermostLoop(fn *ssa.Function, b *ssa.BasicBlock) map[*ssa.BasicBlock]bool {
	var best map[*ssa.BasicBlock]bool
	for _, l := range Loops(fn) {
		if l[b] && (best == nil || len(l) < len(best)) {
			best = l
		}
	}
	return best
}

// CellOf resolves an address (Alloc or a chain of captured free variables) to the variable cell it denotes.
func (p *Prog) CellOf(addr ssa.Value) *ssa.Alloc { return p.cellOf(addr) }

// MustExecBefore reports whether every CFG path starting right after start executes an instruction satisfying target before
// it enters a block satisfying stop (typically a loop header) or leaves the function. The offending block is returned
// when it does not hold. (Pure CFG reasoning: no feasibility pruning, so it can only over-report on infeasible paths.)
func MustExecBefore(start ssa.Instruction, target func(ssa.Instruction) bool, stop func(*ssa.BasicBlock) bool) (bool, *ssa.BasicBlock) {
	b := start.Block()
	idx := -1
	for i, ins := range b.Instrs {
		if ins == start {
			idx = i
		}
	}
	hits := func(blk *ssa.BasicBlock, from int) bool {
		for _, ins := range blk.Instrs[from:] {
			if target(ins) {
				return true
			}
		}
		return false
	}
	if hits(b, idx+1) {
		return true, nil
	}
	seen := map[*ssa.BasicBlock]bool{}
	var bad *ssa.BasicBlock
	var walk func(blk *ssa.BasicBlock) bool
	walk = func(blk *ssa.BasicBlock) bool {
		if stop(blk) {
			bad = blk
			return false
		}
		if seen[blk] {
			return true
		}
		seen[blk] = true
		if hits(blk, 0) {
			return true
		}
		if len(blk.Succs) == 0 {
			if _, isPanic := blk.Instrs[len(blk.Instrs)-1].(*ssa.Panic); isPanic {
				return true
			}
			bad = blk
			return false
		}
		for _, s := range blk.Succs {
			if !walk(s) {
				return false
			}
		}
		return true
	}
	for _, s := range b.Succs {
		if !walk(s) {
			return false, bad
		}
	}
	if len(b.Succs) == 0 {
		return false, b
	}
	return true, nil
}

// ReachesWithout reports whether some CFG path from right after start reaches a block satisfying head without first
// executing an instruction satisfying target (paths that leave the function are not of interest).
func ReachesWithout(start ssa.Instruction, target func(ssa.Instruction) bool, head func(*ssa.BasicBlock) bool) bool {
	b := start.Block()
	idx := 0
	for i, ins := range b.Instrs {
		if ins == start {
			idx = i + 1
		}
	}
	for _, ins := range b.Instrs[idx:] {
		if target(ins) {
			return false
		}
	}
	seen := map[*ssa.BasicBlock]bool{}
	var walk func(blk *ssa.BasicBlock) bool
	walk = func(blk *ssa.BasicBlock) bool {
		if head(blk) {
			return true
		}
		if seen[blk] {
			return false
		}
		seen[blk] = true
		for _, ins := range blk.Instrs {
			if target(ins) {
				return false
			}
		}
		for _, s := range blk.Succs {
			if walk(s) {
				return true
			}
		}
		return false
	}
	for _, s := range b.Succs {
		if walk(s) {
			return true
		}
	}
	return false
}

// ScanBlocks returns the blocks a structural rule scans for fn: fn's own blocks and, in InlineHelpers mode, the blocks
// of the unexported same-package helpers fn calls (transitively) — an instruction moved into such a helper is still
// "in" the function for the rule's purpose.
func ScanBlocks(fn *ssa.Function) []*ssa.BasicBlock {
	if fn == nil {
		return nil
	}
	if !InlineHelpers || NoWiden || inHelperScan {
		return fn.Blocks
	}
	out := append([]*ssa.BasicBlock(nil), fn.Blocks...)
	inHelperScan = true
	hs := HelperCallees(fn)
	inHelperScan = false
	for _, h := range hs {
		if h.Parent() == nil {
			out = append(out, h.Blocks...)
		}
	}
	return out
}

// ResolveHelperParam follows a parameter of a single-call-site unexported helper to the argument passed at that site
// (repeatedly); other values are returned unchanged. Only meaningful in InlineHelpers mode.
func ResolveHelperParam(v ssa.Value) ssa.Value {
	if !InlineHelpers || helperArg == nil {
		return v
	}
	for k := 0; k < 4; k++ {
		pv, ok := v.(*ssa.Parameter)
		if !ok {
			return v
		}
		a := helperArg(pv)
		if a == nil {
			return v
		}
		v = a
	}
	return v
}
