package an

import (
	"encoding/json"
	"fmt"
	"os"
	"path/filepath"
	"sort"
	"strings"
	"time"

	"golang.org/x/tools/go/ssa"
)

// Status of an obligation.
const (
	Discharged = "discharged"
	Violated   = "violated"
	Undecided  = "undecided"
)

// Obligation is one decided (or undecided) rule instance.
type Obligation struct {
	Rule      string   `json:"rule"`
	Construct string   `json:"construct"` // stable key: rule + construct identify the obligation (no line numbers)
	Func      string   `json:"function,omitempty"`
	Pos       string   `json:"pos,omitempty"`
	Status    string   `json:"status"`
	Detail    string   `json:"detail,omitempty"`
	Witness   []string `json:"witness,omitempty"`
	Examined  int      `json:"examined"` // paths / states / sites / accesses looked at to decide it
	Known     bool     `json:"known_finding,omitempty"`
}

// Check accumulates the obligations of one property run.
type Check struct {
	Prop     string
	Tier     string
	P        *Prog
	Obls     []*Obligation
	Notes    []string
	Trusted  map[string]bool
	Controls []string
	start    time.Time
	Explain  string
	NotCov   string
	funcs    map[string]bool
	sites    int
}

func NewCheck(prop, tier string, p *Prog) *Check {
	return &Check{Prop: prop, Tier: tier, P: p, Trusted: map[string]bool{}, start: Start, funcs: map[string]bool{}}
}

func (c *Check) Trust(s ...string) {
	for _, x := range s {
		c.Trusted[x] = true
	}
}

func (c *Check) Note(format string, a ...any) { c.Notes = append(c.Notes, fmt.Sprintf(format, a...)) }

// Touch records that a function was analysed.
func (c *Check) Touch(fn *ssa.Function) {
	if fn != nil {
		c.funcs[FuncName(fn)] = true
	}
}

// Sites adds to the call-site counter.
func (c *Check) Sites(n int) { c.sites += n }

func (c *Check) add(o *Obligation) *Obligation {
	c.Obls = append(c.Obls, o)
	return o
}

// OK records a discharged obligation.
func (c *Check) OK(rule, construct string, fn *ssa.Function, examined int, detail string) {
	o := &Obligation{Rule: rule, Construct: construct, Status: Discharged, Examined: examined, Detail: detail}
	if fn != nil {
		o.Func = FuncName(fn)
		o.Pos = c.P.Pos(fn.Pos())
		c.Touch(fn)
	}
	c.add(o)
}

// Fail records a violated obligation.
func (c *Check) Fail(rule, construct string, fn *ssa.Function, pos string, examined int, detail string, witness []string) {
	o := &Obligation{Rule: rule, Construct: construct, Status: Violated, Examined: examined, Detail: detail, Witness: witness, Pos: pos}
	if fn != nil {
		o.Func = FuncName(fn)
		if pos == "" {
			o.Pos = c.P.Pos(fn.Pos())
		}
		c.Touch(fn)
	}
	c.add(o)
}

// Undecided records an obligation the engine could not decide (counts as failure).
func (c *Check) Undecided(rule, construct string, fn *ssa.Function, detail string) {
	o := &Obligation{Rule: rule, Construct: construct, Status: Undecided, Detail: detail}
	if fn != nil {
		o.Func = FuncName(fn)
		o.Pos = c.P.Pos(fn.Pos())
	}
	c.add(o)
}

// Failing counts the obligations that are not discharged.
func (c *Check) Failing() int {
	n := 0
	for _, o := range c.Obls {
		if o.Status != Discharged {
			n++
		}
	}
	return n
}

// MergeDischarged replaces every undischarged obligation of c by the obligation of other that has the same rule and
// construct when that one is discharged. Obligations of other without a counterpart are ignored; so are constructs that
// occur more than once in either check (ambiguous key).
func (c *Check) MergeDischarged(other *Check, how string) {
	key := func(o *Obligation) string { return o.Rule + "\x00" + o.Construct }
	cnt := map[string]int{}
	for _, o := range c.Obls {
		cnt[key(o)]++
	}
	oth := map[string]*Obligation{}
	ocnt := map[string]int{}
	for _, o := range other.Obls {
		oth[key(o)] = o
		ocnt[key(o)]++
	}
	var out []*Obligation
	for _, o := range c.Obls {
		if o.Status == Discharged || cnt[key(o)] != 1 {
			out = append(out, o)
			continue
		}
		if o2 := oth[key(o)]; o2 != nil && ocnt[key(o)] == 1 && o2.Status == Discharged {
			n := *o2
			n.Detail = n.Detail + " (" + how + ")"
			out = append(out, &n)
			continue
		}
		// a gate that could not even be evaluated in the first pass ("sink not found") is recorded under the bare
		// construct; in the other pass its requirements are recorded as "<construct> requires <name>": all of them
		// discharged there = the gate is discharged
		var parts []*Obligation
		allOK := true
		for _, o2 := range other.Obls {
			if o2.Rule == o.Rule && strings.HasPrefix(o2.Construct, o.Construct+" requires ") {
				parts = append(parts, o2)
				if o2.Status != Discharged {
					allOK = false
				}
			}
		}
		if o.Status == Undecided && len(parts) > 0 && allOK {
			for _, o2 := range parts {
				n := *o2
				n.Detail = n.Detail + " (" + how + ")"
				out = append(out, &n)
			}
			continue
		}
		out = append(out, o)
	}
	c.Obls = out
	for f := range other.funcs {
		c.funcs[f] = true
	}
}

// Require is a convenience: discharged when cond, else violated.
func (c *Check) Require(cond bool, rule, construct string, fn *ssa.Function, pos string, examined int, okDetail, failDetail string) bool {
	if cond {
		o := &Obligation{Rule: rule, Construct: construct, Status: Discharged, Examined: examined, Detail: okDetail, Pos: pos}
		if fn != nil {
			o.Func = FuncName(fn)
			if pos == "" {
				o.Pos = c.P.Pos(fn.Pos())
			}
			c.Touch(fn)
		}
		c.add(o)
	} else {
		c.Fail(rule, construct, fn, pos, examined, failDetail, nil)
	}
	return cond
}

// ---------- known findings ----------

type KnownFinding struct {
	Property  string `json:"property"`
	Rule      string `json:"rule"`
	Construct string `json:"construct"`
	What      string `json:"what"`
}

type knownFile struct {
	Findings []KnownFinding `json:"findings"`
	Fixed    []string       `json:"fixed"`
}

func loadKnown(path string) (*knownFile, error) {
	kf := &knownFile{}
	b, err := os.ReadFile(path)
	if err != nil {
		if os.IsNotExist(err) {
			return kf, nil
		}
		return nil, err
	}
	if err := json.Unmarshal(b, kf); err != nil {
		return nil, err
	}
	return kf, nil
}

// ---------- finishing ----------

type evidence struct {
	PropertyID  string         `json:"property_id"`
	Tier        string         `json:"tier"`
	Seed        int            `json:"seed"`
	Level       string         `json:"level"`
	Coverage    map[string]any `json:"coverage"`
	Assumptions []string       `json:"assumptions"`
	WallS       float64        `json:"wall_s"`
	Violations  int            `json:"violations"`
}

// Finish writes the evidence file, prints KNOWN-FINDING / VIOLATION lines and returns the exit code.
func (c *Check) Finish(verifDir string, seed int, assumptions []string) int {
	kf, err := loadKnown(filepath.Join(verifDir, "known-findings.json"))
	if err != nil {
		fmt.Printf("cannot read known-findings.json: %v\n", err)
		kf = &knownFile{}
	}
	sort.SliceStable(c.Obls, func(i, j int) bool {
		if c.Obls[i].Rule != c.Obls[j].Rule {
			return c.Obls[i].Rule < c.Obls[j].Rule
		}
		return c.Obls[i].Construct < c.Obls[j].Construct
	})
	var viol []*Obligation
	discharged, nontrivial := 0, 0
	seen := map[string]bool{}
	for _, o := range c.Obls {
		k := o.Rule + " " + o.Construct
		if o.Examined > 0 && !seen[k] {
			nontrivial++
		}
		seen[k] = true
		switch o.Status {
		case Discharged:
			discharged++
		default:
			matched := false
			for _, f := range kf.Findings {
				if f.Property == c.Prop && f.Rule == o.Rule && f.Construct == o.Construct {
					matched = true
					o.Known = true
					fmt.Printf("KNOWN-FINDING: property=%s %s %s: %s\n", c.Prop, o.Rule, o.Construct, f.What)
				}
			}
			if !matched {
				viol = append(viol, o)
			}
		}
	}
	replayDir := filepath.Join(verifDir, "evidence", "replay")
	_ = os.MkdirAll(replayDir, 0o755)
	old, _ := filepath.Glob(filepath.Join(replayDir, c.Prop+"-*.json"))
	for _, f := range old {
		_ = os.Remove(f)
	}
	for i, o := range viol {
		rp := filepath.Join(replayDir, fmt.Sprintf("%s-%d.json", c.Prop, i+1))
		b, _ := json.MarshalIndent(map[string]any{"property": c.Prop, "tier": c.Tier, "obligation": o}, "", " ")
		_ = os.WriteFile(rp, b, 0o644)
		fmt.Printf("VIOLATION property=%s replay=%s\n", c.Prop, rp)
		fmt.Printf("  %s [%s] %s %s %s — %s\n", o.Status, o.Rule, o.Construct, o.Func, o.Pos, o.Detail)
		for _, w := range o.Witness {
			fmt.Printf("    path: %s\n", w)
		}
	}
	var samples []any
	for i, o := range c.Obls {
		if i < 60 || o.Status != Discharged {
			samples = append(samples, o)
		}
	}
	fl := []string{}
	for f := range c.funcs {
		fl = append(fl, f)
	}
	sort.Strings(fl)
	tb := []string{}
	for t := range c.Trusted {
		tb = append(tb, t)
	}
	sort.Strings(tb)
	expl := c.Explain
	if c.NotCov != "" {
		expl += " NOT DECIDED: " + c.NotCov
	}
	ev := evidence{PropertyID: c.Prop, Tier: c.Tier, Seed: seed, Level: "other", Assumptions: assumptions,
		WallS: time.Since(c.start).Seconds(), Violations: len(viol),
		Coverage: map[string]any{
			"explanation":         expl,
			"obligations":         len(c.Obls),
			"discharged":          discharged,
			"evaluations":         len(c.Obls),
			"distinct_nontrivial": nontrivial,
			"rule":                "one obligation per (rule, construct) instance resolved on the type-checked SSA program of /repo's working tree; non-trivial = the decision examined at least one path, state, call site or access (Examined>0); distinct = distinct (rule,construct) keys",
			"samples":             samples,
			"functions_analysed":  fl,
			"packages_loaded":     c.P.NPkgs,
			"call_sites":          c.sites,
			"positive_controls":   nonNil(c.Controls),
			"trusted_base":        tb,
			"notes":               nonNil(c.Notes),
			"checker_cmd":         "bin/bifrost-verify -prop " + c.Prop + " -tier " + c.Tier,
			"exhaustive":          false,
		}}
	b, _ := json.MarshalIndent(ev, "", " ")
	_ = os.MkdirAll(filepath.Join(verifDir, "evidence"), 0o755)
	if err := os.WriteFile(filepath.Join(verifDir, "evidence", c.Prop+".json"), b, 0o644); err != nil {
		fmt.Printf("cannot write evidence: %v\n", err)
		return 2
	}
	fmt.Printf("%s %s: %d obligations, %d discharged, %d violations, %d functions, %.1fs\n", c.Prop, c.Tier, len(c.Obls), discharged, len(viol), len(fl), time.Since(c.start).Seconds())
	if len(viol) > 0 {
		return 1
	}
	return 0
}

// Short trims long strings for details.
func Short(s string, n int) string {
	s = strings.ReplaceAll(s, "\n", " ")
	if len(s) > n {
		return s[:n] + "…"
	}
	return s
}

// Start is the process start time (wall_s includes loading).
var Start = time.Now()

func nonNil(s []string) []string {
	if s == nil {
		return []string{}
	}
	return s
}
