package an

import (
	"fmt"
	"go/constant"
	"go/token"
	"go/types"
	"strings"

	"golang.org/x/tools/go/ssa"
)

// Req is a requirement that must hold in the path state whenever a sink is reached.
type Req struct {
	Name  string
	Holds func(s *State, at ssa.Instruction) bool
}

// GateSpec describes an R1 must-pass-through obligation family.
type GateSpec struct {
	Rule      string
	Construct string
	Fn        *ssa.Function
	Init      *State
	// Sink selects the guarded instructions.
	Sink func(s *State, ins ssa.Instruction) bool
	Reqs []Req
	// Descend makes the explorer enter function literals at their creation site (with the facts of that site).
	Descend bool
	// DescendInto restricts Descend to closures for which it returns true (nil = all).
	DescendInto func(mc *ssa.MakeClosure) bool
	MaxStates   int
	// Mark is called after an If edge was taken (cond evaluated to want) so that sticky gate bits can be set.
	Mark func(s *State, cond ssa.Value, want bool)
}

type gateResult struct {
	arrivals int
	sinks    map[ssa.Instruction]bool
	fail     map[int]*State
	failAt   map[int]ssa.Instruction
	states   int
	trunc    bool
}

func (c *Check) runGate(spec *GateSpec, fn *ssa.Function, init *State, res *gateResult, depth int) {
	ex := &Explorer{P: c.P, MaxStates: spec.MaxStates}
	ex.OnInstr = func(s *State, ins ssa.Instruction) bool {
		if mc, ok := ins.(*ssa.MakeClosure); ok && spec.Descend && depth < 4 {
			if g, ok := mc.Fn.(*ssa.Function); ok && g.Parent() == fn && (spec.DescendInto == nil || spec.DescendInto(mc)) {
				c.runGate(spec, g, s.EnterClosure(mc), res, depth+1)
			}
		}
		if spec.Sink(s, ins) {
			res.arrivals++
			res.sinks[ins] = true
			for i, r := range spec.Reqs {
				if res.fail[i] != nil {
					continue
				}
				if !r.Holds(s, ins) {
					res.fail[i] = s.clone()
					res.failAt[i] = ins
				}
			}
		}
		return true
	}
	if spec.Mark != nil {
		ex.OnEdge = func(s *State, from *ssa.BasicBlock, succ int) bool {
			if t, ok := from.Instrs[len(from.Instrs)-1].(*ssa.If); ok {
				spec.Mark(s, t.Cond, succ == 0)
			}
			return true
		}
	}
	ex.Run(fn, init)
	c.Touch(fn)
	res.states += ex.States
	if ex.Truncated {
		res.trunc = true
	}
}

// Gate decides: on every path of Fn that reaches a sink, every requirement holds.
func (c *Check) Gate(spec GateSpec) bool {
	if spec.Rule == "" {
		spec.Rule = "GATE"
	}
	if spec.Fn == nil {
		c.Undecided(spec.Rule, spec.Construct, nil, "unresolved anchor: function not found")
		return false
	}
	res := &gateResult{sinks: map[ssa.Instruction]bool{}, fail: map[int]*State{}, failAt: map[int]ssa.Instruction{}}
	c.runGate(&spec, spec.Fn, spec.Init, res, 0)
	if res.trunc {
		c.Undecided(spec.Rule, spec.Construct, spec.Fn, fmt.Sprintf("state budget exhausted after %d states", res.states))
		return false
	}
	if res.arrivals == 0 {
		c.Undecided(spec.Rule, spec.Construct, spec.Fn, "unresolved anchor: no path reaches the guarded action (sink not found)")
		return false
	}
	ok := true
	for i, r := range spec.Reqs {
		name := spec.Construct + " requires " + r.Name
		if fs := res.fail[i]; fs != nil {
			ok = false
			at := res.failAt[i]
			c.Fail(spec.Rule, name, spec.Fn, c.P.Pos(at.Pos()), res.states,
				fmt.Sprintf("a path reaches the guarded action without %q; facts on that path: %s", r.Name, Short(strings.Join(fs.FactList(), ", "), 400)), fs.Witness())
		} else {
			c.OK(spec.Rule, name, spec.Fn, res.states, fmt.Sprintf("%d arrivals at %d sink instruction(s), %d states explored", res.arrivals, len(res.sinks), res.states))
		}
	}
	return ok
}

// ---------- requirement builders ----------

func scopeFuncs(fn *ssa.Function) []*ssa.Function { return WithClosures(Outermost(fn)) }

var helperCalleeMemo = map[*ssa.Function][]*ssa.Function{}

// HelperCallees lists the unexported same-package functions statically called (transitively, three levels) from fn
// and its closures: the functions the explorer walks inline in InlineHelpers mode.
func HelperCallees(fn *ssa.Function) []*ssa.Function {
	if v, ok := helperCalleeMemo[fn]; ok {
		return v
	}
	seen := map[*ssa.Function]bool{fn: true}
	var out []*ssa.Function
	var visit func(f *ssa.Function, depth int)
	visit = func(f *ssa.Function, depth int) {
		for _, g := range withClosuresRaw(f) {
			for _, b := range g.Blocks {
				for _, ins := range b.Instrs {
					call, ok := ins.(*ssa.Call)
					if !ok {
						continue
					}
					h := call.Call.StaticCallee()
					if h == nil || seen[h] || len(h.Blocks) == 0 || len(h.Blocks) > 80 || h.Pkg == nil || h.Pkg != fn.Pkg || h.Parent() != nil || h.Synthetic != "" {
						continue
					}
					if n := h.Name(); n == "" || !(n[0] >= 'a' && n[0] <= 'z') {
						continue
					}
					seen[h] = true
					out = append(out, withClosuresRaw(h)...)
					if depth < 3 {
						visit(h, depth+1)
					}
				}
			}
		}
	}
	visit(fn, 1)
	helperCalleeMemo[fn] = out
	return out
}

// CallOK: some call to one of the callees (anywhere in the enclosing function tree) has a nil error
// result (its last result) on this path.
func CallOK(name string, cs ...Callee) Req {
	return Req{Name: name, Holds: func(s *State, at ssa.Instruction) bool {
		for _, f := range scopeFuncs(s.Fn) {
			for _, call := range Calls(f, cs...) {
				e := ErrResult(call, -1)
				if e != nil && s.IsNil(e) {
					return true
				}
				// tail forwarding: `return f(x)` — this function's error IS the callee's error
				if ret, ok := at.(*ssa.Return); ok && e != nil && len(ret.Results) > 0 && s.Key(s.RetVal(ret, -1)) == s.Key(e) {
					return true
				}
			}
		}
		// one-level callee summary: a same-package helper whose every success return is itself behind "callee ok"
		for _, f := range scopeFuncs(s.Fn) {
			for _, b := range f.Blocks {
				for _, ins := range b.Instrs {
					call, ok := ins.(*ssa.Call)
					if !ok {
						continue
					}
					h, ok := call.Call.Value.(*ssa.Function)
					if !ok || h.Pkg == nil || h.Pkg != Outermost(s.Fn).Pkg || len(h.Blocks) == 0 || h == Outermost(s.Fn) {
						continue
					}
					e := ErrResult(call, -1)
					if e == nil || !isErrorType(e.Type()) {
						continue
					}
					okHere := s.IsNil(e)
					if ret, isRet := at.(*ssa.Return); isRet && len(ret.Results) > 0 && s.Key(s.RetVal(ret, -1)) == s.Key(e) {
						okHere = true
					}
					if okHere && s.P.helperEnsuresOK(h, cs) {
						return true
					}
				}
			}
		}
		return false
	}}
}

func isErrorType(t types.Type) bool {
	n, ok := t.(*types.Named)
	return ok && n.Obj().Name() == "error" && n.Obj().Pkg() == nil
}

// helperEnsuresOK: every return of h whose error is not known non-nil is reached only with some call to one of cs
// having a nil error (or forwarding it). Memoised per (function, callee set).
func (p *Prog) helperEnsuresOK(h *ssa.Function, cs []Callee) bool {
	key := h.String() + "|" + fmt.Sprint(cs)
	if p.helperMemo == nil {
		p.helperMemo = map[string]bool{}
	}
	if v, ok := p.helperMemo[key]; ok {
		return v
	}
	p.helperMemo[key] = false // recursion guard
	calls := Calls(h, cs...)
	if len(calls) == 0 {
		return false
	}
	ok, n := true, 0
	ex := &Explorer{P: p, MaxStates: 50000}
	ex.OnInstr = func(s *State, ins ssa.Instruction) bool {
		ret, isRet := ins.(*ssa.Return)
		if !isRet || len(ret.Results) == 0 {
			return true
		}
		rv := s.RetVal(ret, -1)
		if s.KnownNonNilErr(rv) {
			return true
		}
		n++
		good := false
		for _, c := range calls {
			e := ErrResult(c, -1)
			if e != nil && (s.IsNil(e) || s.Key(rv) == s.Key(e)) {
				good = true
			}
		}
		if !good {
			ok = false
		}
		return true
	}
	ex.Run(h, nil)
	res := ok && n > 0 && !ex.Truncated
	p.helperMemo[key] = res
	return res
}

// CallTrue: some call to one of the callees has result #idx known true on this path.
func CallTrue(name string, idx int, cs ...Callee) Req {
	return Req{Name: name, Holds: func(s *State, at ssa.Instruction) bool {
		for _, f := range scopeFuncs(s.Fn) {
			for _, call := range Calls(f, cs...) {
				if e := ErrResult(call, idx); e != nil && s.IsTrue(e) {
					return true
				}
			}
		}
		return false
	}}
}

// AnyOf is the disjunction of requirements.
func AnyOf(name string, rs ...Req) Req {
	return Req{Name: name, Holds: func(s *State, at ssa.Instruction) bool {
		for _, r := range rs {
			if r.Holds(s, at) {
				return true
			}
		}
		return false
	}}
}

// FactReq holds when some fact "x rel y" is known on the path where the operand pair satisfies match.
// match receives canonical operand values (x,y) and the relation known for x vs y.
func FactReq(name string, match func(s *State, x, y ssa.Value, r Rel) bool) Req {
	return Req{Name: name, Holds: func(s *State, at ssa.Instruction) bool {
		return s.AnyFact(match)
	}}
}

// AnyFact iterates the comparison instructions of the function tree and reports whether one whose
// relation is constrained on this path satisfies match.
func (s *State) AnyFact(match func(s *State, x, y ssa.Value, r Rel) bool) bool {
	for _, f := range scopeFuncs(s.Fn) {
		for _, b := range f.Blocks {
			for _, ins := range b.Instrs {
				bo, ok := ins.(*ssa.BinOp)
				if !ok {
					continue
				}
				if _, isCmp := relOfOp(bo.Op); !isCmp {
					continue
				}
				r := s.Rel(bo.X, bo.Y)
				if r == ANY {
					continue
				}
				if match(s, s.Canon(bo.X), s.Canon(bo.Y), r) {
					return true
				}
				if match(s, s.Canon(bo.Y), s.Canon(bo.X), flip(r)) {
					return true
				}
				// str compared with "" is also presented as len(str) compared with 0 (LenOf understands the proxy)
				for _, pr := range [][2]ssa.Value{{bo.X, bo.Y}, {bo.Y, bo.X}} {
					str := s.Canon(pr[0])
					if _, isK := str.(*ssa.Const); isK || !IsStrConst(s.Canon(pr[1]), "") {
						continue
					}
					if bt, isB := str.Type().Underlying().(*types.Basic); !isB || bt.Info()&types.IsString == 0 {
						continue
					}
					rr := s.Rel(pr[0], pr[1])
					lr := NE
					if rr == EQ {
						lr = EQ
					} else if rr&EQ != 0 {
						continue
					}
					proxy := &LenProxy{Of: str}
					zero := ssa.NewConst(constant.MakeInt64(0), types.Typ[types.Int])
					if match(s, proxy, zero, lr) || match(s, zero, proxy, lr) {
						return true
					}
				}
				// len(str) compared with 0 is also presented as str compared with "" (the two spellings of an emptiness test)
				for _, pr := range [][2]ssa.Value{{bo.X, bo.Y}, {bo.Y, bo.X}} {
					lc, isCall := s.Canon(pr[0]).(*ssa.Call)
					if !isCall || BuiltinName(lc) != "len" || !IsIntConst(pr[1], 0) {
						continue
					}
					str := s.Canon(lc.Call.Args[0])
					if bt, isB := str.Type().Underlying().(*types.Basic); !isB || bt.Info()&types.IsString == 0 {
						continue
					}
					rr := s.Rel(pr[0], pr[1])
					sr := NE
					if rr == EQ {
						sr = EQ
					} else if rr&EQ != 0 {
						continue
					}
					empty := ssa.NewConst(constant.MakeString(""), str.Type())
					if match(s, str, empty, sr) || match(s, empty, str, sr) {
						return true
					}
				}
			}
		}
	}
	return false
}

// LenOf reports whether v is len(x) with x satisfying pred.
func LenOf(s *State, v ssa.Value, pred func(ssa.Value) bool) bool {
	if lp, ok := v.(*LenProxy); ok {
		return pred(s.Canon(lp.Of))
	}
	c, ok := s.Canon(v).(*ssa.Call)
	if !ok || BuiltinName(c) != "len" {
		return false
	}
	return pred(s.Canon(c.Call.Args[0]))
}

// MapLookupOf returns the map lookup that produced v: m[k] itself, or the value half of `v, ok := m[k]`.
func MapLookupOf(v ssa.Value) *ssa.Lookup {
	if e, ok := v.(*ssa.Extract); ok && e.Index == 0 {
		if lk, ok := e.Tuple.(*ssa.Lookup); ok && lk.CommaOk {
			return lk
		}
		return nil
	}
	if lk, ok := v.(*ssa.Lookup); ok && !lk.CommaOk {
		return lk
	}
	return nil
}

// IsIntConst reports whether v is the integer constant n.
func IsIntConst(v ssa.Value, n int64) bool {
	k, ok := v.(*ssa.Const)
	if !ok || k.Value == nil {
		return false
	}
	if !types.Identical(k.Type().Underlying(), k.Type().Underlying()) {
		return false
	}
	i, ok := constInt(k)
	return ok && i == n
}

func constInt(k *ssa.Const) (int64, bool) {
	if k.Value == nil {
		return 0, false
	}
	if b, ok := k.Type().Underlying().(*types.Basic); !ok || b.Info()&types.IsInteger == 0 {
		return 0, false
	}
	return k.Int64(), true
}

// IsStrConst reports whether v is the string constant str.
func IsStrConst(v ssa.Value, str string) bool {
	k, ok := v.(*ssa.Const)
	if !ok || k.Value == nil {
		return false
	}
	b, ok := k.Type().Underlying().(*types.Basic)
	if !ok || b.Info()&types.IsString == 0 {
		return false
	}
	return k.Value.ExactString() == fmt.Sprintf("%q", str)
}

// ResultCallTo reports whether v (canonical) is (a result of) a call to one of the callees; returns the call.
func ResultCallTo(v ssa.Value, cs ...Callee) *ssa.Call {
	v = Strip(v)
	if e, ok := v.(*ssa.Extract); ok {
		v = e.Tuple
	}
	if c, ok := v.(*ssa.Call); ok && IsCallTo(c, cs...) {
		return c
	}
	return nil
}

// ---------- R2: error propagation ----------

var nilTransparent = []Callee{
	X("github.com/pkg/errors", "", "Wrap"), X("github.com/pkg/errors", "", "Wrapf"),
	X("github.com/pkg/errors", "", "WithStack"), X("github.com/pkg/errors", "", "WithMessage"), X("github.com/pkg/errors", "", "WithMessagef"),
}

// KnownNilErr reports whether v is known to be a nil error on this path (including nil-transparent wrappers).
func (s *State) KnownNilErr(v ssa.Value) bool {
	if s.IsNil(v) {
		return true
	}
	if c := ResultCallTo(s.Canon(v), nilTransparent...); c != nil && len(c.Call.Args) > 0 {
		return s.KnownNilErr(c.Call.Args[0])
	}
	return false
}

// ErrPropSpec: whenever Failing holds at a Return, result #ErrIdx must not be known nil.
type ErrPropSpec struct {
	Rule, Construct string
	Fn              *ssa.Function
	Failing         func(s *State) (bool, string)
	ErrIdx          int // index of the error result (negative: from the end)
	Init            *State
}

// ErrProp decides an R2a obligation.
func (c *Check) ErrProp(spec ErrPropSpec) bool {
	if spec.Rule == "" {
		spec.Rule = "ERRPROP"
	}
	if spec.Fn == nil {
		c.Undecided(spec.Rule, spec.Construct, nil, "unresolved anchor: function not found")
		return false
	}
	failingReturns := 0
	var bad *State
	var badAt ssa.Instruction
	badWhy := ""
	ex := &Explorer{P: c.P}
	ex.OnInstr = func(s *State, ins ssa.Instruction) bool {
		ret, ok := ins.(*ssa.Return)
		if !ok {
			return true
		}
		f, why := spec.Failing(s)
		if !f {
			// tail forwarding (`return x, f(...)`): the returned error IS some call's error. Under the hypothesis that it is
			// non-nil, does the failure condition hold? Then this return is a failing return that propagates by construction.
			fi := spec.ErrIdx
			if fi < 0 {
				fi = len(ret.Results) + fi
			}
			if fi >= 0 && fi < len(ret.Results) {
				rv := s.Canon(ret.Results[fi])
				_, isCall := rv.(*ssa.Call)
				if ex, isEx := rv.(*ssa.Extract); isEx {
					_, isCall = ex.Tuple.(*ssa.Call)
				}
				if isCall && isErrorType(rv.Type()) && !s.KnownNilErr(rv) && !s.NonNil(rv) {
					h := s.clone()
					if h.SetRel(rv, ssa.NewConst(nil, rv.Type()), NE) {
						if f2, _ := spec.Failing(h); f2 {
							failingReturns++
						}
					}
				}
			}
			return true
		}
		failingReturns++
		idx := spec.ErrIdx
		if idx < 0 {
			idx = len(ret.Results) + idx
		}
		if idx < 0 || idx >= len(ret.Results) {
			return true
		}
		if bad == nil && s.KnownNilErr(ret.Results[idx]) {
			bad = s.clone()
			badAt = ins
			badWhy = why
		}
		return true
	}
	ex.Run(spec.Fn, spec.Init)
	c.Touch(spec.Fn)
	if ex.Truncated {
		c.Undecided(spec.Rule, spec.Construct, spec.Fn, "state budget exhausted")
		return false
	}
	if failingReturns == 0 {
		c.Undecided(spec.Rule, spec.Construct, spec.Fn, "unresolved anchor: no return is reached with the failure condition known (the checked call or its failure branch was not found)")
		return false
	}
	if bad != nil {
		c.Fail(spec.Rule, spec.Construct, spec.Fn, c.P.Pos(badAt.Pos()), ex.States,
			fmt.Sprintf("returns a known-nil error although %s", badWhy), bad.Witness())
		return false
	}
	c.OK(spec.Rule, spec.Construct, spec.Fn, ex.States, fmt.Sprintf("%d failing return arrivals, none yields a known-nil error; %d states", failingReturns, ex.States))
	return true
}

// CallFailed builds a Failing predicate: some call to the callees has a known non-nil error result.
func CallFailed(cs ...Callee) func(s *State) (bool, string) {
	return func(s *State) (bool, string) {
		direct := 0
		for _, f := range scopeFuncs(s.Fn) {
			for _, call := range Calls(f, cs...) {
				direct++
				if e := ErrResult(call, -1); e != nil && s.NonNil(e) {
					return true, fmt.Sprintf("%s failed (error known non-nil)", s.P.Describe(call))
				}
			}
		}
		if direct > 0 {
			return false, ""
		}
		// the check was moved into a same-package helper: the helper's failure stands for the check's failure
		// (it must itself propagate the check's failure: helperPropagates)
		for _, f := range scopeFuncs(s.Fn) {
			for _, b := range f.Blocks {
				for _, ins := range b.Instrs {
					call, ok := ins.(*ssa.Call)
					if !ok {
						continue
					}
					h, ok := call.Call.Value.(*ssa.Function)
					if !ok || h.Pkg == nil || h.Pkg != Outermost(s.Fn).Pkg || len(Calls(h, cs...)) == 0 {
						continue
					}
					if e := ErrResult(call, -1); e != nil && isErrorType(e.Type()) && s.NonNil(e) && s.P.helperPropagates(h, cs) {
						return true, fmt.Sprintf("helper %s (which performs the check) failed", FuncName(h))
					}
				}
			}
		}
		return false, ""
	}
}

// helperPropagates: inside h, whenever a call to cs has a known non-nil error, no return yields a known-nil error.
func (p *Prog) helperPropagates(h *ssa.Function, cs []Callee) bool {
	key := "prop|" + h.String() + "|" + fmt.Sprint(cs)
	if p.helperMemo == nil {
		p.helperMemo = map[string]bool{}
	}
	if v, ok := p.helperMemo[key]; ok {
		return v
	}
	p.helperMemo[key] = false
	calls := Calls(h, cs...)
	ok, n := true, 0
	ex := &Explorer{P: p, MaxStates: 50000}
	ex.OnInstr = func(s *State, ins ssa.Instruction) bool {
		ret, isRet := ins.(*ssa.Return)
		if !isRet || len(ret.Results) == 0 {
			return true
		}
		failed := false
		for _, c := range calls {
			if e := ErrResult(c, -1); e != nil && s.NonNil(e) {
				failed = true
			}
		}
		if failed {
			n++
			if s.KnownNilErr(s.RetVal(ret, -1)) {
				ok = false
			}
		}
		return true
	}
	ex.Run(h, nil)
	res := ok && n > 0 && !ex.Truncated
	p.helperMemo[key] = res
	return res
}

// NilRetSpec: no return may yield (known-nil value, known-nil error).
type NilRetSpec struct {
	Rule, Construct string
	Fn              *ssa.Function
	ValIdx, ErrIdx  int
	// MaybeNil lists callees whose value result may be nil together with a nil error; a forwarded result of
	// such a call counts as "known nil" unless a non-nil fact exists on the path.
	MaybeNil []Callee
}

// NilRet decides an R2b obligation.
func (c *Check) NilRet(spec NilRetSpec) bool {
	if spec.Rule == "" {
		spec.Rule = "NILRET"
	}
	if spec.Fn == nil {
		c.Undecided(spec.Rule, spec.Construct, nil, "unresolved anchor: function not found")
		return false
	}
	returns := 0
	var bad *State
	var badAt ssa.Instruction
	why := ""
	ex := &Explorer{P: c.P}
	ex.OnInstr = func(s *State, ins ssa.Instruction) bool {
		ret, ok := ins.(*ssa.Return)
		if !ok {
			return true
		}
		returns++
		ei := spec.ErrIdx
		if ei < 0 {
			ei += len(ret.Results)
		}
		v, e := ret.Results[spec.ValIdx], ret.Results[ei]
		if !s.KnownNilErr(e) {
			return true
		}
		vn := s.IsNil(v)
		w := "value known nil"
		if !vn && !s.NonNil(v) {
			if call := ResultCallTo(s.Canon(v), spec.MaybeNil...); call != nil {
				vn = true
				w = fmt.Sprintf("value is the unchecked result of %s, which may be nil with a nil error", s.P.Describe(call))
			}
		}
		if vn && bad == nil {
			bad = s.clone()
			badAt = ins
			why = w
		}
		return true
	}
	ex.Run(spec.Fn, nil)
	c.Touch(spec.Fn)
	if ex.Truncated || returns == 0 {
		c.Undecided(spec.Rule, spec.Construct, spec.Fn, "state budget exhausted or no returns")
		return false
	}
	if bad != nil {
		c.Fail(spec.Rule, spec.Construct, spec.Fn, c.P.Pos(badAt.Pos()), ex.States, "returns (nil, nil): "+why+" and error known nil", bad.Witness())
		return false
	}
	c.OK(spec.Rule, spec.Construct, spec.Fn, ex.States, fmt.Sprintf("%d return arrivals, none yields (nil,nil); %d states", returns, ex.States))
	return true
}

// MayReturnNilNil explores fn and reports whether some return yields (known-nil, known-nil).
func (c *Check) MayReturnNilNil(fn *ssa.Function, valIdx int) (bool, []string) {
	found := false
	var wit []string
	ex := &Explorer{P: c.P}
	ex.OnInstr = func(s *State, ins ssa.Instruction) bool {
		ret, ok := ins.(*ssa.Return)
		if !ok || found {
			return true
		}
		if s.IsNil(ret.Results[valIdx]) && s.KnownNilErr(ret.Results[len(ret.Results)-1]) {
			found = true
			wit = s.Witness()
		}
		return true
	}
	ex.Run(fn, nil)
	c.Touch(fn)
	return found, wit
}

var nonNilErrMakers = []Callee{
	X("github.com/pkg/errors", "", "New"), X("github.com/pkg/errors", "", "Errorf"),
	X("errors", "", "New"), X("fmt", "", "Errorf"),
}

// KnownNonNilErr reports whether v is known to be a non-nil error on this path: a fact, a freshly made
// error, a non-nil value wrapped by a nil-transparent wrapper, a concrete value boxed into the interface,
// or a load of a package-level error variable (assumed initialised non-nil and never reassigned).
func (s *State) KnownNonNilErr(v ssa.Value) bool {
	if s.NonNil(v) {
		return true
	}
	cv := s.Canon(v)
	if ResultCallTo(cv, nonNilErrMakers...) != nil {
		return true
	}
	if c := ResultCallTo(cv, nilTransparent...); c != nil && len(c.Call.Args) > 0 {
		return s.KnownNonNilErr(c.Call.Args[0])
	}
	if u, ok := cv.(*ssa.UnOp); ok {
		if g, ok := u.X.(*ssa.Global); ok && strings.HasPrefix(g.Name(), "Err") {
			return true
		}
	}
	return false
}

// EachReturn explores fn and calls check at every Return arrival; a non-empty string is a violation.
func (c *Check) EachReturn(rule, construct string, fn *ssa.Function, okDetail string, check func(s *State, ret *ssa.Return) string) bool {
	if fn == nil {
		c.Undecided(rule, construct, nil, "unresolved anchor: function not found")
		return false
	}
	n := 0
	var bad *State
	var badAt ssa.Instruction
	why := ""
	ex := &Explorer{P: c.P}
	ex.OnInstr = func(s *State, ins ssa.Instruction) bool {
		if ret, ok := ins.(*ssa.Return); ok {
			n++
			if w := check(s, ret); w != "" && bad == nil {
				bad, badAt, why = s.clone(), ins, w
			}
		}
		return true
	}
	ex.Run(fn, nil)
	c.Touch(fn)
	if ex.Truncated || n == 0 {
		c.Undecided(rule, construct, fn, "state budget exhausted or no return reached")
		return false
	}
	if bad != nil {
		c.Fail(rule, construct, fn, c.P.Pos(badAt.Pos()), ex.States, why, bad.Witness())
		return false
	}
	c.OK(rule, construct, fn, ex.States, fmt.Sprintf("%s (%d return arrivals, %d states)", okDetail, n, ex.States))
	return true
}

// ReturnsWith explores fn with parameters bound to integer constants and calls visit at each Return arrival.
func (c *Check) ReturnsWith(fn *ssa.Function, bind map[int]int64, visit func(s *State, ret *ssa.Return)) (states int, ok bool) {
	if fn == nil || len(fn.Blocks) == 0 {
		return 0, false
	}
	init := c.P.NewState(fn)
	for i, v := range bind {
		if i < len(fn.Params) {
			init.Res[fn.Params[i]] = ssa.NewConst(constant.MakeInt64(v), fn.Params[i].Type())
		}
	}
	ex := &Explorer{P: c.P}
	ex.OnInstr = func(s *State, ins ssa.Instruction) bool {
		if ret, ok := ins.(*ssa.Return); ok {
			visit(s, ret)
		}
		return true
	}
	ex.Run(fn, init)
	c.Touch(fn)
	return ex.States, !ex.Truncated
}

// EnumConsts lists the declared constants of a named integer type in its package, by value.
func (p *Prog) EnumConsts(pkgRel, typeName string) map[int64]string {
	tp := p.TPkg(pkgRel)
	out := map[int64]string{}
	if tp == nil || tp.Types == nil {
		return out
	}
	tn, _ := tp.Types.Scope().Lookup(typeName).(*types.TypeName)
	if tn == nil {
		return out
	}
	for _, n := range tp.Types.Scope().Names() {
		if k, ok := tp.Types.Scope().Lookup(n).(*types.Const); ok && types.Identical(k.Type(), tn.Type()) {
			if v, ok := constant.Int64Val(k.Val()); ok {
				if _, dup := out[v]; !dup {
					out[v] = n
				}
			}
		}
	}
	return out
}

// UsesGuarded: in every repository function calling callee, the value result #valIdx of the call is used
// (as call argument/receiver, sent, stored to non-local memory) only on paths where the call's error is nil
// (or, when alt is non-nil, alt holds).
func (c *Check) UsesGuarded(rule, constructPrefix string, callee Callee, valIdx int, fns []*ssa.Function, alt func(s *State, use ssa.Instruction, val ssa.Value) bool) (sites int) {
	return c.usesGuarded(rule, constructPrefix, callee, valIdx, fns, alt, false)
}

// UsesGuardedNonNil is UsesGuarded for producers that may return (nil, nil): a use additionally needs the value itself
// to be known non-nil on the path.
func (c *Check) UsesGuardedNonNil(rule, constructPrefix string, callee Callee, valIdx int, fns []*ssa.Function) (sites int) {
	return c.usesGuarded(rule, constructPrefix, callee, valIdx, fns, nil, true)
}

func (c *Check) usesGuarded(rule, constructPrefix string, callee Callee, valIdx int, fns []*ssa.Function, alt func(s *State, use ssa.Instruction, val ssa.Value) bool, needNonNil bool) (sites int) {
	for _, fn := range fns {
		calls := Calls(fn, callee)
		for _, call := range calls {
			sites++
			val := ErrResult(call, valIdx)
			errv := ErrResult(call, -1)
			construct := fmt.Sprintf("%s in %s", constructPrefix, FuncName(fn))
			if val == nil {
				c.OK(rule, construct, fn, 1, "value result is never used")
				continue
			}
			uses := 0
			var bad *State
			var badAt ssa.Instruction
			ex := &Explorer{P: c.P}
			vkey := c.P.Key(val)
			ex.OnInstr = func(s *State, ins ssa.Instruction) bool {
				isUse := false
				switch x := ins.(type) {
				case *ssa.Call, *ssa.Go, *ssa.Defer:
					cc := x.(ssa.CallInstruction).Common()
					for _, a := range CallArgs(cc) {
						if s.Key(a) == vkey {
							isUse = true
						}
					}
				case *ssa.Send:
					isUse = s.Key(x.X) == vkey
				case *ssa.MapUpdate:
					isUse = s.Key(x.Value) == vkey
				case *ssa.Store:
					if s.Key(x.Val) == vkey {
						if _, local := x.Addr.(*ssa.Alloc); !local {
							if _, fv := x.Addr.(*ssa.FreeVar); !fv {
								isUse = true
							}
						}
					}
				}
				if !isUse {
					return true
				}
				uses++
				okk := errv != nil && s.IsNil(errv)
				if okk && needNonNil && !s.NonNil(val) {
					okk = false
				}
				if !okk && alt != nil {
					okk = alt(s, ins, val)
				}
				if !okk && bad == nil {
					bad, badAt = s.clone(), ins
				}
				return true
			}
			ex.Run(fn, nil)
			c.Touch(fn)
			switch {
			case ex.Truncated:
				c.Undecided(rule, construct, fn, "state budget exhausted")
			case bad != nil:
				msg := "the value result is used on a path where the call's error is not known nil"
				if needNonNil {
					msg = "the value result (which may be nil together with a nil error) is used on a path where it is not known to be non-nil and the error nil"
				}
				c.Fail(rule, construct, fn, c.P.Pos(badAt.Pos()), ex.States, msg, bad.Witness())
			default:
				c.OK(rule, construct, fn, ex.States, fmt.Sprintf("%d use arrivals, all behind err==nil", uses))
			}
		}
	}
	c.Sites(sites)
	return sites
}

// DominatingConds returns, for instruction ins, the branch conditions that hold on every path to it:
// (cond value, outcome) of each If whose one successor dominates ins's block while the other does not.
func DominatingConds(ins ssa.Instruction) []struct {
	Cond ssa.Value
	Want bool
} {
	var out []struct {
		Cond ssa.Value
		Want bool
	}
	b := ins.Block()
	for d := b.Idom(); d != nil; d = d.Idom() {
		iff, ok := d.Instrs[len(d.Instrs)-1].(*ssa.If)
		if !ok {
			continue
		}
		t, f := d.Succs[0], d.Succs[1]
		td := (t == b || t.Dominates(b)) && len(t.Preds) == 1
		fd := (f == b || f.Dominates(b)) && len(f.Preds) == 1
		if td && !fd {
			out = append(out, struct {
				Cond ssa.Value
				Want bool
			}{iff.Cond, true})
		} else if fd && !td {
			out = append(out, struct {
				Cond ssa.Value
				Want bool
			}{iff.Cond, false})
		}
	}
	return out
}

// ---------- NILDEREF: a (pointer|interface, error) result is dereferenced only where the error is known nil ----------

// NilProducer, when set, marks calls whose pointer result may be nil although no error is reported (pem.Decode's block,
// generated protobuf getters of message-typed fields): NilDerefGuard then demands the value to be known non-nil at
// every dereference.
var NilProducer func(call *ssa.Call) bool

// NilDerefMaxStates bounds the exploration per function in NilDerefGuard (0 = the explorer's default); repository-wide
// sweeps lower it and report truncated functions as not examined.
var NilDerefMaxStates = 0

// NilDerefGuard examines, in each function of fns, every call whose results are (T, …, error) with T a pointer or
// (non-error) interface type: on every path, a *dereferencing* use of the T result (method call with it as receiver,
// field access, load through it) needs the call's error to be known nil — or the value itself known non-nil. Passing
// the value on or comparing it is not a use. One obligation per function; returns the number of candidate calls.
// safeRecv names methods documented to accept a nil receiver (generated getters), by method name prefix.
func (c *Check) NilDerefGuard(rule, constructPrefix string, fns []*ssa.Function, safeRecv func(callee *types.Func) bool) (sites int) {
	for _, fn := range fns {
		if fn == nil || fn.Blocks == nil {
			continue
		}
		type cand struct {
			call *ssa.Call
			val  ssa.Value
			errv ssa.Value
		}
		var cands []cand
		for _, g := range WithClosures(fn) {
			if g != fn {
				continue // closures are explored at their creation site by the explorer only when entered; keep to fn itself
			}
			for _, b := range g.Blocks {
				for _, ins := range b.Instrs {
					call, ok := ins.(*ssa.Call)
					if !ok {
						continue
					}
					res := call.Call.Signature().Results()
					// producers documented to return a nil pointer without any error: the value must be known non-nil
					if NilProducer != nil && NilProducer(call) {
						var v ssa.Value
						if res.Len() == 1 {
							v = call
						} else {
							v = ErrResult(call, 0)
						}
						if v != nil {
							cands = append(cands, cand{call, v, nil})
						}
						continue
					}
					if res.Len() < 2 || !isErrorType(res.At(res.Len()-1).Type()) {
						continue
					}
					switch t := res.At(0).Type().Underlying().(type) {
					case *types.Pointer:
					case *types.Interface:
						if isErrorType(res.At(0).Type()) {
							continue
						}
						_ = t
					default:
						continue
					}
					v, e := ErrResult(call, 0), ErrResult(call, -1)
					if v == nil || e == nil {
						continue
					}
					cands = append(cands, cand{call, v, e})
				}
			}
		}
		if len(cands) == 0 {
			continue
		}
		sites += len(cands)
		construct := fmt.Sprintf("%s in %s", constructPrefix, FuncName(fn))
		var bad *State
		var badAt ssa.Instruction
		var badCall *ssa.Call
		derefs := 0
		ex := &Explorer{P: c.P, MaxStates: NilDerefMaxStates}
		ex.OnInstr = func(s *State, ins ssa.Instruction) bool {
			var recv []ssa.Value
			switch x := ins.(type) {
			case *ssa.Call, *ssa.Go, *ssa.Defer:
				cc := x.(ssa.CallInstruction).Common()
				if cc.IsInvoke() {
					recv = append(recv, cc.Value)
				} else if f := cc.StaticCallee(); f != nil && f.Signature.Recv() != nil && len(cc.Args) > 0 {
					if fo, _ := f.Object().(*types.Func); fo == nil || safeRecv == nil || !safeRecv(fo) {
						recv = append(recv, cc.Args[0])
					}
				}
			case *ssa.FieldAddr:
				recv = append(recv, x.X)
			case *ssa.Field:
				recv = append(recv, x.X)
			case *ssa.UnOp:
				if x.Op == token.MUL {
					recv = append(recv, x.X)
				}
			case *ssa.IndexAddr:
				if _, isPtr := x.X.Type().Underlying().(*types.Pointer); isPtr {
					recv = append(recv, x.X)
				}
			}
			for _, r := range recv {
				k := s.Key(r)
				for _, cd := range cands {
					if k != c.P.Key(cd.val) {
						continue
					}
					derefs++
					if !((cd.errv != nil && s.IsNil(cd.errv)) || s.NonNil(cd.val)) && bad == nil {
						bad, badAt, badCall = s.clone(), ins, cd.call
					}
				}
			}
			return true
		}
		ex.Run(fn, nil)
		c.Touch(fn)
		switch {
		case ex.Truncated:
			c.Undecided(rule, construct, fn, "state budget exhausted")
		case bad != nil:
			c.Fail(rule, construct, fn, c.P.Pos(badAt.Pos()), ex.States, fmt.Sprintf("the result of %s is dereferenced on a path where its error is not known nil (a failed call returns a nil value: nil dereference)", c.P.Describe(badCall)), bad.Witness())
		default:
			c.OK(rule, construct, fn, ex.States, fmt.Sprintf("%d (value, error) calls, %d dereference arrivals, all behind err==nil", len(cands), derefs))
		}
	}
	c.Sites(sites)
	return sites
}

// ---------- RELEASED: storage handed back to a pool is not what the function returns ----------

// aliasRoots walks v backwards through alias-preserving operations (slicing, field/element addresses, conversions,
// interface boxing, phi) and through calls documented to return (an extension of) one of their arguments' storage
// (append, hash.Hash.Sum(b), AEAD Seal/Open dst, s2.Decode dst), collecting every value met on the way.
// AliasRoots is exported for property-specific freshness rules.
func AliasRoots(v ssa.Value) map[ssa.Value]bool { return aliasRoots(v) }

func aliasRoots(v ssa.Value) map[ssa.Value]bool {
	seen := map[ssa.Value]bool{}
	var walk func(v ssa.Value)
	walk = func(v ssa.Value) {
		if v == nil || seen[v] {
			return
		}
		seen[v] = true
		switch x := v.(type) {
		case *ssa.Slice:
			walk(x.X)
		case *ssa.FieldAddr:
			walk(x.X)
		case *ssa.IndexAddr:
			walk(x.X)
		case *ssa.ChangeType:
			walk(x.X)
		case *ssa.Convert:
			if _, isSlice := x.Type().Underlying().(*types.Slice); isSlice {
				if _, fromSlice := x.X.Type().Underlying().(*types.Slice); fromSlice {
					walk(x.X)
				}
			}
		case *ssa.MakeInterface:
			walk(x.X)
		case *ssa.TypeAssert:
			walk(x.X)
		case *ssa.Extract:
			walk(x.Tuple)
		case *ssa.Phi:
			for _, e := range x.Edges {
				walk(e)
			}
		case *ssa.UnOp:
			if x.Op == token.MUL {
				// load of a local slice variable: follow its stores
				if a, ok := x.X.(*ssa.Alloc); ok && a.Referrers() != nil {
					for _, r := range *a.Referrers() {
						if st, isSt := r.(*ssa.Store); isSt && st.Addr == ssa.Value(a) {
							walk(st.Val)
						}
					}
				}
			}
		case *ssa.Call:
			if BuiltinName(x) == "append" {
				walk(x.Call.Args[0])
				return
			}
			name := ""
			if x.Call.IsInvoke() {
				name = x.Call.Method.Name()
			} else if fo := CallObj(x.Common()); fo != nil {
				name = fo.Name()
			}
			args := CallArgs(x.Common())
			switch name {
			case "Sum", "Seal", "Open", "AppendBinary", "AppendUvarint", "AppendVarint":
				// (recv, dst, ...) for methods; dst is the first non-receiver argument
				if x.Call.IsInvoke() && len(x.Call.Args) > 0 {
					walk(x.Call.Args[0])
				} else if len(args) > 1 {
					walk(args[1])
				}
			case "Decode", "Encode":
				if len(args) > 0 {
					walk(args[0])
				}
			}
		}
	}
	walk(v)
	return seen
}

// ReleasedNotReturned: in each function, storage passed to sync.Pool.Put (directly or deferred) must not be aliased by
// a value the function returns. One obligation per function that releases something; returns the number of releases.
func (c *Check) ReleasedNotReturned(rule, constructPrefix string, fns []*ssa.Function) (sites int) {
	put := X("sync", "Pool", "Put")
	for _, fn := range fns {
		if fn == nil || fn.Blocks == nil {
			continue
		}
		var released []ssa.Value
		var where []ssa.Instruction
		for _, b := range fn.Blocks {
			for _, ins := range b.Instrs {
				var cc *ssa.CallCommon
				switch x := ins.(type) {
				case *ssa.Call:
					cc = x.Common()
				case *ssa.Defer:
					cc = x.Common()
				}
				if cc == nil || !IsCallTo(cc, put) {
					continue
				}
				args := CallArgs(cc)
				if len(args) < 2 {
					continue
				}
				released = append(released, args[1])
				where = append(where, ins)
			}
		}
		if len(released) == 0 {
			continue
		}
		sites += len(released)
		construct := fmt.Sprintf("%s in %s", constructPrefix, FuncName(fn))
		bad := ""
		for _, b := range fn.Blocks {
			ret, ok := b.Instrs[len(b.Instrs)-1].(*ssa.Return)
			if !ok {
				continue
			}
			for _, res := range ret.Results {
				roots := aliasRoots(res)
				for i, r := range released {
					for rr := range aliasRoots(r) {
						if _, isConst := rr.(*ssa.Const); isConst {
							continue
						}
						if _, isCall := rr.(*ssa.Call); !isCall {
							if _, isAlloc := rr.(*ssa.Alloc); !isAlloc {
								if _, isTA := rr.(*ssa.TypeAssert); !isTA {
									continue
								}
							}
						}
						if roots[rr] {
							// a deferred Put always precedes the caller's use; a direct Put must precede the return
							bad = fmt.Sprintf("the value returned at %s aliases storage released to the pool at %s: the caller reads a buffer the next user of the pool overwrites", c.P.Pos(ret.Pos()), c.P.Pos(where[i].Pos()))
						}
					}
				}
			}
		}
		c.Touch(fn)
		if bad != "" {
			c.Fail(rule, construct, fn, "", len(released), bad, nil)
		} else {
			c.OK(rule, construct, fn, len(released), fmt.Sprintf("%d pool releases; no returned value aliases released storage", len(released)))
		}
	}
	c.Sites(sites)
	return sites
}

// NotUsedAfterRelease: once a buffer has been handed to sync.Pool.Put (not deferred) the function no longer touches its
// contents: on no path from the Put is the released storage passed to a call, copied, sent, stored or indexed before the
// variable holding it is assigned afresh. (Another pool user may already own and overwrite it.)
func (c *Check) NotUsedAfterRelease(rule, constructPrefix string, fns []*ssa.Function) (sites int) {
	put := X("sync", "Pool", "Put")
	for _, fn := range fns {
		if fn == nil || fn.Blocks == nil {
			continue
		}
		n, bad := 0, ""
		for _, b := range fn.Blocks {
			for i, ins := range b.Instrs {
				call, ok := ins.(*ssa.Call)
				if !ok || !IsCallTo(call, put) {
					continue
				}
				args := CallArgs(call.Common())
				if len(args) < 2 {
					continue
				}
				ptr := args[1]
				for {
					if mi, ok := ptr.(*ssa.MakeInterface); ok {
						ptr = mi.X
						continue
					}
					if ci, ok := ptr.(*ssa.ChangeInterface); ok {
						ptr = ci.X
						continue
					}
					break
				}
				n++
				// does v read the released storage (a load through ptr, possibly re-sliced / converted)?
				var derives func(v ssa.Value, depth int) bool
				derives = func(v ssa.Value, depth int) bool {
					if depth > 6 || v == nil {
						return false
					}
					switch x := v.(type) {
					case *ssa.UnOp:
						return x.Op == token.MUL && x.X == ptr
					case *ssa.Slice:
						return derives(x.X, depth+1)
					case *ssa.ChangeType:
						return derives(x.X, depth+1)
					case *ssa.Convert:
						return derives(x.X, depth+1)
					case *ssa.MakeInterface:
						return derives(x.X, depth+1)
					case *ssa.IndexAddr:
						return derives(x.X, depth+1)
					}
					return v == ptr && depth > 0
				}
				uses := func(x ssa.Instruction) bool {
					switch y := x.(type) {
					case ssa.CallInstruction:
						cc := y.Common()
						if b, ok := cc.Value.(*ssa.Builtin); ok && (b.Name() == "len" || b.Name() == "cap") {
							return false
						}
						for _, a := range cc.Args {
							if derives(a, 0) {
								return true
							}
						}
					case *ssa.Send:
						return derives(y.X, 0)
					case *ssa.Store:
						return derives(y.Val, 0) || derives(y.Addr, 0)
					case *ssa.Return:
						for _, r := range y.Results {
							if derives(r, 0) {
								return true
							}
						}
					case *ssa.Select:
						for _, st := range y.States {
							if st.Send != nil && derives(st.Send, 0) {
								return true
							}
						}
					case *ssa.UnOp:
						if ia, ok := y.X.(*ssa.IndexAddr); ok && y.Op == token.MUL {
							return derives(ia, 0)
						}
					}
					return false
				}
				kills := func(x ssa.Instruction) bool {
					if st, ok := x.(*ssa.Store); ok && st.Addr == ptr {
						return true
					}
					if v, ok := x.(ssa.Value); ok && v == ptr {
						return true // the variable's cell is created anew (next loop iteration)
					}
					return false
				}
				type pos struct {
					b *ssa.BasicBlock
					i int
				}
				seen := map[*ssa.BasicBlock]bool{}
				work := []pos{{b, i + 1}}
				for len(work) > 0 && bad == "" {
					w := work[len(work)-1]
					work = work[:len(work)-1]
					killed := false
					for j := w.i; j < len(w.b.Instrs); j++ {
						x := w.b.Instrs[j]
						if kills(x) {
							killed = true
							break
						}
						if uses(x) {
							bad = fmt.Sprintf("the buffer released to the pool at %s is still used at %s: another user of the pool may already own and overwrite it", c.P.Pos(call.Pos()), c.P.Pos(x.Pos()))
							break
						}
					}
					if killed {
						continue
					}
					for _, s := range w.b.Succs {
						if !seen[s] {
							seen[s] = true
							work = append(work, pos{s, 0})
						}
					}
				}
			}
		}
		if n == 0 {
			continue
		}
		sites += n
		c.Touch(fn)
		construct := fmt.Sprintf("%s in %s", constructPrefix, FuncName(fn))
		if bad != "" {
			c.Fail(rule, construct, fn, "", n, bad, nil)
		} else {
			c.OK(rule, construct, fn, n, fmt.Sprintf("%d pool releases; the released storage is not touched afterwards", n))
		}
	}
	c.Sites(sites)
	return sites
}

// LenProxy stands for len(Of) in fact queries when the source spells the emptiness test of a string as a comparison
// with "" instead of len(...) == 0. It is never part of the program; only LenOf looks inside.
type LenProxy struct{ Of ssa.Value }

func (l *LenProxy) Name() string                  { return "len(" + l.Of.Name() + ")" }
func (l *LenProxy) String() string                { return l.Name() }
func (l *LenProxy) Type() types.Type              { return types.Typ[types.Int] }
func (l *LenProxy) Parent() *ssa.Function         { return l.Of.Parent() }
func (l *LenProxy) Referrers() *[]ssa.Instruction { return nil }
func (l *LenProxy) Pos() token.Pos                { return l.Of.Pos() }
