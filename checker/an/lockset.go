package an

import (
	"fmt"
	"go/types"
	"sort"
	"strings"

	"golang.org/x/tools/go/ssa"
)

const broadcastPkg = "github.com/aperturerobotics/util/broadcast"

// LockSpec: the fields in Guarded may only be accessed while Guard (a sync.Mutex / RWMutex / broadcast.Broadcast
// field) is held. Lock identity is the guard's field object (type-based: one instance per owner is assumed).
type LockSpec struct {
	Construct string
	Guard     *types.Var
	Guarded   []*types.Var
	Funcs     []*ssa.Function // functions to scan (with closures)
	// Exempt lists (function, field) pairs that may touch the field without the guard, with a reason.
	Exempt map[string]string // key: FuncName + " " + field name
	// WritesOnly checks writes (incl. map writes) only.
	WritesOnly bool
	Min        int
}

type lockAnalysis struct {
	p        *Prog
	guard    *types.Var
	funcs    map[*ssa.Function]bool
	entry    map[*ssa.Function]bool // held on entry
	heldAt   map[ssa.Instruction]bool
	computed map[*ssa.Function]bool
}

func isGuardRecv(v ssa.Value, guard *types.Var) bool {
	for i := 0; i < 4; i++ {
		switch x := v.(type) {
		case *ssa.FieldAddr:
			if f := FieldOfAddr(x); f != nil && f.Origin() == guard {
				return true
			}
			return false
		case *ssa.UnOp:
			v = x.X
		default:
			return false
		}
	}
	return false
}

func lockCallKind(ci ssa.CallInstruction, guard *types.Var) string {
	cc := ci.Common()
	fo := CallObj(cc)
	if fo == nil || fo.Pkg() == nil {
		return ""
	}
	args := CallArgs(cc)
	if len(args) == 0 || !isGuardRecv(args[0], guard) {
		return ""
	}
	switch fo.Pkg().Path() {
	case "sync":
		switch fo.Name() {
		case "Lock", "RLock":
			return "lock"
		case "Unlock", "RUnlock":
			return "unlock"
		}
	case broadcastPkg:
		switch fo.Name() {
		case "HoldLock", "HoldLockMaybeAsync", "TryHoldLock", "Wait":
			return "hold"
		}
	}
	return ""
}

// closuresHeldByGuard: function literals passed directly to guard.HoldLock*(func...).
func (la *lockAnalysis) markHoldClosures() {
	for fn := range la.funcs {
		for _, b := range fn.Blocks {
			for _, ins := range b.Instrs {
				ci, ok := ins.(ssa.CallInstruction)
				if !ok || lockCallKind(ci, la.guard) != "hold" {
					continue
				}
				for _, a := range ci.Common().Args {
					if mc, ok := a.(*ssa.MakeClosure); ok {
						if g, ok := mc.Fn.(*ssa.Function); ok {
							// held only if this is the closure's sole use
							if mc.Referrers() != nil && len(nonDebug(*mc.Referrers())) == 1 {
								la.entry[g] = true
							}
						}
					}
				}
			}
		}
	}
}

func nonDebug(rs []ssa.Instruction) []ssa.Instruction {
	var out []ssa.Instruction
	for _, r := range rs {
		if _, ok := r.(*ssa.DebugRef); !ok {
			out = append(out, r)
		}
	}
	return out
}

// compute runs the must-hold dataflow for fn given the current entry assumption.
func (la *lockAnalysis) compute(fn *ssa.Function) {
	in := map[*ssa.BasicBlock]int{} // 0 unknown, 1 held, 2 not held
	if len(fn.Blocks) == 0 {
		return
	}
	entryHeld := la.entry[fn]
	// a literal nested in a held function that is invoked synchronously is handled through call sites
	work := []*ssa.BasicBlock{fn.Blocks[0]}
	if entryHeld {
		in[fn.Blocks[0]] = 1
	} else {
		in[fn.Blocks[0]] = 2
	}
	out := map[*ssa.BasicBlock]int{}
	for len(work) > 0 {
		b := work[0]
		work = work[1:]
		st := in[b]
		for _, ins := range b.Instrs {
			la.heldAt[ins] = st == 1
			if ci, ok := ins.(ssa.CallInstruction); ok {
				if _, isDefer := ins.(*ssa.Defer); isDefer {
					continue
				}
				if _, isGo := ins.(*ssa.Go); isGo {
					continue
				}
				switch lockCallKind(ci, la.guard) {
				case "lock":
					st = 1
				case "unlock":
					st = 2
				}
			}
		}
		if out[b] == st {
			continue
		}
		out[b] = st
		for _, s := range b.Succs {
			n := st
			if prev, ok := in[s]; ok && prev != n {
				n = 2 // meet: held only if held on all paths
			}
			if in[s] != n {
				in[s] = n
				work = append(work, s)
			} else if _, seen := out[s]; !seen {
				work = append(work, s)
			}
		}
	}
}

// run computes held-at for every function with a greatest-fixpoint over caller-held entry assumptions.
func (la *lockAnalysis) run() {
	la.markHoldClosures()
	// static call sites of each function inside the scanned set
	type site struct {
		fn  *ssa.Function
		ins ssa.Instruction
	}
	sites := map[*ssa.Function][]site{}
	escapes := map[*ssa.Function]bool{}
	for fn := range la.funcs {
		for _, b := range fn.Blocks {
			for _, ins := range b.Instrs {
				if ci, ok := ins.(ssa.CallInstruction); ok {
					var callee *ssa.Function
					switch v := ci.Common().Value.(type) {
					case *ssa.Function:
						callee = v
					case *ssa.MakeClosure:
						callee, _ = v.Fn.(*ssa.Function)
					}
					if callee != nil && la.funcs[callee] {
						_, isGo := ins.(*ssa.Go)
						_, isDefer := ins.(*ssa.Defer)
						if isGo || isDefer {
							escapes[callee] = true
						} else {
							sites[callee] = append(sites[callee], site{fn, ins})
						}
					}
				}
				// function values used other than being called
				for _, op := range Operands(ins) {
					var f *ssa.Function
					switch v := op.(type) {
					case *ssa.Function:
						f = v
					case *ssa.MakeClosure:
						f, _ = v.Fn.(*ssa.Function)
					}
					if f == nil || !la.funcs[f] {
						continue
					}
					if ci, ok := ins.(ssa.CallInstruction); ok && ci.Common().Value == op {
						continue
					}
					if ci, ok := ins.(ssa.CallInstruction); ok && lockCallKind(ci, la.guard) == "hold" {
						continue
					}
					if _, isMC := ins.(*ssa.MakeClosure); isMC {
						continue
					}
					escapes[f] = true
				}
			}
		}
	}
	// closures stored in locals and called through the cell: treat every call through a load as unknown -> escape
	held := map[*ssa.Function]bool{}
	for fn := range la.funcs {
		if la.entry[fn] {
			held[fn] = true
			continue
		}
		if len(sites[fn]) > 0 && !escapes[fn] && (fn.Parent() != nil || fn.Object() == nil || !fn.Object().Exported()) {
			held[fn] = true // optimistic start
		}
	}
	fixed := map[*ssa.Function]bool{}
	for fn := range la.entry {
		fixed[fn] = true
	}
	for iter := 0; iter < 20; iter++ {
		la.entry = map[*ssa.Function]bool{}
		for f, h := range held {
			la.entry[f] = h
		}
		la.heldAt = map[ssa.Instruction]bool{}
		for fn := range la.funcs {
			la.compute(fn)
		}
		changed := false
		for fn, h := range held {
			if !h || fixed[fn] {
				continue
			}
			for _, s := range sites[fn] {
				if !la.heldAt[s.ins] {
					held[fn] = false
					changed = true
					break
				}
			}
		}
		if !changed {
			break
		}
	}
}

// LockSet decides an R3 obligation family.
func (c *Check) LockSet(spec LockSpec) bool {
	if spec.Guard == nil {
		c.Undecided("LOCKSET", spec.Construct, nil, "unresolved anchor: guard field not found")
		return false
	}
	for i, g := range spec.Guarded {
		if g == nil {
			c.Undecided("LOCKSET", spec.Construct, nil, fmt.Sprintf("unresolved anchor: guarded field #%d not found", i))
			return false
		}
	}
	la := &lockAnalysis{p: c.P, guard: spec.Guard, funcs: map[*ssa.Function]bool{}, entry: map[*ssa.Function]bool{}, heldAt: map[ssa.Instruction]bool{}}
	var all []*ssa.Function
	for _, f := range spec.Funcs {
		for _, g := range WithClosures(f) {
			if !la.funcs[g] {
				la.funcs[g] = true
				all = append(all, g)
			}
		}
	}
	la.run()
	ok := true
	total := 0
	for _, fv := range spec.Guarded {
		acc := c.P.FieldAccesses(fv, all)
		n := 0
		var bad []string
		for _, a := range acc {
			if spec.WritesOnly && a.Kind != Write && a.Kind != MapWrite {
				continue
			}
			if a.Kind == AddrTaken {
				if _, isCall := a.Instr.(*ssa.Call); !isCall {
					continue
				}
			}
			n++
			// objects still local to their constructor
			if al, isAlloc := rootOf(a.Base).(*ssa.Alloc); isAlloc && al.Parent() == a.Fn {
				continue
			}
			if la.heldAt[a.Instr] {
				continue
			}
			key := FuncName(a.Fn) + " " + fv.Name()
			if _, ex := spec.Exempt[key]; ex {
				continue
			}
			bad = append(bad, fmt.Sprintf("%s of %s in %s at %s", a.Kind, fv.Name(), FuncName(a.Fn), c.P.Pos(a.Instr.Pos())))
		}
		total += n
		name := fmt.Sprintf("%s: %s only under its guard", spec.Construct, fv.Name())
		if len(bad) > 0 {
			ok = false
			sort.Strings(bad)
			c.Fail("LOCKSET", name, nil, "", n, fmt.Sprintf("%d unguarded access(es): %s", len(bad), Short(strings.Join(bad, "; "), 600)), nil)
		} else {
			c.OK("LOCKSET", name, nil, n, fmt.Sprintf("%d accesses, all with %s held (critical sections, HoldLock closures, or helpers whose every call site holds it)", n, spec.Guard.Name()))
		}
	}
	c.Sites(total)
	if total < spec.Min {
		c.Undecided("LOCKSET", spec.Construct+": access census", nil, fmt.Sprintf("only %d guarded accesses found, expected at least %d (anchor drift)", total, spec.Min))
		return false
	}
	return ok
}
