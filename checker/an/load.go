// Package an is the analysis core: loading, SSA helpers, the path explorer and reporting.
package an

import (
	"fmt"
	"go/ast"
	"go/token"
	"go/types"
	"os"
	"sort"
	"strings"

	"golang.org/x/tools/go/packages"
	"golang.org/x/tools/go/ssa"
	"golang.org/x/tools/go/ssa/ssautil"
)

// Mod is the module path of the repository under analysis.
const Mod = "github.com/aperturerobotics/bifrost"

// Prog is a loaded, type-checked and SSA-built view of the repository.
type Prog struct {
	Dir    string
	Fset   *token.FileSet
	Roots  []*packages.Package
	All    map[string]*packages.Package // by import path
	SSA    *ssa.Program
	SSAPkg map[string]*ssa.Package
	// closure creation sites: anonymous function -> MakeClosure instructions creating it
	makeClosures map[*ssa.Function][]*ssa.MakeClosure
	storesTo     map[ssa.Value][]*ssa.Store // Alloc -> stores (whole program, lazily per function tree)
	storesDone   map[*ssa.Function]bool
	valID        map[ssa.Value]int
	helperMemo   map[string]bool
	frozen       map[*types.Var]bool
	NPkgs        int
}

// Load loads the given patterns (relative to dir) with full syntax and builds SSA for
// every package of the module that was loaded.
func Load(dir string, patterns ...string) (*Prog, error) { return LoadMod(dir, Mod, patterns...) }

// LoadMod loads packages whose import path starts with modPrefix as "repository" packages (used for the fixtures).
func LoadMod(dir, modPrefix string, patterns ...string) (*Prog, error) {
	fset := token.NewFileSet()
	cfg := &packages.Config{
		Mode:  packages.LoadSyntax,
		Dir:   dir,
		Fset:  fset,
		Tests: false,
		Env:   append(os.Environ(), "GOWORK=off"),
	}
	pkgs, err := packages.Load(cfg, patterns...)
	if err != nil {
		return nil, err
	}
	if len(pkgs) == 0 {
		return nil, fmt.Errorf("no packages loaded for %v", patterns)
	}
	p := &Prog{Dir: dir, Fset: fset, Roots: pkgs, All: map[string]*packages.Package{}, SSAPkg: map[string]*ssa.Package{},
		makeClosures: map[*ssa.Function][]*ssa.MakeClosure{}, storesTo: map[ssa.Value][]*ssa.Store{}, storesDone: map[*ssa.Function]bool{}, valID: map[ssa.Value]int{}}
	var errs []string
	packages.Visit(pkgs, nil, func(pk *packages.Package) {
		p.All[pk.PkgPath] = pk
		if strings.HasPrefix(pk.PkgPath, modPrefix) {
			for _, e := range pk.Errors {
				errs = append(errs, e.Error())
			}
		}
	})
	if len(errs) > 0 {
		sort.Strings(errs)
		if len(errs) > 8 {
			errs = errs[:8]
		}
		return nil, fmt.Errorf("type/load errors in repository packages: %s", strings.Join(errs, "; "))
	}
	prog, spkgs := ssautil.Packages(pkgs, ssa.InstantiateGenerics)
	_ = spkgs
	p.SSA = prog
	for path, pk := range p.All {
		if strings.HasPrefix(path, modPrefix) && pk.Types != nil {
			if sp := prog.Package(pk.Types); sp != nil {
				sp.Build()
				p.SSAPkg[path] = sp
				p.NPkgs++
			}
		}
	}
	if p.NPkgs == 0 {
		return nil, fmt.Errorf("no repository packages in load result")
	}
	return p, nil
}

// Pkg returns the SSA package for a path relative to the module ("" = root).
func (p *Prog) Pkg(rel string) *ssa.Package {
	path := Mod
	if rel != "" {
		path = Mod + "/" + rel
	}
	return p.SSAPkg[path]
}

// TPkg returns the go/packages package for a module-relative path.
func (p *Prog) TPkg(rel string) *packages.Package {
	path := Mod
	if rel != "" {
		path = Mod + "/" + rel
	}
	return p.All[path]
}

// Func finds a package-level function or a method: Func("peer","SignedMsg","ExtractAndVerify") or
// Func("peer","","IDFromBytes"). Returns nil if absent.
func (p *Prog) Func(rel, recv, name string) *ssa.Function {
	f := p.funcLookup(rel, recv, name)
	if f != nil {
		Anchored[f] = true
	}
	return f
}

// Anchored records the functions the property files asked for by name or resolved by role: they are subjects of rules of
// their own and are never explored inline as somebody's helper (rules refer to their calls and results as such).
var Anchored = map[*ssa.Function]bool{}

func (p *Prog) funcLookup(rel, recv, name string) *ssa.Function {
	sp := p.Pkg(rel)
	if sp == nil {
		return nil
	}
	if recv == "" {
		return sp.Func(name)
	}
	m := sp.Members[recv]
	tn, ok := m.(*ssa.Type)
	if !ok {
		return nil
	}
	T := tn.Type()
	for _, t := range []types.Type{T, types.NewPointer(T)} {
		ms := p.SSA.MethodSets.MethodSet(t)
		for i := 0; i < ms.Len(); i++ {
			sel := ms.At(i)
			if sel.Obj().Name() == name {
				if f := p.SSA.MethodValue(sel); f != nil && f.Synthetic == "" {
					return f
				} else if f != nil {
					// wrapper (promoted/pointer-wrapper): find the declared one
					if fo, ok := sel.Obj().(*types.Func); ok {
						if df := p.SSA.FuncValue(fo); df != nil {
							return df
						}
					}
				}
			}
		}
	}
	return nil
}

// PkgFuncs returns every source function (incl. methods and nested closures) of a package, sorted by position.
func (p *Prog) PkgFuncs(rel string) []*ssa.Function {
	sp := p.Pkg(rel)
	if sp == nil {
		return nil
	}
	return p.FuncsOf(sp)
}

// FuncsOf lists all source functions of an SSA package including methods and closures.
func (p *Prog) FuncsOf(sp *ssa.Package) []*ssa.Function {
	seen := map[*ssa.Function]bool{}
	var out []*ssa.Function
	var add func(f *ssa.Function)
	add = func(f *ssa.Function) {
		if f == nil || seen[f] || f.Synthetic != "" && f.Syntax() == nil {
			return
		}
		if f.Blocks == nil {
			return
		}
		seen[f] = true
		out = append(out, f)
		for _, a := range f.AnonFuncs {
			add(a)
		}
	}
	for _, m := range sp.Members {
		switch m := m.(type) {
		case *ssa.Function:
			add(m)
		case *ssa.Type:
			T := m.Type()
			if _, isIface := T.Underlying().(*types.Interface); isIface {
				continue
			}
			for _, t := range []types.Type{T, types.NewPointer(T)} {
				ms := p.SSA.MethodSets.MethodSet(t)
				for i := 0; i < ms.Len(); i++ {
					if fo, ok := ms.At(i).Obj().(*types.Func); ok && fo.Pkg() == sp.Pkg {
						add(p.SSA.FuncValue(fo))
					}
				}
			}
		}
	}
	sort.Slice(out, func(i, j int) bool { return out[i].Pos() < out[j].Pos() })
	return out
}

// AllRepoFuncs lists the functions of all loaded repository packages.
func (p *Prog) AllRepoFuncs() []*ssa.Function {
	var paths []string
	for k := range p.SSAPkg {
		paths = append(paths, k)
	}
	sort.Strings(paths)
	var out []*ssa.Function
	for _, k := range paths {
		out = append(out, p.FuncsOf(p.SSAPkg[k])...)
	}
	return out
}

// Pos renders a position relative to the repository root.
func (p *Prog) Pos(pos token.Pos) string {
	if !pos.IsValid() {
		return "-"
	}
	ps := p.Fset.Position(pos)
	f := strings.TrimPrefix(ps.Filename, p.Dir+"/")
	return fmt.Sprintf("%s:%d", f, ps.Line)
}

// FuncName renders a function name without the module prefix.
func FuncName(f *ssa.Function) string {
	if f == nil {
		return "<nil>"
	}
	s := f.String()
	s = strings.ReplaceAll(s, Mod+"/", "")
	s = strings.ReplaceAll(s, Mod+".", "")
	return s
}

// IsGenerated reports whether the file holding pos is a generated protobuf file.
func (p *Prog) IsGenerated(pos token.Pos) bool {
	ps := p.Fset.Position(pos)
	return strings.HasSuffix(ps.Filename, ".pb.go")
}

// FileOf returns the syntax file containing pos among repository packages.
func (p *Prog) FileOf(pos token.Pos) *ast.File {
	for _, pk := range p.All {
		if !strings.HasPrefix(pk.PkgPath, Mod) {
			continue
		}
		for _, f := range pk.Syntax {
			if f.FileStart <= pos && pos <= f.FileEnd {
				return f
			}
		}
	}
	return nil
}

// InstallHelperArgs builds the "unique call site" table used by IsParam in InlineHelpers mode.
func (p *Prog) InstallHelperArgs() {
	sites := map[*ssa.Function][]*ssa.Call{}
	for _, fn := range p.AllRepoFuncs() {
		for _, g := range withClosuresRaw(fn) {
			for _, b := range g.Blocks {
				for _, ins := range b.Instrs {
					if call, ok := ins.(*ssa.Call); ok {
						if h := call.Call.StaticCallee(); h != nil && h.Pkg != nil && h.Parent() == nil {
							sites[h] = append(sites[h], call)
						}
					}
				}
			}
		}
	}
	helperArg = func(pv *ssa.Parameter) ssa.Value {
		h := pv.Parent()
		if h == nil || h.Parent() != nil {
			return nil
		}
		if n := h.Name(); n == "" || !(n[0] >= 'a' && n[0] <= 'z') {
			return nil
		}
		cs := sites[h]
		if len(cs) != 1 {
			return nil
		}
		for i, q := range h.Params {
			if q == pv && i < len(cs[0].Call.Args) {
				return cs[0].Call.Args[i]
			}
		}
		return nil
	}
}
