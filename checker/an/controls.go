package an

import (
	"fmt"
	"go/token"
	"go/types"

	"golang.org/x/tools/go/ssa"
)

const fixtureMod = "bifrostverify/fixtures/bad"

// RunControls loads the checker's own fixture package and requires every rule engine to fire on the broken
// function and to stay silent on its correct twin. A failed control makes the run fail (a rule that cannot
// fire proves nothing).
type fixtureLoad struct {
	p   *Prog
	err error
}

// PreloadFixtures starts loading the fixture package concurrently with the repository load.
func PreloadFixtures(checkerDir string) <-chan fixtureLoad {
	ch := make(chan fixtureLoad, 1)
	go func() {
		p, err := LoadMod(checkerDir, "bifrostverify/fixtures", "./fixtures/bad")
		ch <- fixtureLoad{p, err}
	}()
	return ch
}

func (c *Check) RunControls(pre <-chan fixtureLoad) {
	fl := <-pre
	fp, err := fl.p, fl.err
	if err != nil {
		c.Undecided("CONTROL", "positive controls load", nil, "fixtures do not load: "+err.Error())
		return
	}
	sp := fp.SSAPkg[fixtureMod]
	if sp == nil {
		c.Undecided("CONTROL", "positive controls load", nil, "fixture package missing")
		return
	}
	fn := func(name string) *ssa.Function { return sp.Func(name) }
	method := func(typ, name string) *ssa.Function {
		T := sp.Members[typ].(*ssa.Type).Type()
		ms := fp.SSA.MethodSets.MethodSet(types.NewPointer(T))
		for i := 0; i < ms.Len(); i++ {
			if ms.At(i).Obj().Name() == name {
				return fp.SSA.MethodValue(ms.At(i))
			}
		}
		return nil
	}
	cCheck := Callee{Pkg: fixtureMod, Name: "check"}
	succ := func(s *State, ins ssa.Instruction) bool {
		ret, ok := ins.(*ssa.Return)
		return ok && !s.KnownNonNilErr(s.RetVal(ret, -1))
	}
	run := func(name string, expectViolation bool, f func(sub *Check)) {
		sub := NewCheck(c.Prop, c.Tier, fp)
		f(sub)
		fired := false
		for _, o := range sub.Obls {
			if o.Status != Discharged {
				fired = true
			}
		}
		ok := fired == expectViolation
		label := fmt.Sprintf("%s: %s", name, map[bool]string{true: "fires on the broken fixture", false: "silent on the correct fixture"}[expectViolation])
		if ok {
			c.Controls = append(c.Controls, "ok "+label)
		} else {
			c.Controls = append(c.Controls, "FAILED "+label)
			c.Undecided("CONTROL", "control "+label, nil, "the rule engine did not behave as required on the checker's own fixture")
		}
	}
	for _, v := range []struct {
		f   string
		bad bool
	}{{"GateGood", false}, {"GateBad", true}} {
		v := v
		run("GATE", v.bad, func(sub *Check) {
			sub.Gate(GateSpec{Construct: v.f, Fn: fn(v.f), Sink: succ, Reqs: []Req{CallOK("check ok", cCheck)}})
		})
	}
	for _, v := range []struct {
		f   string
		bad bool
	}{{"ErrPropGood", false}, {"ErrPropBad", true}} {
		v := v
		run("ERRPROP", v.bad, func(sub *Check) {
			sub.ErrProp(ErrPropSpec{Construct: v.f, Fn: fn(v.f), Failing: CallFailed(cCheck), ErrIdx: -1})
		})
	}
	for _, v := range []struct {
		f   string
		bad bool
	}{{"NilRetGood", false}, {"NilRetBad", true}} {
		v := v
		run("NILRET", v.bad, func(sub *Check) { sub.NilRet(NilRetSpec{Construct: v.f, Fn: fn(v.f), ValIdx: 0, ErrIdx: -1}) })
	}
	tp := fp.All[fixtureMod]
	mtx, val := fieldOf(tp.Types, "Box", "mtx"), fieldOf(tp.Types, "Box", "val")
	for _, v := range []struct {
		f   string
		bad bool
	}{{"Good", false}, {"Bad", true}} {
		v := v
		run("LOCKSET", v.bad, func(sub *Check) {
			sub.LockSet(LockSpec{Construct: v.f, Guard: mtx, Guarded: []*types.Var{val}, Funcs: []*ssa.Function{method("Box", v.f)}, Min: 1})
		})
	}
	for _, v := range []struct {
		f   string
		bad bool
	}{{"DivGood", false}, {"DivBad", true}} {
		v := v
		run("PANIC", v.bad, func(sub *Check) {
			sub.Totality(PanicSpec{Construct: v.f, Funcs: []*ssa.Function{fn(v.f)}, Min: 1})
		})
	}
	for _, v := range []struct {
		f   string
		bad bool
	}{{"FlagGood", false}, {"FlagBad", true}} {
		v := v
		run("MARK", v.bad, func(sub *Check) {
			sub.Gate(GateSpec{Construct: v.f, Fn: fn(v.f), Sink: succ,
				Mark: func(s *State, cond ssa.Value, want bool) {
					if x, y, r, ok := s.CondRel(cond, want); ok && r == EQ && (IsParam(x, 1) || IsParam(y, 1)) {
						s.SetMark("matched", nil)
					}
				},
				Reqs: []Req{{Name: "element matched", Holds: func(s *State, at ssa.Instruction) bool { return s.HasMark("matched") }}}})
		})
	}
	for _, v := range []struct {
		f   string
		bad bool
	}{{"NilDerefGood", false}, {"NilDerefBad", true}} {
		v := v
		run("NILDEREF", v.bad, func(sub *Check) { sub.NilDerefGuard("NILDEREF", v.f, []*ssa.Function{fn(v.f)}, nil) })
	}
	for _, v := range []struct {
		f   string
		bad bool
	}{{"ReleasedGood", false}, {"ReleasedBad", true}} {
		v := v
		run("RELEASED", v.bad, func(sub *Check) { sub.ReleasedNotReturned("OWNERSHIP", v.f, []*ssa.Function{fn(v.f)}) })
	}
	for _, v := range []struct {
		f   string
		bad bool
	}{{"UseAfterReleaseGood", false}, {"UseAfterReleaseBad", true}} {
		v := v
		run("USEAFTERRELEASE", v.bad, func(sub *Check) { sub.NotUsedAfterRelease("OWNERSHIP", v.f, []*ssa.Function{fn(v.f)}) })
	}
	for _, v := range []struct {
		f   string
		bad bool
	}{{"SweepGood", false}, {"SweepBad", true}} {
		v := v
		run("MUSTEXEC", v.bad, func(sub *Check) {
			f := fn(v.f)
			ok := false
			for _, b := range f.Blocks {
				iff, isIf := b.Instrs[len(b.Instrs)-1].(*ssa.If)
				if !isIf {
					continue
				}
				bo, isBO := iff.Cond.(*ssa.BinOp)
				if !isBO || bo.Op != token.EQL {
					continue
				}
				if call, isCall := bo.X.(*ssa.Call); !isCall || BuiltinName(call) != "len" {
					continue
				}
				loop := InnermostLoop(f, b)
				isDel := func(i ssa.Instruction) bool {
					call, isCall := i.(*ssa.Call)
					return isCall && BuiltinName(call) == "delete" && IsParam(call.Call.Args[0], 0)
				}
				head := func(x *ssa.BasicBlock) bool {
					if !loop[x] {
						return true
					}
					for o := range loop {
						if !x.Dominates(o) {
							return false
						}
					}
					return true
				}
				first := b.Succs[0].Instrs[0]
				ok, _ = MustExecBefore(first, isDel, head)
				if isDel(first) {
					ok = true
				}
			}
			if ok {
				sub.OK("MUSTEXEC", v.f, f, 1, "delete on every path")
			} else {
				sub.Fail("MUSTEXEC", v.f, f, "", 1, "a path skips the delete", nil)
			}
		})
	}
}
