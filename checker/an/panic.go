package an

import (
	"bufio"
	"bytes"
	"fmt"
	"go/ast"
	"go/constant"
	"go/token"
	"go/types"
	"os"
	"os/exec"
	"path/filepath"
	"regexp"
	"sort"
	"strconv"
	"strings"

	"golang.org/x/tools/go/ssa"
)

// BCE holds the compiler's list of bounds checks its prove pass could not eliminate.
type BCE struct {
	// Unproven maps "relfile:line:col" -> kind (IsInBounds / IsSliceInBounds)
	Unproven map[string]string
	Pkgs     []string
}

var bceLine = regexp.MustCompile(`^(.*\.go):(\d+):(\d+): Found (IsInBounds|IsSliceInBounds)`)

// RunBCE asks the compiler (no code is executed) for the unproven bounds checks of the given package patterns.
// Inlining is disabled so that every position is the '[' of an index/slice expression in that package's source.
func RunBCE(repo string, patterns ...string) (*BCE, error) {
	args := []string{"build", "-gcflags=" + Mod + "/...=-d=ssa/check_bce/debug=1 -l"}
	args = append(args, patterns...)
	cmd := exec.Command("go", args...)
	cmd.Dir = repo
	cmd.Env = append(os.Environ(), "GOWORK=off")
	var out bytes.Buffer
	cmd.Stdout = &out
	cmd.Stderr = &out
	err := cmd.Run()
	b := &BCE{Unproven: map[string]string{}, Pkgs: patterns}
	sc := bufio.NewScanner(&out)
	sc.Buffer(make([]byte, 1<<20), 1<<24)
	other := []string{}
	for sc.Scan() {
		l := sc.Text()
		m := bceLine.FindStringSubmatch(l)
		if m == nil {
			if !strings.HasPrefix(l, "#") && strings.TrimSpace(l) != "" {
				other = append(other, l)
			}
			continue
		}
		f := m[1]
		if filepath.IsAbs(f) {
			if !strings.HasPrefix(f, repo+"/") {
				continue
			}
			f = strings.TrimPrefix(f, repo+"/")
		}
		f = strings.TrimPrefix(f, "./")
		b.Unproven[f+":"+m[2]+":"+m[3]] = m[4]
	}
	if err != nil {
		return nil, fmt.Errorf("go build for bounds-check listing failed: %v: %s", err, Short(strings.Join(other, " | "), 600))
	}
	return b, nil
}

// posKey renders pos as relfile:line:col.
func (p *Prog) posKey(pos token.Pos) string {
	ps := p.Fset.Position(pos)
	return strings.TrimPrefix(ps.Filename, p.Dir+"/") + ":" + strconv.Itoa(ps.Line) + ":" + strconv.Itoa(ps.Column)
}

// exprAt returns the source text of the index/slice expression whose '[' is at pos.
func (p *Prog) exprAt(pos token.Pos) string {
	f := p.FileOf(pos)
	if f == nil {
		return "?"
	}
	var found ast.Expr
	ast.Inspect(f, func(n ast.Node) bool {
		if n == nil || found != nil {
			return false
		}
		if n.Pos() > pos || n.End() < pos {
			return false
		}
		switch x := n.(type) {
		case *ast.IndexExpr:
			if x.Lbrack == pos {
				found = x
			}
		case *ast.SliceExpr:
			if x.Lbrack == pos {
				found = x
			}
		}
		return true
	})
	if found == nil {
		return "?"
	}
	return types.ExprString(found)
}

// PanicSite is one potential run-time panic site in a function.
type PanicSite struct {
	Fn    *ssa.Function
	Instr ssa.Instruction
	Kind  string // bounds | divide | assert | panic
	Expr  string
}

func (ps PanicSite) Key() string { return FuncName(ps.Fn) + ": " + ps.Kind + " " + ps.Expr }

// PanicSpec describes a totality obligation over a set of functions.
type PanicSpec struct {
	Construct string
	Funcs     []*ssa.Function
	BCE       *BCE
	// Reviewed maps PanicSite.Key() to the reason the site cannot fail; such sites are discharged by review.
	Reviewed map[string]string
	// Min is the minimum number of functions expected (vacuity guard).
	Min int
	// Preconds are calls to APIs documented to panic unless a precondition holds.
	Preconds []Precond
}

// Precond describes a call whose documented precondition must be established on every path.
type Precond struct {
	Callee Callee
	Invoke string // interface method name (used when Callee is zero)
	Desc   string
	Holds  func(s *State, call *ssa.Call) (bool, string)
}

func (pc Precond) matches(call *ssa.Call) bool {
	if pc.Invoke != "" {
		return call.Call.IsInvoke() && call.Call.Method.Name() == pc.Invoke
	}
	return IsCallTo(call, pc.Callee)
}

func lenConstFacts(s *State, base ssa.Value) (lo int64, haveLo bool) {
	// lower bound on len(base) from facts len(base) REL const
	kb := "len(" + s.Key(base) + ")"
	for k, r := range s.Facts {
		parts := strings.SplitN(k, "|", 2)
		if len(parts) != 2 {
			continue
		}
		var ck string
		rel := r
		switch {
		case parts[0] == kb && strings.HasPrefix(parts[1], "c:"):
			ck = parts[1]
		case parts[1] == kb && strings.HasPrefix(parts[0], "c:"):
			ck = parts[0]
			rel = flip(r)
		default:
			continue
		}
		n, err := strconv.ParseInt(strings.TrimPrefix(ck, "c:"), 10, 64)
		if err != nil {
			continue
		}
		// len REL n
		var b int64
		ok := false
		switch rel {
		case EQ, GE:
			b, ok = n, true
		case GT:
			b, ok = n+1, true
		}
		if ok && (!haveLo || b > lo) {
			lo, haveLo = b, true
		}
	}
	return
}

// fixedLen returns the statically known length of the value (arrays, slices of arrays, make with constant, known producers).
func (s *State) FixedLen(v ssa.Value) (int64, bool) {
	v = s.Canon(v)
	t := v.Type()
	if pt, ok := t.Underlying().(*types.Pointer); ok {
		if at, ok := pt.Elem().Underlying().(*types.Array); ok {
			return at.Len(), true
		}
	}
	if at, ok := t.Underlying().(*types.Array); ok {
		return at.Len(), true
	}
	switch x := v.(type) {
	case *ssa.MakeSlice:
		if k, ok := s.Canon(x.Len).(*ssa.Const); ok {
			if n, ok := constInt(k); ok {
				return n, true
			}
		}
	case *ssa.Slice:
		if x.Low == nil && x.High == nil {
			return s.FixedLen(x.X)
		}
		if x.High == nil {
			if k, ok := s.Canon(x.Low).(*ssa.Const); ok {
				if lo, ok := constInt(k); ok {
					if n, ok := s.FixedLen(x.X); ok && n >= lo {
						return n - lo, true
					}
				}
			}
			return 0, false
		}
		if x.High != nil {
			if k, ok := s.Canon(x.High).(*ssa.Const); ok {
				hi, _ := constInt(k)
				lo := int64(0)
				if x.Low != nil {
					k2, ok := s.Canon(x.Low).(*ssa.Const)
					if !ok {
						return 0, false
					}
					lo, _ = constInt(k2)
				}
				return hi - lo, true
			}
		}
	case *ssa.Call:
		// digest producers of fixed output length (trusted base, listed in evidence)
		for _, fl := range fixedProducers {
			if IsCallTo(x, fl.c) {
				if fl.nilArg >= 0 {
					if k, ok := s.Canon(x.Call.Args[fl.nilArg]).(*ssa.Const); !ok || k.Value != nil {
						continue
					}
				}
				return fl.n, true
			}
		}
	case *ssa.TypeAssert:
		// priv.Public().(ed25519.PublicKey) is 32 bytes
		if c, ok := s.Canon(x.X).(*ssa.Call); ok && IsCallTo(c, X("crypto/ed25519", "PrivateKey", "Public")) {
			return 32, true
		}
	case *ssa.Convert:
		return s.FixedLen(x.X)
	}
	return 0, false
}

var fixedProducers = []struct {
	c      Callee
	n      int64
	nilArg int // index of an argument that must be the nil constant (-1: none)
}{
	{X("github.com/zeebo/blake3", "Hasher", "Sum"), 32, 1}, // Sum(nil) on a default-size hasher yields 32 bytes
	{X("crypto/ed25519", "", "NewKeyFromSeed"), 64, -1},
}

// dischargeBounds tries to prove an index/slice instruction safe from the path facts.
func dischargeBounds(s *State, ins ssa.Instruction) (bool, string) {
	var base, lo, hi ssa.Value
	isIndex := false
	switch x := ins.(type) {
	case *ssa.Slice:
		base, lo, hi = x.X, x.Low, x.High
	case *ssa.IndexAddr:
		base, hi, isIndex = x.X, x.Index, true
	case *ssa.Index:
		base, hi, isIndex = x.X, x.Index, true
	case *ssa.Lookup:
		base, hi, isIndex = x.X, x.Index, true
	default:
		return false, ""
	}
	need := int64(-1)
	constOf := func(v ssa.Value) (int64, bool) {
		if v == nil {
			return 0, true
		}
		k, ok := s.Canon(v).(*ssa.Const)
		if !ok {
			return 0, false
		}
		return constInt(k)
	}
	if isIndex {
		if n, ok := constOf(hi); ok {
			need = n + 1
		}
	} else {
		l, ok1 := constOf(lo)
		h, ok2 := constOf(hi)
		if ok1 && ok2 {
			need = l
			if hi != nil {
				need = h
				if l > h {
					return false, ""
				}
			}
		}
	}
	if need >= 0 {
		if n, ok := s.FixedLen(base); ok && n >= need {
			return true, fmt.Sprintf("operand has fixed length %d >= %d", n, need)
		}
		if lb, ok := lenConstFacts(s, base); ok && lb >= need {
			return true, fmt.Sprintf("path guard gives len >= %d >= %d", lb, need)
		}
		// slicing a slice up to a constant needs cap, which is >= len
		return false, fmt.Sprintf("needs len >= %d but no guard or fixed length establishes it", need)
	}
	// variable bound: x[n:], x[:n], x[n] with n produced by a contract on the same buffer
	for _, bv := range []ssa.Value{lo, hi} {
		if bv == nil {
			continue
		}
		if _, isConst := s.Canon(bv).(*ssa.Const); isConst {
			continue
		}
		if ok, why := boundedByContract(s, base, bv, isIndex); ok {
			return true, why
		}
		// explicit guard n <= len(base) / n < len(base)
		r := s.relKeys(s.Key(bv), "len("+s.Key(base)+")")
		if isIndex && r == LT {
			return true, "index < len(operand) on this path"
		}
		if !isIndex && r != ANY && r&GT == 0 {
			return true, "bound <= len(operand) on this path"
		}
		return false, "variable bound without a recognised contract or guard"
	}
	return false, ""
}

// boundedByContract: n is a result of a call whose documented contract bounds it by len(base).
func boundedByContract(s *State, base, n ssa.Value, strict bool) (bool, string) {
	cn := s.Canon(n)
	var call *ssa.Call
	idx := 0
	if e, ok := cn.(*ssa.Extract); ok {
		call, _ = e.Tuple.(*ssa.Call)
		idx = e.Index
	} else {
		call, _ = cn.(*ssa.Call)
	}
	if call == nil || strict {
		return false, ""
	}
	kb := s.Key(base)
	switch {
	case BuiltinName(call) == "copy":
		if s.Key(call.Call.Args[0]) == kb || s.Key(call.Call.Args[1]) == kb {
			return true, "n = copy(...) is at most the operand's length"
		}
	case IsCallTo(call, X("encoding/binary", "", "Uvarint")) && idx == 1:
		if s.Key(call.Call.Args[0]) == kb {
			// n > 0 must be known (n <= 0 signals error/overflow)
			r := s.relKeys(s.Key(cn), "c:0")
			if r == GT {
				return true, "n from binary.Uvarint(operand) with n > 0 is at most len(operand)"
			}
			return false, ""
		}
	case IsCallTo(call, X("encoding/binary", "", "PutUvarint")):
		// n <= MaxVarintLen64 for every uint64; safe when the target buffer is the sliced operand and holds >= 10 bytes
		if l, ok := s.FixedLen(call.Call.Args[0]); ok && l >= 10 && s.Key(rootOf(s.Canon(call.Call.Args[0]))) == s.Key(rootOf(s.Canon(base))) {
			return true, "n = binary.PutUvarint(operand[:], x) <= 10 <= len(operand)"
		}
	case call.Call.IsInvoke() && call.Call.Method.Name() == "Read" && idx == 0:
		if len(call.Call.Args) == 1 && s.Key(call.Call.Args[0]) == kb {
			return true, "n from Read(operand) satisfies 0 <= n <= len(operand) (io.Reader contract)"
		}
	}
	return false, ""
}

// Totality decides the R7 obligations for the spec's functions.
func (c *Check) Totality(spec PanicSpec) {
	rule := "PANIC"
	if len(spec.Funcs) < spec.Min {
		c.Undecided(rule, spec.Construct+": function set", nil, fmt.Sprintf("only %d of at least %d expected decoder functions resolved", len(spec.Funcs), spec.Min))
	}
	usedReview := map[string]bool{}
	total, auto, reviewed := 0, 0, 0
	for _, fn := range spec.Funcs {
		if fn == nil || len(fn.Blocks) == 0 {
			c.Undecided(rule, spec.Construct+": function body", fn, "unresolved anchor: function has no body in the loaded program")
			continue
		}
		c.Touch(fn)
		// collect candidate sites
		sites := map[ssa.Instruction]PanicSite{}
		for _, b := range fn.Blocks {
			for _, ins := range b.Instrs {
				switch x := ins.(type) {
				case *ssa.Slice, *ssa.IndexAddr, *ssa.Index, *ssa.Lookup:
					if lk, ok := x.(*ssa.Lookup); ok {
						if _, isMap := lk.X.Type().Underlying().(*types.Map); isMap {
							continue
						}
					}
					if spec.BCE == nil || !ins.Pos().IsValid() {
						continue
					}
					if _, un := spec.BCE.Unproven[c.P.posKey(ins.Pos())]; un {
						sites[ins] = PanicSite{Fn: fn, Instr: ins, Kind: "bounds", Expr: c.P.exprAt(ins.Pos())}
					}
				case *ssa.BinOp:
					if x.Op == token.QUO || x.Op == token.REM {
						if bt, ok := x.X.Type().Underlying().(*types.Basic); ok && bt.Info()&types.IsInteger != 0 {
							if _, isConst := x.Y.(*ssa.Const); !isConst {
								sites[ins] = PanicSite{Fn: fn, Instr: ins, Kind: "divide", Expr: "by " + c.P.Describe(x.Y)}
							}
						}
					}
				case *ssa.TypeAssert:
					if !x.CommaOk {
						sites[ins] = PanicSite{Fn: fn, Instr: ins, Kind: "assert", Expr: "to " + types.TypeString(x.AssertedType, func(p *types.Package) string { return p.Name() })}
					}
				case *ssa.Panic:
					if ins.Pos().IsValid() {
						sites[ins] = PanicSite{Fn: fn, Instr: ins, Kind: "panic", Expr: "explicit"}
					}
				case *ssa.Call:
					for _, pc := range spec.Preconds {
						if pc.matches(x) {
							sites[ins] = PanicSite{Fn: fn, Instr: ins, Kind: "precondition", Expr: pc.Desc}
						}
					}
				}
			}
		}
		if len(sites) == 0 {
			c.OK(rule, spec.Construct+": "+FuncName(fn)+" has no unproven panic site", fn, 1, "no compiler-unproven bounds check, variable divisor, unchecked type assertion or explicit panic")
			continue
		}
		// path exploration to discharge
		failed := map[ssa.Instruction]*State{}
		why := map[ssa.Instruction]string{}
		reached := map[ssa.Instruction]int{}
		ex := &Explorer{P: c.P}
		ex.OnInstr = func(s *State, ins ssa.Instruction) bool {
			site, ok := sites[ins]
			if !ok {
				return true
			}
			reached[ins]++
			if failed[ins] != nil {
				return true
			}
			okk, w := false, ""
			switch site.Kind {
			case "bounds":
				okk, w = dischargeBounds(s, ins)
			case "divide":
				y := ins.(*ssa.BinOp).Y
				r := s.Rel(y, ssa.NewConst(constantZero, y.Type()))
				okk = r != ANY && r&EQ == 0
				w = "divisor known non-zero on this path"
				if l, isLen := s.Canon(y).(*ssa.Call); !okk && isLen && BuiltinName(l) == "len" {
					if n, ok := s.FixedLen(l.Call.Args[0]); ok && n > 0 {
						okk, w = true, fmt.Sprintf("divisor is the length (%d) of a fixed-length value", n)
					} else if lb, ok := lenConstFacts(s, l.Call.Args[0]); ok && lb > 0 {
						okk, w = true, "divisor is a length with a positive lower bound on this path"
					}
				}
			case "precondition":
				for _, pc := range spec.Preconds {
					if call := ins.(*ssa.Call); pc.matches(call) {
						okk, w = pc.Holds(s, call)
					}
				}
			}
			if !okk {
				failed[ins] = s.clone()
				why[ins] = w
			} else if why[ins] == "" {
				why[ins] = w
			}
			return true
		}
		ex.Run(fn, nil)
		var order []ssa.Instruction
		for ins := range sites {
			order = append(order, ins)
		}
		sort.Slice(order, func(i, j int) bool { return order[i].Pos() < order[j].Pos() })
		for _, ins := range order {
			site := sites[ins]
			total++
			name := spec.Construct + ": " + site.Key()
			pos := c.P.Pos(ins.Pos())
			switch {
			case ex.Truncated:
				c.Undecided(rule, name, fn, "state budget exhausted")
			case reached[ins] == 0:
				c.OK(rule, name, fn, ex.States, "site unreachable on explored paths")
			case failed[ins] == nil:
				auto++
				c.Require(true, rule, name, fn, pos, ex.States, "discharged on every path: "+why[ins], "")
			default:
				if reason, ok := spec.Reviewed[site.Key()]; ok {
					reviewed++
					usedReview[site.Key()] = true
					c.Require(true, rule, name, fn, pos, ex.States, "discharged by reviewed table: "+reason, "")
				} else {
					d := "unproven by the compiler and not discharged by path facts"
					if why[ins] != "" {
						d += ": " + why[ins]
					}
					c.Fail(rule, name, fn, pos, ex.States, d+" ("+site.Kind+" "+site.Expr+")", failed[ins].Witness())
				}
			}
		}
	}
	c.Note("%s: %d panic sites in %d functions: %d discharged from path facts, %d by reviewed table", spec.Construct, total, len(spec.Funcs), auto, reviewed)
}

var constantZero = constant.MakeInt64(0)
