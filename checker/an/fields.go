package an

import (
	"fmt"
	"go/token"
	"go/types"
	"sort"
	"strings"

	"golang.org/x/tools/go/ssa"
)

// FieldRef names a struct field: module-relative package, type name, field name.
type FieldRef struct{ Pkg, Type, Field string }

func (f FieldRef) String() string { return f.Pkg + "." + f.Type + "." + f.Field }

// XFieldRef names a field of an external struct by full package path.
type XFieldRef struct{ Pkg, Type, Field string }

// FieldVar resolves a repository field to its types.Var (nil if absent).
func (p *Prog) FieldVar(f FieldRef) *types.Var {
	tp := p.TPkg(f.Pkg)
	if tp == nil || tp.Types == nil {
		return nil
	}
	return fieldOf(tp.Types, f.Type, f.Field)
}

// ExtFieldVar resolves a field of an external package's struct.
func (p *Prog) ExtFieldVar(pkgPath, typ, field string) *types.Var {
	pk := p.All[pkgPath]
	if pk == nil || pk.Types == nil {
		return nil
	}
	return fieldOf(pk.Types, typ, field)
}

func fieldOf(pkg *types.Package, typ, field string) *types.Var {
	obj := pkg.Scope().Lookup(typ)
	if obj == nil {
		return nil
	}
	st, ok := obj.Type().Underlying().(*types.Struct)
	if !ok {
		return nil
	}
	for i := 0; i < st.NumFields(); i++ {
		if st.Field(i).Name() == field {
			return st.Field(i)
		}
	}
	return nil
}

// AccessKind classifies a field access.
type AccessKind int

const (
	Read AccessKind = iota
	Write
	MapWrite // map update / delete / clear on the loaded field value
	AddrTaken
)

func (k AccessKind) String() string {
	return [...]string{"read", "write", "map-write", "addr-taken"}[k]
}

// FieldAccess is one access to a struct field.
type FieldAccess struct {
	Fn    *ssa.Function
	Instr ssa.Instruction // the access instruction (store, load, map update ...)
	Addr  ssa.Value       // the FieldAddr / Field instruction
	Base  ssa.Value       // the struct pointer/value operand
	Kind  AccessKind
	Val   ssa.Value // stored value for Write
}

func structFieldVar(t types.Type, idx int) *types.Var {
	if pt, ok := t.Underlying().(*types.Pointer); ok {
		t = pt.Elem()
	}
	st, ok := t.Underlying().(*types.Struct)
	if !ok || idx >= st.NumFields() {
		return nil
	}
	return st.Field(idx)
}

// FieldOfAddr returns the field variable a FieldAddr/Field instruction selects.
func FieldOfAddr(v ssa.Value) *types.Var {
	switch x := v.(type) {
	case *ssa.FieldAddr:
		return structFieldVar(x.X.Type(), x.Field)
	case *ssa.Field:
		return structFieldVar(x.X.Type(), x.Field)
	}
	return nil
}

// FieldAccesses lists all accesses to field fv in the given functions.
func (p *Prog) FieldAccesses(fv *types.Var, fns []*ssa.Function) []FieldAccess {
	var out []FieldAccess
	for _, fn := range fns {
		for _, b := range fn.Blocks {
			for _, ins := range b.Instrs {
				switch x := ins.(type) {
				case *ssa.FieldAddr:
					if v := structFieldVar(x.X.Type(), x.Field); v == nil || v.Origin() != fv {
						continue
					}
					out = append(out, p.classify(fn, x, x.X)...)
				case *ssa.Field:
					if v := structFieldVar(x.X.Type(), x.Field); v == nil || v.Origin() != fv {
						continue
					}
					out = append(out, FieldAccess{Fn: fn, Instr: x, Addr: x, Base: x.X, Kind: Read})
				}
			}
		}
	}
	sort.SliceStable(out, func(i, j int) bool { return out[i].Instr.Pos() < out[j].Instr.Pos() })
	return out
}

func (p *Prog) classify(fn *ssa.Function, fa *ssa.FieldAddr, base ssa.Value) []FieldAccess {
	var out []FieldAccess
	if fa.Referrers() == nil {
		return nil
	}
	for _, r := range *fa.Referrers() {
		switch r := r.(type) {
		case *ssa.Store:
			if r.Addr == ssa.Value(fa) {
				out = append(out, FieldAccess{Fn: fn, Instr: r, Addr: fa, Base: base, Kind: Write, Val: r.Val})
			} else {
				out = append(out, FieldAccess{Fn: fn, Instr: r, Addr: fa, Base: base, Kind: AddrTaken})
			}
		case *ssa.UnOp:
			if r.Op == token.MUL {
				out = append(out, FieldAccess{Fn: fn, Instr: r, Addr: fa, Base: base, Kind: Read})
				// map writes through the loaded value
				if r.Referrers() != nil {
					for _, rr := range *r.Referrers() {
						switch m := rr.(type) {
						case *ssa.MapUpdate:
							if m.Map == ssa.Value(r) {
								out = append(out, FieldAccess{Fn: fn, Instr: m, Addr: fa, Base: base, Kind: MapWrite, Val: m.Value})
							}
						case *ssa.Call:
							if b := BuiltinName(m); (b == "delete" || b == "clear") && len(m.Call.Args) > 0 && m.Call.Args[0] == ssa.Value(r) {
								out = append(out, FieldAccess{Fn: fn, Instr: m, Addr: fa, Base: base, Kind: MapWrite})
							}
						}
					}
				}
			}
		case *ssa.DebugRef:
		case *ssa.Phi:
			// a pointer to the field that flows through a phi: dereferences of the phi are accesses
			if r.Referrers() != nil {
				for _, rr := range *r.Referrers() {
					switch m := rr.(type) {
					case *ssa.UnOp:
						if m.Op == token.MUL {
							out = append(out, FieldAccess{Fn: fn, Instr: m, Addr: fa, Base: base, Kind: Read})
						}
					case *ssa.Store:
						if m.Addr == ssa.Value(r) {
							out = append(out, FieldAccess{Fn: fn, Instr: m, Addr: fa, Base: base, Kind: Write, Val: m.Val})
						}
					}
				}
			}
		case *ssa.FieldAddr, *ssa.IndexAddr:
			// nested struct/array field: treat sub-accesses as accesses of this field
			out = append(out, FieldAccess{Fn: fn, Instr: r, Addr: fa, Base: base, Kind: Read})
		case *ssa.Call:
			// method call on the field's address (e.g. mtx.Lock(), bcast.HoldLock)
			out = append(out, FieldAccess{Fn: fn, Instr: r, Addr: fa, Base: base, Kind: AddrTaken})
		default:
			out = append(out, FieldAccess{Fn: fn, Instr: r, Addr: fa, Base: base, Kind: AddrTaken})
		}
	}
	return out
}

// WhoSpec: accesses of a kind to a field may only occur in the allowed functions.
type WhoSpec struct {
	Construct string
	Field     *types.Var
	Kinds     []AccessKind
	Allowed   func(fn *ssa.Function) bool
	Min       int // minimum number of matching accesses expected (vacuity guard)
	Funcs     []*ssa.Function
}

// Who decides a who-may-access obligation.
func (c *Check) Who(spec WhoSpec) bool {
	if spec.Field == nil {
		c.Undecided("WHO", spec.Construct, nil, "unresolved anchor: field not found")
		return false
	}
	fns := spec.Funcs
	if fns == nil {
		fns = c.P.AllRepoFuncs()
	}
	acc := c.P.FieldAccesses(spec.Field, fns)
	n := 0
	ok := true
	for _, a := range acc {
		match := false
		for _, k := range spec.Kinds {
			if a.Kind == k {
				match = true
			}
		}
		if !match {
			continue
		}
		n++
		if !spec.Allowed(a.Fn) {
			ok = false
			c.Fail("WHO", spec.Construct, a.Fn, c.P.Pos(a.Instr.Pos()), len(acc), fmt.Sprintf("%s of %s in a function outside the allowed set", a.Kind, spec.Field.Name()), nil)
		}
	}
	c.Sites(n)
	if n < spec.Min {
		c.Undecided("WHO", spec.Construct, nil, fmt.Sprintf("only %d matching accesses found, expected at least %d (anchor drift)", n, spec.Min))
		return false
	}
	if ok {
		c.OK("WHO", spec.Construct, nil, n, fmt.Sprintf("%d accesses of %s, all inside the allowed functions", n, spec.Field.Name()))
	}
	return ok
}

// InFuncs builds an Allowed predicate: the access is in one of the functions or a closure nested in one.
func InFuncs(fs ...*ssa.Function) func(*ssa.Function) bool {
	return func(fn *ssa.Function) bool {
		for f := fn; f != nil; f = f.Parent() {
			for _, a := range fs {
				if a != nil && f == a {
					return true
				}
			}
		}
		return false
	}
}

// FrozenField reports whether a struct field is written only while its object is under construction: every store to
// it (anywhere in the repository) goes through a pointer to an object allocated in the storing function, and its
// address is never taken otherwise. Two loads of such a field from the same object denote the same value, whatever
// happens between them. Map-, channel-, struct- and array-typed fields are never treated as frozen (their observable
// state changes without a store to the field).
func (p *Prog) FrozenField(f *types.Var) bool {
	if f == nil {
		return false
	}
	f = f.Origin()
	if p.frozen == nil {
		p.frozen = map[*types.Var]bool{}
	}
	if v, ok := p.frozen[f]; ok {
		return v
	}
	ok := true
	switch f.Type().Underlying().(type) {
	case *types.Map, *types.Chan, *types.Struct, *types.Array:
		ok = false
	}
	if ok && (f.Pkg() == nil || !strings.HasPrefix(f.Pkg().Path(), Mod)) {
		ok = false
	}
	if ok {
		for _, a := range p.FieldAccesses(f, p.AllRepoFuncs()) {
			switch a.Kind {
			case Write:
				if al, isAlloc := a.Base.(*ssa.Alloc); !isAlloc || al.Parent() != a.Fn {
					ok = false
				}
			case AddrTaken, MapWrite:
				ok = false
			}
			if !ok {
				break
			}
		}
	}
	p.frozen[f] = ok
	return ok
}
