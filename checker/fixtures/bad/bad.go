// Package bad holds deliberately broken (and, next to each, correct) miniature functions. Every rule engine of the
// checker must FIRE on the broken one and stay SILENT on the correct twin on every run (positive / negative controls).
// Nothing here is ever executed.
package bad

import (
	"errors"
	"sync"
)

var ErrBad = errors.New("bad")

func check(b []byte) error {
	if len(b) == 0 {
		return ErrBad
	}
	return nil
}

// --- GATE -------------------------------------------------------------------------------------------------------

func GateGood(b []byte) ([]byte, error) {
	if err := check(b); err != nil {
		return nil, err
	}
	return b, nil
}

// GateBad skips the check when the input is short: a success path without the gate.
func GateBad(b []byte) ([]byte, error) {
	if len(b) > 4 {
		if err := check(b); err != nil {
			return nil, err
		}
	}
	return b, nil
}

// --- ERRPROP ----------------------------------------------------------------------------------------------------

func ErrPropGood(b []byte) error {
	vErr := check(b)
	if vErr != nil {
		return vErr
	}
	return nil
}

// ErrPropBad returns the (nil) error of an earlier step when the check fails.
func ErrPropBad(b []byte) error {
	var err error
	if len(b) > 100 {
		return ErrBad
	}
	vErr := check(b)
	if vErr != nil {
		return err
	}
	return nil
}

// --- NILRET -----------------------------------------------------------------------------------------------------

type thing struct{ n int }

func NilRetGood(b []byte) (*thing, error) {
	if len(b) == 0 {
		return nil, ErrBad
	}
	return &thing{n: len(b)}, nil
}

func NilRetBad(b []byte) (*thing, error) {
	if len(b) == 0 {
		return nil, nil
	}
	return &thing{n: len(b)}, nil
}

// --- LOCKSET ----------------------------------------------------------------------------------------------------

type Box struct {
	mtx sync.Mutex
	val int
}

func (b *Box) Good() int {
	b.mtx.Lock()
	defer b.mtx.Unlock()
	return b.val
}

func (b *Box) Bad() int {
	b.mtx.Lock()
	b.mtx.Unlock()
	return b.val
}

// --- PANIC (divide) ---------------------------------------------------------------------------------------------

func DivGood(s []byte, i int) int {
	if len(s) == 0 {
		return 0
	}
	return i % len(s)
}

func DivBad(s []byte, i int) int {
	return i % len(s)
}

// --- flag idiom with sticky marks -------------------------------------------------------------------------------

func FlagGood(list []string, want string) (string, error) {
	match := false
	for _, l := range list {
		if l == want {
			match = true
		}
	}
	if !match {
		return "", ErrBad
	}
	return want, nil
}

// FlagBad forgets to consult the flag.
func FlagBad(list []string, want string) (string, error) {
	match := false
	for _, l := range list {
		if l == want {
			match = true
		}
	}
	_ = match
	return want, nil
}

// ---- NILDEREF controls

type node struct{ n int }

func (x *node) size() int { return x.n }

func parse(b []byte) (*node, error) {
	if len(b) == 0 {
		return nil, errors.New("empty")
	}
	return &node{n: len(b)}, nil
}

func NilDerefGood(b []byte) (int, bool) {
	x, err := parse(b)
	if err != nil {
		return 0, false
	}
	return x.size(), true
}

func NilDerefBad(b []byte) (int, bool) {
	x, err := parse(b)
	return x.size(), err == nil
}

// ---- RELEASED controls

var pool = sync.Pool{New: func() any { return new([64]byte) }}

func ReleasedGood(b []byte) []byte {
	buf := pool.Get().(*[64]byte)
	defer pool.Put(buf)
	n := copy(buf[:], b)
	out := make([]byte, n)
	copy(out, buf[:n])
	return out
}

func ReleasedBad(b []byte) []byte {
	buf := pool.Get().(*[64]byte)
	defer pool.Put(buf)
	n := copy(buf[:], b)
	return buf[:n]
}

type sink interface{ Write([]byte) (int, error) }

func UseAfterReleaseGood(w sink, b []byte) (int, error) {
	buf := make([]byte, len(b))
	copy(buf, b)
	n, err := w.Write(buf)
	pool.Put(&buf)
	return n, err
}

func UseAfterReleaseBad(w sink, b []byte) (int, error) {
	buf := make([]byte, len(b))
	copy(buf, b)
	pool.Put(&buf)
	return w.Write(buf)
}

// ---- MUSTEXEC controls (every iteration that sees an empty entry deletes it)

func SweepGood(m map[string][]int, seen map[string]bool) {
	for k, v := range m {
		if len(v) == 0 {
			if seen[k] {
				delete(seen, k)
			}
			delete(m, k)
		}
	}
}

func SweepBad(m map[string][]int, seen map[string]bool) {
	for k, v := range m {
		if len(v) == 0 {
			if seen[k] {
				delete(seen, k)
				delete(m, k)
			}
		}
	}
}
